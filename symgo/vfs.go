package main

// In-engine file system with crash semantics, and crash-point decisions.
//
// Model: a flat name space of files; each file has its bytes and a durable length: bytes below it
// survive a crash, of the unsynced tail an arbitrary prefix survives (choice at Reboot).  Files opened
// with O_SYNC, and Sync(), make everything written so far durable.  Rename and Remove are atomic and
// immediately durable (directory-entry reordering is outside the model).  When crash points are
// enabled (vp.CrashPoints(n)) every mutating operation is preceded by a decision "crash here?"; a
// crash during a Write leaves a prefix of that write in the file.  After a crash all file operations
// fail and mutate nothing until vp.Reboot().

import (
	"fmt"
	"go/types"
	"sort"
	"strings"
)

type vfile struct {
	data    []Value
	durable int
	isDir   bool
	mtime   int64
}

type vhandle struct {
	f      *vfile
	name   string
	pos    int
	sync   bool
	app    bool
	rd, wr bool
	closed bool
	dirPos int
}

type vfs struct {
	files      map[string]*vfile
	crashLeft  int
	ioFaultsLeft int // write failures still to be injected (vp.IOFaults)
	crashed    bool
	crashes    int
	tmpSeq     int
	opLog      []string
}

type crashPanic struct{}

func (m *Machine) fs() *vfs {
	if v, ok := m.side["vfs"].(*vfs); ok {
		return v
	}
	v := &vfs{files: map[string]*vfile{"/": {isDir: true}, "/tmp": {isDir: true}}}
	m.side["vfs"] = v
	return v
}

func cleanPath(p string) string {
	if p == "" {
		return "."
	}
	parts := strings.Split(p, "/")
	var out []string
	for _, s := range parts {
		switch s {
		case "", ".":
		case "..":
			if len(out) > 0 {
				out = out[:len(out)-1]
			}
		default:
			out = append(out, s)
		}
	}
	r := strings.Join(out, "/")
	if strings.HasPrefix(p, "/") {
		return "/" + r
	}
	if r == "" {
		return "."
	}
	return "/cwd/" + r
}

func (m *Machine) pathError(op, path string, which string) Value {
	fsPkg := m.prog.ImportedPackage("io/fs")
	if fsPkg == nil {
		return m.mkError(op + " " + path + ": " + which)
	}
	var inner Value
	if gv := fsPkg.Var(which); gv != nil {
		inner = *m.globalAddr(gv)
	}
	if itf, ok := inner.(Iface); !ok || itf.T == nil {
		inner = m.mkError(which)
	}
	cell := new(Value)
	*cell = Struct{op, path, inner}
	return Iface{T: types.NewPointer(fsPkg.Type("PathError").Type()), V: cell}
}

// crashPoint is called before every mutating file operation. It returns true if the machine "crashes" now.
func (m *Machine) crashPoint(what string) bool {
	v := m.fs()
	if v.crashed {
		return true
	}
	if v.crashLeft <= 0 {
		return false
	}
	if m.decide("crash", 2, nil) == 1 {
		v.crashLeft--
		v.crashed = true
		v.crashes++
		v.opLog = append(v.opLog, "CRASH before/in "+what)
		return true
	}
	return false
}

func (m *Machine) doCrash() {
	panic(targetPanic{v: Iface{T: types.Typ[types.String], V: "vp: simulated crash"}})
}

func (m *Machine) newFileValue(h *vhandle) Value {
	osPkg := m.prog.ImportedPackage("os")
	cell := new(Value)
	*cell = zero(osPkg.Type("File").Type())
	m.side[fileKey{cell}] = h
	return cell
}

type fileKey struct{ p *Value }

func (m *Machine) handleOf(v Value) *vhandle {
	p, _ := v.(*Value)
	if p == nil {
		return nil
	}
	h, _ := m.side[fileKey{p}].(*vhandle)
	return h
}

const (
	oRDONLY = 0x0
	oWRONLY = 0x1
	oRDWR   = 0x2
	oAPPEND = 0x400
	oCREATE = 0x40
	oEXCL   = 0x80
	oSYNC   = 0x101000
	oTRUNC  = 0x200
)

func (m *Machine) vfsOpen(name string, flag int64) (Value, Value) {
	v := m.fs()
	path := cleanPath(name)
	if v.crashed {
		m.doCrash()
	}
	f, exists := v.files[path]
	if exists && flag&oCREATE != 0 && flag&oEXCL != 0 {
		return (*Value)(nil), m.pathError("open", name, "ErrExist")
	}
	if !exists {
		if flag&oCREATE == 0 {
			return (*Value)(nil), m.pathError("open", name, "ErrNotExist")
		}
		if m.crashPoint("create " + path) {
			m.doCrash()
		}
		f = &vfile{}
		v.files[path] = f
		v.opLog = append(v.opLog, "create "+path)
	} else if flag&oTRUNC != 0 && !f.isDir {
		if m.crashPoint("truncate " + path) {
			m.doCrash()
		}
		f.data, f.durable = nil, 0
	}
	h := &vhandle{f: f, name: name, sync: flag&oSYNC == oSYNC, app: flag&oAPPEND != 0}
	acc := flag & 3
	h.rd = acc == oRDONLY || acc == oRDWR
	h.wr = acc == oWRONLY || acc == oRDWR
	return m.newFileValue(h), Iface{}
}

func (m *Machine) vfsWrite(h *vhandle, b []Value) (int, Value) {
	v := m.fs()
	if h == nil || h.closed {
		return 0, m.mkError("write: file already closed")
	}
	if !h.wr {
		return 0, m.pathError("write", h.name, "ErrPermission")
	}
	if v.crashed {
		m.doCrash()
	}
	if len(b) == 0 {
		return 0, Iface{}
	}
	if v.ioFaultsLeft > 0 && m.decide("ioerr", 2, nil) == 1 {
		// the write fails (disk full, quota, I/O error): nothing reaches the file, the caller gets an error
		v.ioFaultsLeft--
		v.opLog = append(v.opLog, "I/O ERROR on write "+h.name)
		return 0, m.pathError("write", h.name, "ErrInvalid")
	}
	if m.crashPoint(fmt.Sprintf("write %s (%d bytes)", h.name, len(b))) {
		// a prefix of this write reaches the file
		opts := []int{0, len(b)}
		if len(b) > 1 {
			opts = []int{0, 1, len(b) - 1, len(b)}
		}
		if len(b) > 8 {
			opts = []int{0, 1, len(b) / 2, len(b) - 1, len(b)}
		}
		k := opts[m.decide("crash-partial", len(opts), nil)]
		m.vfsAppendAt(h, b[:k])
		m.doCrash()
	}
	m.vfsAppendAt(h, b)
	return len(b), Iface{}
}

func (m *Machine) vfsAppendAt(h *vhandle, b []Value) {
	f := h.f
	if h.app {
		h.pos = len(f.data)
	}
	for len(f.data) < h.pos {
		f.data = append(f.data, int64(0))
	}
	for i, x := range b {
		if h.pos+i < len(f.data) {
			f.data[h.pos+i] = x
			if h.pos+i < f.durable {
				f.durable = h.pos + i // overwritten region is no longer known durable
			}
		} else {
			f.data = append(f.data, x)
		}
	}
	h.pos += len(b)
	if h.sync {
		f.durable = len(f.data)
	}
}

// reboot resolves the unsynced tails: of each an arbitrary prefix survives.
func (m *Machine) vfsReboot() {
	v := m.fs()
	names := make([]string, 0, len(v.files))
	for n := range v.files {
		names = append(names, n)
	}
	sort.Strings(names)
	for _, n := range names {
		f := v.files[n]
		tail := len(f.data) - f.durable
		if tail <= 0 || f.isDir {
			continue
		}
		opts := []int{0, tail}
		if tail > 1 {
			opts = []int{0, 1, tail - 1, tail}
		}
		if tail > 8 {
			opts = []int{0, 1, tail / 2, tail - 1, tail}
		}
		k := opts[m.decide("crash-tail", len(opts), nil)]
		f.data = f.data[:f.durable+k]
		f.durable = len(f.data)
	}
	v.crashed = false
}

func (m *Machine) fileInfo(name string, f *vfile) Value {
	osPkg := m.prog.ImportedPackage("os")
	ft := osPkg.Type("fileStat").Type()
	cell := new(Value)
	st := zero(ft).(Struct)
	base := name
	if i := strings.LastIndex(name, "/"); i >= 0 {
		base = name[i+1:]
	}
	st[0] = base
	st[1] = int64(len(f.data))
	if f.isDir {
		st[2] = int64(1<<31 | 0o755)
	} else {
		st[2] = int64(0o600)
	}
	st[3] = m.timeValue(m.now)
	*cell = st
	return Iface{T: types.NewPointer(ft), V: cell}
}

func (m *Machine) listDir(dir string) []string {
	v := m.fs()
	prefix := cleanPath(dir)
	if !strings.HasSuffix(prefix, "/") {
		prefix += "/"
	}
	var out []string
	for n := range v.files {
		if strings.HasPrefix(n, prefix) && n != prefix {
			rest := n[len(prefix):]
			if !strings.Contains(rest, "/") {
				out = append(out, rest)
			}
		}
	}
	sort.Strings(out)
	return out
}

func init() {
	str := func(m *Machine, v Value) string {
		s, ok := v.(string)
		if !ok {
			panic(pathEnd{kind: "unsupported", msg: "symbolic file name"})
		}
		return s
	}
	reg("os.OpenFile", func(m *Machine, fr *frame, a []Value) Value {
		f, err := m.vfsOpen(str(m, a[0]), m.concInt(fr, a[1], "open flag"))
		return Tuple{f, err}
	})
	reg("os.Open", func(m *Machine, fr *frame, a []Value) Value {
		f, err := m.vfsOpen(str(m, a[0]), oRDONLY)
		return Tuple{f, err}
	})
	reg("os.Create", func(m *Machine, fr *frame, a []Value) Value {
		f, err := m.vfsOpen(str(m, a[0]), oRDWR|oCREATE|oTRUNC)
		return Tuple{f, err}
	})
	reg("(*os.File).Write", func(m *Machine, fr *frame, a []Value) Value {
		n, err := m.vfsWrite(m.handleOf(a[0]), a[1].(Slice))
		return Tuple{int64(n), err}
	})
	reg("(*os.File).WriteString", func(m *Machine, fr *frame, a []Value) Value {
		n, err := m.vfsWrite(m.handleOf(a[0]), strBytes(a[1]))
		return Tuple{int64(n), err}
	})
	reg("(*os.File).Read", func(m *Machine, fr *frame, a []Value) Value {
		h := m.handleOf(a[0])
		if m.fs().crashed {
			m.doCrash()
		}
		if h == nil || h.closed {
			return Tuple{int64(0), m.mkError("read: file already closed")}
		}
		buf := a[1].(Slice)
		if len(buf) == 0 {
			return Tuple{int64(0), Iface{}}
		}
		if h.pos >= len(h.f.data) {
			return Tuple{int64(0), m.ioEOF()}
		}
		n := copy(buf, h.f.data[h.pos:])
		h.pos += n
		return Tuple{int64(n), Iface{}}
	})
	reg("(*os.File).ReadAt", func(m *Machine, fr *frame, a []Value) Value {
		h := m.handleOf(a[0])
		buf := a[1].(Slice)
		off := int(m.concInt(fr, a[2], "ReadAt off"))
		if h == nil || h.closed {
			return Tuple{int64(0), m.mkError("read: file already closed")}
		}
		if off >= len(h.f.data) {
			return Tuple{int64(0), m.ioEOF()}
		}
		n := copy(buf, h.f.data[off:])
		if n < len(buf) {
			return Tuple{int64(n), m.ioEOF()}
		}
		return Tuple{int64(n), Iface{}}
	})
	reg("(*os.File).Seek", func(m *Machine, fr *frame, a []Value) Value {
		h := m.handleOf(a[0])
		off := int(m.concInt(fr, a[1], "Seek off"))
		switch m.concInt(fr, a[2], "Seek whence") {
		case 0:
			h.pos = off
		case 1:
			h.pos += off
		case 2:
			h.pos = len(h.f.data) + off
		}
		return Tuple{int64(h.pos), Iface{}}
	})
	reg("(*os.File).Sync", func(m *Machine, fr *frame, a []Value) Value {
		h := m.handleOf(a[0])
		if h == nil || h.closed {
			return m.mkError("sync: file already closed")
		}
		if m.crashPoint("sync " + h.name) {
			m.doCrash()
		}
		h.f.durable = len(h.f.data)
		m.fs().opLog = append(m.fs().opLog, "sync "+h.name)
		return Iface{}
	})
	reg("(*os.File).Close", func(m *Machine, fr *frame, a []Value) Value {
		h := m.handleOf(a[0])
		if h == nil {
			return m.mkError("invalid argument")
		}
		if h.closed {
			return m.pathError("close", h.name, "ErrClosed")
		}
		h.closed = true
		return Iface{}
	})
	reg("(*os.File).Name", func(m *Machine, fr *frame, a []Value) Value {
		h := m.handleOf(a[0])
		if h == nil {
			return ""
		}
		return h.name
	})
	reg("(*os.File).Fd", func(m *Machine, fr *frame, a []Value) Value { return int64(3) })
	reg("(*os.File).Chmod", func(m *Machine, fr *frame, a []Value) Value { return Iface{} })
	reg("(*os.File).Truncate", func(m *Machine, fr *frame, a []Value) Value {
		h := m.handleOf(a[0])
		n := int(m.concInt(fr, a[1], "Truncate"))
		if m.crashPoint("truncate " + h.name) {
			m.doCrash()
		}
		if n < len(h.f.data) {
			h.f.data = h.f.data[:n]
			if h.f.durable > n {
				h.f.durable = n
			}
		}
		return Iface{}
	})
	reg("(*os.File).Stat", func(m *Machine, fr *frame, a []Value) Value {
		h := m.handleOf(a[0])
		if h == nil {
			return Tuple{Iface{}, m.mkError("invalid argument")}
		}
		return Tuple{m.fileInfo(h.name, h.f), Iface{}}
	})
	stat := func(m *Machine, fr *frame, a []Value) Value {
		name := str(m, a[0])
		if m.fs().crashed {
			m.doCrash()
		}
		f, ok := m.fs().files[cleanPath(name)]
		if !ok {
			return Tuple{Iface{}, m.pathError("stat", name, "ErrNotExist")}
		}
		return Tuple{m.fileInfo(name, f), Iface{}}
	}
	reg("os.Stat", stat)
	reg("os.Lstat", stat)
	reg("os.ReadFile", func(m *Machine, fr *frame, a []Value) Value {
		name := str(m, a[0])
		if m.fs().crashed {
			m.doCrash()
		}
		f, ok := m.fs().files[cleanPath(name)]
		if !ok || f.isDir {
			return Tuple{Slice(nil), m.pathError("open", name, "ErrNotExist")}
		}
		return Tuple{Slice(append([]Value{}, f.data...)), Iface{}}
	})
	reg("os.WriteFile", func(m *Machine, fr *frame, a []Value) Value {
		fv, err := m.vfsOpen(str(m, a[0]), oWRONLY|oCREATE|oTRUNC)
		if e, _ := err.(Iface); e.T != nil {
			return err
		}
		_, werr := m.vfsWrite(m.handleOf(fv), a[1].(Slice))
		return werr
	})
	reg("os.Rename", func(m *Machine, fr *frame, a []Value) Value {
		v := m.fs()
		from, to := cleanPath(str(m, a[0])), cleanPath(str(m, a[1]))
		if m.crashPoint("rename " + from + " -> " + to) {
			m.doCrash()
		}
		f, ok := v.files[from]
		if !ok {
			return m.pathError("rename", from, "ErrNotExist")
		}
		delete(v.files, from)
		v.files[to] = f
		v.opLog = append(v.opLog, "rename "+from+" -> "+to)
		return Iface{}
	})
	reg("os.Remove", func(m *Machine, fr *frame, a []Value) Value {
		v := m.fs()
		if v.crashed {
			return m.pathError("remove", str(m, a[0]), "ErrNotExist") // deferred clean-up after a crash does nothing
		}
		p := cleanPath(str(m, a[0]))
		if _, ok := v.files[p]; !ok {
			return m.pathError("remove", p, "ErrNotExist")
		}
		if m.crashPoint("remove " + p) {
			m.doCrash()
		}
		delete(v.files, p)
		v.opLog = append(v.opLog, "remove "+p)
		return Iface{}
	})
	reg("os.RemoveAll", func(m *Machine, fr *frame, a []Value) Value {
		v := m.fs()
		p := cleanPath(str(m, a[0]))
		for n := range v.files {
			if n == p || strings.HasPrefix(n, p+"/") {
				delete(v.files, n)
			}
		}
		return Iface{}
	})
	mkdir := func(m *Machine, fr *frame, a []Value) Value {
		p := cleanPath(str(m, a[0]))
		if _, ok := m.fs().files[p]; !ok {
			m.fs().files[p] = &vfile{isDir: true}
		}
		return Iface{}
	}
	reg("os.MkdirAll", mkdir)
	reg("os.Mkdir", mkdir)
	reg("os.MkdirTemp", func(m *Machine, fr *frame, a []Value) Value {
		v := m.fs()
		v.tmpSeq++
		p := fmt.Sprintf("/tmp/vp%d", v.tmpSeq)
		v.files[p] = &vfile{isDir: true}
		return Tuple{p, Iface{}}
	})
	reg("io/ioutil.TempDir", intrinsics["os.MkdirTemp"])
	reg("os.TempDir", func(m *Machine, fr *frame, a []Value) Value { return "/tmp" })
	reg("os.Getwd", func(m *Machine, fr *frame, a []Value) Value { return Tuple{"/cwd", Iface{}} })
	reg("os.Chmod", func(m *Machine, fr *frame, a []Value) Value { return Iface{} })
	readdirnames := func(m *Machine, fr *frame, a []Value) Value {
		h := m.handleOf(a[0])
		names := m.listDir(h.name)
		out := Slice{}
		for _, n := range names {
			out = append(out, n)
		}
		return Tuple{out, Iface{}}
	}
	reg("(*os.File).Readdirnames", readdirnames)
	reg("(*os.File).Readdir", func(m *Machine, fr *frame, a []Value) Value {
		h := m.handleOf(a[0])
		out := Slice{}
		for _, n := range m.listDir(h.name) {
			full := cleanPath(h.name) + "/" + n
			out = append(out, m.fileInfo(full, m.fs().files[full]))
		}
		return Tuple{out, Iface{}}
	})

	// vp crash API
	reg(vpPath+"CrashPoints", func(m *Machine, fr *frame, a []Value) Value {
		m.fs().crashLeft = int(m.concInt(fr, a[0], "CrashPoints"))
		return nil
	})
	reg(vpPath+"IOFaults", func(m *Machine, fr *frame, a []Value) Value {
		m.fs().ioFaultsLeft = int(m.concInt(fr, a[0], "IOFaults"))
		return nil
	})
	reg(vpPath+"Crashed", func(m *Machine, fr *frame, a []Value) Value { return m.fs().crashed })
	reg(vpPath+"Reboot", func(m *Machine, fr *frame, a []Value) Value {
		m.vfsReboot()
		return nil
	})
	reg(vpPath+"CrashNow", func(m *Machine, fr *frame, a []Value) Value {
		// explicit crash point in harness-provided environment objects (DB, app, WAL stubs)
		if m.crashPoint(constStr(a[0])) {
			m.doCrash()
		}
		return nil
	})
	reg(vpPath+"TempDir", func(m *Machine, fr *frame, a []Value) Value {
		v := m.fs()
		v.tmpSeq++
		p := fmt.Sprintf("/tmp/vp%d", v.tmpSeq)
		v.files[p] = &vfile{isDir: true}
		return p
	})
}

func (m *Machine) ioEOF() Value {
	ioPkg := m.prog.ImportedPackage("io")
	return *m.globalAddr(ioPkg.Var("EOF"))
}

func init() {
	reg("(*os.File).WriteTo", func(m *Machine, fr *frame, a []Value) Value {
		h := m.handleOf(a[0])
		if h == nil || h.closed {
			return Tuple{int64(0), m.mkError("file already closed")}
		}
		rest := Slice(append([]Value{}, h.f.data[min(h.pos, len(h.f.data)):]...))
		h.pos = len(h.f.data)
		if len(rest) == 0 {
			return Tuple{int64(0), Iface{}}
		}
		r, ok := m.callMethod(fr, a[1].(Iface), "Write", rest)
		if !ok {
			panic(pathEnd{kind: "unsupported", msg: "File.WriteTo: writer without Write"})
		}
		t := r.(Tuple)
		return Tuple{t[0], t[1]}
	})
	reg("(*os.File).ReadFrom", func(m *Machine, fr *frame, a []Value) Value {
		h := m.handleOf(a[0])
		src := a[1].(Iface)
		total := int64(0)
		for i := 0; i < 1<<16; i++ {
			buf := make(Slice, 512)
			for j := range buf {
				buf[j] = int64(0)
			}
			r, ok := m.callMethod(fr, src, "Read", buf)
			if !ok {
				panic(pathEnd{kind: "unsupported", msg: "File.ReadFrom: reader without Read"})
			}
			t := r.(Tuple)
			n := int(m.concInt(fr, t[0], "ReadFrom n"))
			if n > 0 {
				if _, werr := m.vfsWrite(h, buf[:n]); werr.(Iface).T != nil {
					return Tuple{total, werr}
				}
				total += int64(n)
			}
			if e := t[1].(Iface); e.T != nil {
				if m.concBool(fr, m.eqVal(e, m.ioEOF()), "ReadFrom EOF") {
					return Tuple{total, Iface{}}
				}
				return Tuple{total, e}
			}
			if n == 0 {
				return Tuple{total, Iface{}}
			}
		}
		panic(pathEnd{kind: "steps", msg: "File.ReadFrom: reader never ends"})
	})
}
