package main

// symgo — bounded symbolic execution of Go (go/ssa) harnesses against /repo's working tree.
//
//   symgo run -entries types:VP_C07_VerifyCommit,types:VP_C07_Witness -out res.json [-j 8] [-timeout 300s]
//
// Harness files live in -harness (a tree mirroring the repo layout, files named zz_verif_*.go) and are
// injected with go/packages' Overlay together with the vp package; nothing is written into the repo.

import (
	"encoding/json"
	"flag"
	"fmt"
	"os"
	"path/filepath"
	"runtime/debug"
	"runtime/pprof"
	"sort"
	"strings"
	"time"

	"golang.org/x/tools/go/packages"
	"golang.org/x/tools/go/ssa"
	"golang.org/x/tools/go/ssa/ssautil"
)

const modPath = "github.com/tendermint/tendermint"

func buildOverlay(repo, harnessDir, vpFile string) (map[string][]byte, error) {
	ov := map[string][]byte{}
	b, err := os.ReadFile(vpFile)
	if err != nil {
		return nil, err
	}
	ov[filepath.Join(repo, "internal/verifvp/vp.go")] = b
	err = filepath.Walk(harnessDir, func(p string, info os.FileInfo, err error) error {
		if err != nil {
			return err
		}
		if info.IsDir() || !strings.HasSuffix(p, ".go") {
			return nil
		}
		rel, _ := filepath.Rel(harnessDir, p)
		data, err := os.ReadFile(p)
		if err != nil {
			return err
		}
		ov[filepath.Join(repo, rel)] = data
		return nil
	})
	return ov, err
}

type loaded struct {
	prog *ssa.Program
	pkgs map[string]*ssa.Package // by repo-relative dir
}

func load(repo string, overlay map[string][]byte, dirs []string) (*loaded, error) {
	cfg := &packages.Config{
		Mode:       packages.LoadAllSyntax,
		Dir:        repo,
		BuildFlags: []string{"-tags=verif", "-mod=mod"},
		Env:        append(os.Environ(), "GOFLAGS=-mod=mod", "GOPROXY=off", "GOSUMDB=off", "GOTOOLCHAIN=local"),
		Overlay:    overlay,
	}
	var patterns []string
	for _, d := range dirs {
		patterns = append(patterns, modPath+"/"+d)
	}
	pkgs, err := packages.Load(cfg, patterns...)
	if err != nil {
		return nil, err
	}
	nerr := 0
	packages.Visit(pkgs, nil, func(p *packages.Package) {
		for _, e := range p.Errors {
			fmt.Fprintln(os.Stderr, "load error:", e)
			nerr++
		}
	})
	if nerr > 0 {
		return nil, fmt.Errorf("%d package load errors", nerr)
	}
	prog, spkgs := ssautil.AllPackages(pkgs, ssa.InstantiateGenerics)
	prog.Build()
	l := &loaded{prog: prog, pkgs: map[string]*ssa.Package{}}
	for i, p := range pkgs {
		rel := strings.TrimPrefix(p.PkgPath, modPath+"/")
		l.pkgs[rel] = spkgs[i]
	}
	return l, nil
}

func newMachineWith(l *loaded, opts Options, solver *Solver) *Machine {
	m := &Machine{prog: l.prog, opts: opts, solver: solver}
	rt := l.prog.ImportedPackage("runtime")
	if rt == nil {
		panic("runtime package not in program")
	}
	m.runtimeErrorString = rt.Type("errorString").Object().Type()
	return m
}

type runOutput struct {
	Results []*Result `json:"results"`
	LoadS   float64   `json:"load_s"`
	WallS   float64   `json:"wall_s"`
	Repo    string    `json:"repo"`
}

func main() {
	if len(os.Args) < 2 || os.Args[1] != "run" {
		fmt.Fprintln(os.Stderr, "usage: symgo run -entries dir:Func,... [flags]")
		os.Exit(2)
	}
	fs := flag.NewFlagSet("run", flag.ExitOnError)
	repo := fs.String("repo", "/repo", "repository root")
	harness := fs.String("harness", "/verif/harness", "harness tree")
	vpFile := fs.String("vp", "/verif/vp/vp.go", "vp package source")
	entries := fs.String("entries", "", "comma-separated dir:Func")
	out := fs.String("out", "", "result JSON file")
	jobs := fs.Int("j", 16, "number of workers (shared by all harnesses)")
	workers := fs.Int("w", 0, "alias of -j")
	timeout := fs.Duration("timeout", 10*time.Minute, "time budget of the whole run")
	verbose := fs.Bool("v", false, "verbose")
	trace := fs.Bool("trace", false, "trace instructions")
	qtimeout := fs.Int("qtimeout", 10000, "per-query solver timeout (ms)")
	ftimeout := fs.Int("ftimeout", 20000, "per-query fallback solver timeout (ms)")
	maxPaths := fs.Int("maxpaths", 200000, "path cap per harness")
	unwind := fs.Int("unwind", 64, "default unwind cap")
	cross := fs.Int("cross", 0, "cross-check every n-th unsat on the other solvers")
	known := fs.String("known", "", "known findings JSON")
	cpuprof := fs.String("cpuprofile", "", "write cpu profile")
	replayFile := fs.String("replay", "", "replay file: re-run the single entry concretely with the recorded inputs and decisions")
	fs.Parse(os.Args[2:])
	if *cpuprof != "" {
		f, _ := os.Create(*cpuprof)
		pprof.StartCPUProfile(f)
		defer pprof.StopCPUProfile()
	}

	debug.SetGCPercent(600)
	t0 := time.Now()
	ov, err := buildOverlay(*repo, *harness, *vpFile)
	if err != nil {
		fmt.Fprintln(os.Stderr, "overlay:", err)
		os.Exit(2)
	}
	type ent struct{ dir, fn string }
	var ents []ent
	dirset := map[string]bool{}
	for _, e := range strings.Split(*entries, ",") {
		e = strings.TrimSpace(e)
		if e == "" {
			continue
		}
		i := strings.LastIndex(e, ":")
		ents = append(ents, ent{e[:i], e[i+1:]})
		dirset[e[:i]] = true
	}
	var dirs []string
	for d := range dirset {
		dirs = append(dirs, d)
	}
	sort.Strings(dirs)
	l, err := load(*repo, ov, dirs)
	if err != nil {
		fmt.Fprintln(os.Stderr, "load:", err)
		os.Exit(2)
	}
	loadS := time.Since(t0).Seconds()
	var kf []KnownFinding
	if *known != "" {
		if b, err := os.ReadFile(*known); err == nil {
			var f struct {
				Findings []KnownFinding `json:"findings"`
			}
			if err := json.Unmarshal(b, &f); err != nil {
				fmt.Fprintln(os.Stderr, "known findings:", err)
				os.Exit(2)
			}
			kf = f.Findings
		}
	}

	var entriesL []Entry
	for _, e := range ents {
		pkg := l.pkgs[e.dir]
		if pkg == nil {
			fmt.Fprintln(os.Stderr, "no package", e.dir)
			os.Exit(2)
		}
		fn := pkg.Func(e.fn)
		if fn == nil {
			fmt.Fprintf(os.Stderr, "no function %s in %s\n", e.fn, e.dir)
			os.Exit(2)
		}
		var mk []KnownFinding
		for _, k := range kf {
			if k.Harness == e.fn {
				mk = append(mk, k)
			}
		}
		entriesL = append(entriesL, Entry{Name: e.dir + ":" + e.fn, Fn: fn, Known: mk})
	}
	opts := defaultOptions()
	opts.RepoRoot = *repo
	opts.Verbose = *verbose
	opts.Trace = *trace
	opts.TimeoutMs = *qtimeout
	opts.FallbackMs = *ftimeout
	opts.MaxPaths = *maxPaths
	opts.Unwind = *unwind
	opts.Deadline = time.Now().Add(*timeout)
	if *verbose {
		opts.MaxViolations = 1000
	}
	if *replayFile != "" {
		b, err := os.ReadFile(*replayFile)
		if err != nil {
			fmt.Fprintln(os.Stderr, "replay:", err)
			os.Exit(2)
		}
		var rp ReplaySpec
		if err := json.Unmarshal(b, &rp); err != nil {
			fmt.Fprintln(os.Stderr, "replay:", err)
			os.Exit(2)
		}
		opts.Replay = &rp
		opts.MaxPaths = 1
		*jobs, *workers = 1, 1
	}
	nw := *jobs
	if *workers > 0 {
		nw = *workers
	}
	results, err := exploreAll(l, entriesL, opts, nw, *cross)
	if err != nil {
		fmt.Fprintln(os.Stderr, "explore:", err)
		os.Exit(2)
	}
	dumpForkProf()
	if queryOrigins != nil {
		for k, v := range queryOrigins {
			fmt.Fprintf(os.Stderr, "QORIGIN %8d %s\n", v, k)
		}
	}
	ro := runOutput{Results: results, LoadS: loadS, WallS: time.Since(t0).Seconds(), Repo: *repo}
	b, _ := json.MarshalIndent(ro, "", " ")
	if *out != "" {
		os.WriteFile(*out, b, 0o644)
	} else {
		os.Stdout.Write(b)
	}
	for _, r := range results {
		fmt.Fprintf(os.Stderr, "%-50s paths=%d done=%d asserts=%d proved=%d viol=%d undischarged=%v missing_reach=%v solver=%.1fs wall=%.1fs\n",
			r.Harness, r.Paths, r.PathsDone, r.AssertChecks, r.AssertsProved, len(r.Violations), r.Undischarged, r.MissingReach, r.Solver.Seconds, r.WallS)
	}
}
