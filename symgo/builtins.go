package main

// Maps, range iterators and Go built-in functions.

import (
	"fmt"
	"go/constant"
	"go/token"
	"go/types"
	"os"
	"strconv"
	"strings"
	"unicode/utf8"

	"golang.org/x/tools/go/ssa"
)

func constantBool(c *ssa.Const) bool     { return constant.BoolVal(c.Value) }
func constantString(c *ssa.Const) string { return constant.StringVal(c.Value) }

// ---------------------------------------------------------------- maps

func newMap(kt types.Type) *Map {
	return &Map{index: map[string]*mapEntry{}, kt: kt}
}

// canonKey returns a canonical string for a fully concrete key.
func canonKey(v Value) (string, bool) {
	var sb strings.Builder
	if !writeKey(&sb, v) {
		return "", false
	}
	return sb.String(), true
}

func writeKey(sb *strings.Builder, v Value) bool {
	switch v := v.(type) {
	case bool:
		if v {
			sb.WriteString("T")
		} else {
			sb.WriteString("F")
		}
	case int64:
		sb.WriteString("i")
		sb.WriteString(strconv.FormatInt(v, 16))
	case float64:
		sb.WriteString("f")
		sb.WriteString(strconv.FormatFloat(v, 'b', -1, 64))
	case string:
		sb.WriteString("s")
		sb.WriteString(strconv.Itoa(len(v)))
		sb.WriteString(":")
		sb.WriteString(v)
	case *Term, *SymStr:
		return false
	case Struct:
		sb.WriteString("{")
		for _, e := range v {
			if !writeKey(sb, e) {
				return false
			}
			sb.WriteString(",")
		}
		sb.WriteString("}")
	case Array:
		sb.WriteString("[")
		for _, e := range v {
			if !writeKey(sb, e) {
				return false
			}
			sb.WriteString(",")
		}
		sb.WriteString("]")
	case Iface:
		if v.T == nil {
			sb.WriteString("nil")
			return true
		}
		sb.WriteString("I<")
		sb.WriteString(v.T.String())
		sb.WriteString(">")
		return writeKey(sb, v.V)
	case *Value:
		fmt.Fprintf(sb, "p%p", v)
	case *Chan:
		fmt.Fprintf(sb, "c%p", v)
	case *Map:
		fmt.Fprintf(sb, "m%p", v)
	case UnsafePtr:
		fmt.Fprintf(sb, "u%p", v.P)
	case nil:
		sb.WriteString("nilfn")
	default:
		panic(fmt.Sprintf("writeKey: %T", v))
	}
	return true
}

// find returns the entry equal to key (forking on symbolic equalities).
func (m *Machine) mapFind(fr *frame, mp *Map, key Value) *mapEntry {
	if mp == nil {
		return nil
	}
	ck, conc := canonKey(key)
	if conc {
		if mp.nsym > 0 {
			for _, e := range mp.entries {
				if e.deleted || e.conc {
					continue
				}
				if m.concBool(fr, m.eqVal(key, e.k), "map-key-eq") {
					return e
				}
			}
		}
		if e, ok := mp.index[ck]; ok {
			return e
		}
		return nil
	}
	for _, e := range mp.entries {
		if e.deleted {
			continue
		}
		if m.concBool(fr, m.eqVal(key, e.k), "map-key-eq") {
			return e
		}
	}
	return nil
}

func (m *Machine) mapLookup(fr *frame, mp *Map, key Value) (Value, bool) {
	if e := m.mapFind(fr, mp, key); e != nil {
		return e.v, true
	}
	return nil, false
}

func (m *Machine) mapInsert(fr *frame, mp *Map, key, val Value) {
	if e := m.mapFind(fr, mp, key); e != nil {
		e.v = val
		return
	}
	key = copyVal(key)
	e := &mapEntry{k: key, v: val}
	e.ckey, e.conc = canonKey(key)
	if e.conc {
		mp.index[e.ckey] = e
	} else {
		mp.nsym++
	}
	mp.entries = append(mp.entries, e)
	mp.live++
}

func (m *Machine) mapDelete(fr *frame, mp *Map, key Value) {
	e := m.mapFind(fr, mp, key)
	if e == nil {
		return
	}
	e.deleted = true
	mp.live--
	if e.conc {
		delete(mp.index, e.ckey)
	} else {
		mp.nsym--
	}
	if len(mp.entries) > 32 && mp.live < len(mp.entries)/2 {
		n := mp.entries[:0:0]
		for _, x := range mp.entries {
			if !x.deleted {
				n = append(n, x)
			}
		}
		mp.entries = n
	}
}

// ---------------------------------------------------------------- iterators

type iterator interface {
	next(m *Machine, fr *frame) Tuple
}

type stringIter struct {
	s    string
	i    int
}

func (it *stringIter) next(m *Machine, fr *frame) Tuple {
	if it.i >= len(it.s) {
		return Tuple{false, int64(0), int64(0)}
	}
	r, n := utf8.DecodeRuneInString(it.s[it.i:])
	t := Tuple{true, int64(it.i), int64(r)}
	it.i += n
	return t
}

type symStrIter struct {
	b []Value
	i int
}

func (it *symStrIter) next(m *Machine, fr *frame) Tuple {
	if it.i >= len(it.b) {
		return Tuple{false, int64(0), int64(0)}
	}
	// ASCII only: a symbolic byte >= 0x80 would start a multi-byte rune
	c := it.b[it.i]
	if t, ok := c.(*Term); ok {
		if m.branch(fr, m.pool.BvCmp("bvuge", t, m.pool.ConstU(0x80, 8)), "rune>=0x80") {
			panic(pathEnd{kind: "unsupported", msg: "range over symbolic non-ASCII string"})
		}
		c = simp(m.pool.ZeroExt(t, 32), true)
	} else if c.(int64) >= 0x80 {
		panic(pathEnd{kind: "unsupported", msg: "range over partly symbolic non-ASCII string"})
	}
	t := Tuple{true, int64(it.i), c}
	it.i++
	return t
}

type mapIter struct {
	mp      *Map
	pending []*mapEntry
	started bool
}

func (it *mapIter) next(m *Machine, fr *frame) Tuple {
	for {
		// drop deleted
		k := 0
		for _, e := range it.pending {
			if !e.deleted {
				it.pending[k] = e
				k++
			}
		}
		it.pending = it.pending[:k]
		if len(it.pending) == 0 {
			return Tuple{false, nil, nil}
		}
		i := 0
		if m.opts.MapOrder && len(it.pending) > 1 && len(it.pending) <= m.opts.MapOrderMax {
			i = m.decide("maporder", len(it.pending), nil)
		}
		e := it.pending[i]
		it.pending = append(it.pending[:i], it.pending[i+1:]...)
		return Tuple{true, copyVal(e.k), copyVal(e.v)}
	}
}

func (m *Machine) rangeIter(fr *frame, x Value, t types.Type) iterator {
	switch x := x.(type) {
	case *Map:
		it := &mapIter{mp: x}
		if x != nil {
			for _, e := range x.entries {
				if !e.deleted {
					it.pending = append(it.pending, e)
				}
			}
		}
		return it
	case string:
		return &stringIter{s: x}
	case *SymStr:
		return &symStrIter{b: strBytes(x)}
	}
	panic(fmt.Sprintf("cannot range over %T", x))
}

// ---------------------------------------------------------------- builtins

func (m *Machine) callBuiltin(caller *frame, pos token.Pos, fn *ssa.Builtin, args []Value) Value {
	switch fn.Name() {
	case "append":
		if len(args) == 1 {
			return args[0]
		}
		dst := args[0].(Slice)
		switch src := args[1].(type) {
		case Slice:
			if len(src) == 0 {
				return dst
			}
			n := make([]Value, len(src))
			for i, e := range src {
				n[i] = copyVal(e)
			}
			return Slice(append(dst, n...))
		case string, *SymStr:
			return Slice(append(dst, strBytes(src)...))
		}
		panic(fmt.Sprintf("append: %T", args[1]))

	case "copy":
		dst := args[0].(Slice)
		var src []Value
		switch s := args[1].(type) {
		case Slice:
			src = s
		case string, *SymStr:
			src = strBytes(s)
		}
		n := len(src)
		if len(dst) < n {
			n = len(dst)
		}
		// overlapping copy semantics: go's copy handles overlap (memmove)
		tmp := make([]Value, n)
		for i := 0; i < n; i++ {
			tmp[i] = copyVal(src[i])
		}
		copy(dst, tmp)
		return int64(n)

	case "close":
		m.chanClose(caller, args[0].(*Chan))
		return nil

	case "delete":
		mp := args[0].(*Map)
		if mp != nil {
			m.mapDelete(caller, mp, args[1])
		}
		return nil

	case "clear":
		switch x := args[0].(type) {
		case *Map:
			if x != nil {
				for _, e := range x.entries {
					e.deleted = true
				}
				x.entries = nil
				x.index = map[string]*mapEntry{}
				x.nsym, x.live = 0, 0
			}
		case Slice:
			// element type unknown here; zero by kind of existing value
			for i := range x {
				x[i] = zeroLike(x[i])
			}
		}
		return nil

	case "print", "println":
		if m.opts.Verbose {
			var parts []string
			for _, a := range args {
				parts = append(parts, valString(a))
			}
			fmt.Fprintln(os.Stderr, "[target print]", strings.Join(parts, " "))
		}
		return nil

	case "len":
		switch x := args[0].(type) {
		case string:
			return int64(len(x))
		case *SymStr:
			if x.Opaque {
				return int64(8)
			}
			return int64(len(x.B))
		case Array:
			return int64(len(x))
		case *Value:
			if x == nil {
				// len(*[N]T)(nil) is N, statically known; conservative
				panic(pathEnd{kind: "unsupported", msg: "len of nil array pointer"})
			}
			return int64(len((*x).(Array)))
		case Slice:
			return int64(len(x))
		case *Map:
			if x == nil {
				return int64(0)
			}
			return int64(x.live)
		case *Chan:
			if x == nil {
				return int64(0)
			}
			return int64(len(x.buf))
		}
		panic(fmt.Sprintf("len: %T", args[0]))

	case "cap":
		switch x := args[0].(type) {
		case Array:
			return int64(len(x))
		case *Value:
			return int64(len((*x).(Array)))
		case Slice:
			return int64(cap(x))
		case *Chan:
			if x == nil {
				return int64(0)
			}
			return int64(x.cap)
		}
		panic(fmt.Sprintf("cap: %T", args[0]))

	case "min", "max":
		isMin := fn.Name() == "min"
		t := fn.Type().(*types.Signature).Params().At(0).Type()
		var op token.Token = token.LSS
		if !isMin {
			op = token.GTR
		}
		best := args[0]
		for _, a := range args[1:] {
			c := m.binop(caller, op, t, t, a, best)
			if m.concBool(caller, c, "minmax") {
				best = a
			}
		}
		return best

	case "real":
		return real(args[0].(complex128))
	case "imag":
		return imag(args[0].(complex128))
	case "complex":
		return complex(args[0].(float64), args[1].(float64))

	case "panic":
		panic(targetPanic{v: args[0]})

	case "recover":
		return m.doRecover(caller)

	case "ssa:wrapnilchk":
		recv := args[0]
		if p, ok := recv.(*Value); ok && p == nil {
			panic(rtPanicMsg(fmt.Sprintf("value method %s.%s called using nil pointer", valString(args[1]), valString(args[2]))))
		}
		return recv

	case "ssa:deferstack":
		return &caller.defers

	case "String": // unsafe.String(ptr, len)
		p := args[0].(*Value)
		n := m.concInt(caller, args[1], "unsafe.String len")
		if n == 0 {
			return ""
		}
		elems := m.elemsFromPtr(p, int(n))
		return mkStr(elems)
	case "StringData":
		s := strBytes(args[0])
		if len(s) == 0 {
			return (*Value)(nil)
		}
		cp := make(Slice, len(s))
		copy(cp, s)
		m.ptrBase[&cp[0]] = cp
		return &cp[0]
	case "Slice": // unsafe.Slice(ptr, len)
		p := args[0].(*Value)
		n := m.concInt(caller, args[1], "unsafe.Slice len")
		if p == nil {
			return Slice(nil)
		}
		return Slice(m.elemsFromPtr(p, int(n)))
	case "SliceData":
		s := args[0].(Slice)
		if cap(s) == 0 {
			return (*Value)(nil)
		}
		full := s[:cap(s)]
		m.ptrBase[&full[0]] = full
		return &full[0]
	}
	panic(pathEnd{kind: "unsupported", msg: "builtin " + fn.Name()})
}

// elemsFromPtr recovers the element run starting at p for unsafe.String/Slice; only pointers
// produced by SliceData/StringData/IndexAddr of index 0 recorded in ptrBase are supported.
func (m *Machine) elemsFromPtr(p *Value, n int) []Value {
	if base, ok := m.ptrBase[p]; ok && len(base) >= n {
		return base[:n:n]
	}
	if n == 1 {
		return []Value{*p}
	}
	panic(pathEnd{kind: "unsupported", msg: "unsafe.String/Slice from untracked pointer"})
}

func zeroLike(v Value) Value {
	switch v := v.(type) {
	case bool, *Term:
		if t, ok := v.(*Term); ok && t.W > 0 {
			return int64(0)
		}
		return false
	case int64:
		return int64(0)
	case float64:
		return float64(0)
	case string, *SymStr:
		return ""
	case *Value:
		return (*Value)(nil)
	case Slice:
		return Slice(nil)
	case *Map:
		return (*Map)(nil)
	case *Chan:
		return (*Chan)(nil)
	case Iface:
		return Iface{}
	case Struct:
		r := make(Struct, len(v))
		for i := range v {
			r[i] = zeroLike(v[i])
		}
		return r
	case Array:
		r := make(Array, len(v))
		for i := range v {
			r[i] = zeroLike(v[i])
		}
		return r
	}
	return nil
}
