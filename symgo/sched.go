package main

// Goroutines as coroutines (one real goroutine each, exactly one running), channels, select,
// virtual time.  Context switches happen only when the running goroutine blocks or exits (and at
// sync points when preemption decisions are enabled).

import (
	"fmt"
	"go/token"
	"go/types"
	"sort"

	"golang.org/x/tools/go/ssa"
)

type Goroutine struct {
	id     int
	wake   chan struct{}
	pred   func() bool // nil = runnable
	done   bool
	what   string // description of what it is blocked on
	fnName string
}

type waiter struct {
	g       *Goroutine
	sel     *selState
	caseIdx int
	val     Value
	ok      bool
	done    bool
}

type selState struct {
	done   bool
	chosen int
	val    Value
	ok     bool
}

func (w *waiter) live() bool { return !w.done && (w.sel == nil || !w.sel.done) }

func (w *waiter) complete(v Value, ok bool) {
	w.done = true
	w.val, w.ok = v, ok
	if w.sel != nil {
		w.sel.done = true
		w.sel.chosen = w.caseIdx
		w.sel.val, w.sel.ok = v, ok
	}
}

type Chan struct {
	buf    []Value
	cap    int
	closed bool
	recvq  []*waiter
	sendq  []*waiter
	elem   types.Type
	id     int
	timer  *vtimer // channel fed by a virtual timer
}

type vtimer struct {
	when   int64
	period int64
	ch     *Chan
	fn     Value // AfterFunc
	active bool
	seq    int
}

func (m *Machine) newChan(n int, elem types.Type) *Chan {
	m.chanSeq++
	return &Chan{cap: n, elem: elem, id: m.chanSeq}
}

func popLive(q *[]*waiter) *waiter {
	for len(*q) > 0 {
		w := (*q)[0]
		*q = (*q)[1:]
		if w.live() {
			return w
		}
	}
	return nil
}

func hasLive(q []*waiter) bool {
	for _, w := range q {
		if w.live() {
			return true
		}
	}
	return false
}

func (m *Machine) trySend(ch *Chan, v Value) bool {
	if ch.closed {
		panic(rtPanicMsg("send on closed channel"))
	}
	if w := popLive(&ch.recvq); w != nil {
		w.complete(v, true)
		return true
	}
	if len(ch.buf) < ch.cap {
		ch.buf = append(ch.buf, v)
		return true
	}
	return false
}

func (m *Machine) tryRecv(ch *Chan) (Value, bool, bool) {
	if len(ch.buf) > 0 {
		v := ch.buf[0]
		ch.buf = ch.buf[1:]
		if w := popLive(&ch.sendq); w != nil {
			ch.buf = append(ch.buf, w.val)
			w.complete(nil, true)
		}
		return v, true, true
	}
	if w := popLive(&ch.sendq); w != nil {
		v := w.val
		w.complete(nil, true)
		return v, true, true
	}
	if ch.closed {
		return zero(ch.elem), false, true
	}
	return nil, false, false
}

func (m *Machine) sendReady(ch *Chan) bool {
	return ch.closed || hasLive(ch.recvq) || len(ch.buf) < ch.cap
}

func (m *Machine) recvReady(ch *Chan) bool {
	return len(ch.buf) > 0 || hasLive(ch.sendq) || ch.closed
}

func (m *Machine) chanSend(fr *frame, ch *Chan, v Value) {
	m.syncPoint(fr)
	v = copyVal(v)
	if ch == nil {
		m.block(fr, func() bool { return false }, "send on nil channel")
	}
	if m.trySend(ch, v) {
		return
	}
	w := &waiter{g: m.curG, val: v}
	ch.sendq = append(ch.sendq, w)
	m.block(fr, func() bool { return w.done || ch.closed }, fmt.Sprintf("chan send #%d", ch.id))
	if !w.done {
		panic(rtPanicMsg("send on closed channel"))
	}
}

func (m *Machine) chanRecv(fr *frame, ch *Chan, commaOk bool, _ types.Type) Value {
	m.syncPoint(fr)
	if ch == nil {
		m.block(fr, func() bool { return false }, "receive from nil channel")
	}
	v, ok, ready := m.tryRecv(ch)
	if !ready {
		w := &waiter{g: m.curG}
		ch.recvq = append(ch.recvq, w)
		m.block(fr, func() bool { return w.done }, fmt.Sprintf("chan recv #%d", ch.id))
		v, ok = w.val, w.ok
	}
	if commaOk {
		return Tuple{v, ok}
	}
	return v
}

func (m *Machine) chanClose(fr *frame, ch *Chan) {
	if ch == nil {
		panic(rtPanicMsg("close of nil channel"))
	}
	if ch.closed {
		panic(rtPanicMsg("close of closed channel"))
	}
	ch.closed = true
	for {
		w := popLive(&ch.recvq)
		if w == nil {
			break
		}
		w.complete(zero(ch.elem), false)
	}
	// blocked senders wake via their predicate (ch.closed) and panic
}

func (m *Machine) selectOp(fr *frame, instr *ssa.Select) Value {
	m.syncPoint(fr)
	type cs struct {
		ch   *Chan
		send bool
		val  Value
	}
	cases := make([]cs, len(instr.States))
	for i, st := range instr.States {
		c := cs{send: st.Dir == types.SendOnly}
		c.ch, _ = fr.get(st.Chan).(*Chan)
		if c.send {
			c.val = copyVal(fr.get(st.Send))
		}
		cases[i] = c
	}
	result := func(chosen int, recvVal Value, recvOk bool) Value {
		r := Tuple{int64(chosen), recvOk}
		for i, st := range instr.States {
			if st.Dir == types.RecvOnly {
				if i == chosen && recvOk {
					r = append(r, recvVal)
				} else {
					r = append(r, zero(st.Chan.Type().Underlying().(*types.Chan).Elem()))
				}
			}
		}
		return r
	}
	var ready []int
	for i, c := range cases {
		if c.ch == nil {
			continue
		}
		if c.send && m.sendReady(c.ch) || !c.send && m.recvReady(c.ch) {
			ready = append(ready, i)
		}
	}
	if len(ready) > 0 {
		k := 0
		if len(ready) > 1 && m.opts.SelectNondet {
			k = m.decide("select", len(ready), nil)
		}
		i := ready[k]
		c := cases[i]
		if c.send {
			if !m.trySend(c.ch, c.val) {
				panic("select: ready send failed")
			}
			return result(i, nil, false)
		}
		v, ok, _ := m.tryRecv(c.ch)
		return result(i, v, ok)
	}
	if !instr.Blocking {
		return result(-1, nil, false)
	}
	sel := &selState{}
	var closedSend *Chan
	for i, c := range cases {
		if c.ch == nil {
			continue
		}
		w := &waiter{g: m.curG, sel: sel, caseIdx: i, val: c.val}
		if c.send {
			c.ch.sendq = append(c.ch.sendq, w)
		} else {
			c.ch.recvq = append(c.ch.recvq, w)
		}
	}
	m.block(fr, func() bool {
		if sel.done {
			return true
		}
		for _, c := range cases {
			if c.ch != nil && c.send && c.ch.closed {
				closedSend = c.ch
				return true
			}
		}
		return false
	}, "select")
	if !sel.done {
		sel.done = true
		_ = closedSend
		panic(rtPanicMsg("send on closed channel"))
	}
	if cases[sel.chosen].send {
		return result(sel.chosen, nil, false)
	}
	return result(sel.chosen, sel.val, sel.ok)
}

// ---------------------------------------------------------------- goroutines

func (m *Machine) spawn(fr *frame, pos token.Pos, fn Value, args []Value) {
	live := 0
	for _, g := range m.gs {
		if !g.done {
			live++
		}
	}
	if live >= m.opts.MaxGoroutines {
		panic(pathEnd{kind: "unsupported", msg: fmt.Sprintf("more than %d goroutines (go at %s)", m.opts.MaxGoroutines, m.pos(pos))})
	}
	g := &Goroutine{id: len(m.gs), wake: make(chan struct{}, 1)}
	switch f := fn.(type) {
	case *ssa.Function:
		g.fnName = f.String()
	case *Closure:
		g.fnName = f.Fn.String()
	}
	m.gs = append(m.gs, g)
	m.wg.Add(1)
	go func() {
		defer m.wg.Done()
		<-g.wake
		if m.aborting {
			g.done = true
			return
		}
		end := m.runGoroutine(g, pos, fn, args)
		g.done = true
		if m.aborting {
			return
		}
		if end == nil {
			end = m.exitSwitch()
		}
		if end != nil {
			m.pendingEnd = end
			m.aborting = true
			m.gs[0].wake <- struct{}{}
		}
	}()
	m.syncPoint(fr)
}

// runGoroutine runs fn on goroutine g and reports how the path must end, if it must.
func (m *Machine) runGoroutine(g *Goroutine, pos token.Pos, fn Value, args []Value) (end *pathEnd) {
	defer func() {
		r := recover()
		switch r := r.(type) {
		case nil:
		case pathEnd:
			end = &r
		case targetPanic:
			end = &pathEnd{kind: "panic", msg: fmt.Sprintf("uncaught panic in goroutine %s: %s", g.fnName, m.panicText(r))}
		default:
			end = &pathEnd{kind: "engine", msg: fmt.Sprintf("%v (goroutine %s)", r, g.fnName)}
		}
	}()
	root := &frame{m: m, g: g, depth: 0}
	m.call(root, pos, fn, args)
	return nil
}

// exitSwitch hands control to another goroutine when the current one has finished.
func (m *Machine) exitSwitch() (end *pathEnd) {
	defer func() {
		if r := recover(); r != nil {
			if pe, ok := r.(pathEnd); ok {
				end = &pe
			} else {
				end = &pathEnd{kind: "engine", msg: fmt.Sprint(r)}
			}
		}
	}()
	m.switchAway(nil)
	return nil
}

// runnable returns the goroutines that can make progress now.
func (m *Machine) runnable() []*Goroutine {
	var r []*Goroutine
	for _, g := range m.gs {
		if g.done {
			continue
		}
		if g.pred == nil || g.pred() {
			r = append(r, g)
		}
	}
	return r
}

// pickNext chooses the goroutine to run when the current one cannot continue.
func (m *Machine) pickNext() *Goroutine {
	for {
		r := m.runnable()
		if len(r) > 0 {
			k := 0
			if len(r) > 1 && m.opts.SchedNondet {
				k = m.decide("sched", len(r), nil)
			}
			return r[k]
		}
		if !m.fireTimer() {
			return nil
		}
	}
}

// switchAway transfers control from the current goroutine (self; nil if it is exiting).
func (m *Machine) switchAway(self *Goroutine) {
	next := m.pickNext()
	if next == nil {
		// deadlock: everything is blocked and no timer is pending
		var desc []string
		for _, g := range m.gs {
			if !g.done {
				desc = append(desc, fmt.Sprintf("g%d(%s): %s", g.id, g.fnName, g.what))
			}
		}
		pe := pathEnd{kind: "deadlock", msg: fmt.Sprint(desc)}
		if self != nil && self.id == 0 {
			panic(pe)
		}
		m.pendingEnd = &pe
		m.aborting = true
		next = m.gs[0]
	}
	if next == self {
		self.pred = nil
		return
	}
	m.switches++
	if m.switches > m.opts.MaxSwitches {
		pe := pathEnd{kind: "steps", msg: "context-switch budget exhausted"}
		if self != nil && self.id == 0 {
			panic(pe)
		}
		m.pendingEnd = &pe
		m.aborting = true
		next = m.gs[0]
	}
	m.curG = next
	next.pred = nil
	next.wake <- struct{}{}
	if self == nil {
		return
	}
	<-self.wake
	if m.aborting {
		if self.id == 0 && m.pendingEnd != nil {
			pe := *m.pendingEnd
			panic(pe)
		}
		panic(pathEnd{kind: "abort"})
	}
}

func (m *Machine) block(fr *frame, pred func() bool, what string) {
	g := m.curG
	if pred() {
		return
	}
	g.pred = pred
	g.what = what
	m.switchAway(g)
	g.pred = nil
}

// syncPoint is a possible preemption point (only when preemption decisions are enabled).
func (m *Machine) syncPoint(fr *frame) {
	if m.opts.Preempt <= 0 || m.preempts >= m.opts.Preempt || len(m.gs) < 2 {
		return
	}
	r := m.runnable()
	if len(r) < 2 {
		return
	}
	// decision: 0 = continue, i>0 = switch to the (i-1)-th other runnable goroutine
	var others []*Goroutine
	for _, g := range r {
		if g != m.curG {
			others = append(others, g)
		}
	}
	k := m.decide("preempt", len(others)+1, nil)
	if k == 0 {
		return
	}
	m.preempts++
	self := m.curG
	next := others[k-1]
	m.switches++
	m.curG = next
	next.pred = nil
	self.pred = nil
	next.wake <- struct{}{}
	<-self.wake
	if m.aborting {
		if self.id == 0 && m.pendingEnd != nil {
			pe := *m.pendingEnd
			panic(pe)
		}
		panic(pathEnd{kind: "abort"})
	}
}

// killGoroutines terminates all parked goroutines at the end of a path.
func (m *Machine) killGoroutines() {
	m.aborting = true
	for _, g := range m.gs[1:] {
		if !g.done {
			select {
			case g.wake <- struct{}{}:
			default:
			}
		}
	}
	m.wg.Wait()
}

func (m *Machine) blockedGoroutines() int {
	n := 0
	for _, g := range m.gs[1:] {
		if !g.done && g.pred != nil && !g.pred() {
			n++
		}
	}
	return n
}

// ---------------------------------------------------------------- virtual time

func (m *Machine) addTimer(d int64, period int64, ch *Chan, fn Value) *vtimer {
	m.timerSeq++
	t := &vtimer{when: m.now + d, period: period, ch: ch, fn: fn, active: true, seq: m.timerSeq}
	m.timers = append(m.timers, t)
	return t
}

// fireTimer advances virtual time to the earliest active timer and fires it.
func (m *Machine) fireTimer() bool {
	if m.opts.NoTimers {
		return false
	}
	var act []*vtimer
	for _, t := range m.timers {
		if t.active {
			act = append(act, t)
		}
	}
	m.timers = act
	if len(act) == 0 {
		return false
	}
	sort.SliceStable(act, func(i, j int) bool {
		if act[i].when != act[j].when {
			return act[i].when < act[j].when
		}
		return act[i].seq < act[j].seq
	})
	t := act[0]
	if t.when > m.now {
		m.now = t.when
	}
	m.timerFires++
	if m.timerFires > m.opts.MaxTimerFires {
		return false
	}
	if t.period > 0 {
		t.when = m.now + t.period
	} else {
		t.active = false
	}
	if t.ch != nil {
		if len(t.ch.buf) < t.ch.cap || hasLive(t.ch.recvq) {
			m.trySend(t.ch, m.timeValue(m.now))
		}
	}
	if t.fn != nil {
		fn := t.fn
		m.spawnDetached(fn)
	}
	return true
}

// spawnDetached starts a goroutine running fn() without a creating frame (timer callbacks).
func (m *Machine) spawnDetached(fn Value) {
	save := m.opts.Preempt
	m.opts.Preempt = 0
	m.spawn(&frame{m: m, g: m.curG}, token.NoPos, fn, nil)
	m.opts.Preempt = save
}

// settle runs the other goroutines until each of them is finished or blocked.
func (m *Machine) settle(fr *frame) {
	self := m.curG
	for i := 0; i < m.opts.MaxSwitches; i++ {
		var other *Goroutine
		for _, g := range m.gs {
			if g != self && !g.done && (g.pred == nil || g.pred()) {
				other = g
				break
			}
		}
		if other == nil {
			return
		}
		// park self as runnable-later and hand over
		self.pred = func() bool { return true }
		self.what = "settle"
		m.switches++
		m.curG = other
		other.pred = nil
		other.wake <- struct{}{}
		<-self.wake
		if m.aborting {
			if self.id == 0 && m.pendingEnd != nil {
				pe := *m.pendingEnd
				panic(pe)
			}
			panic(pathEnd{kind: "abort"})
		}
		self.pred = nil
	}
}
