package main

import (
	"regexp"
	xcurve "golang.org/x/crypto/curve25519"
	"net"
	"math/bits"
	"crypto/ecdh"
	"crypto/ed25519"
	"crypto/sha256"
	"crypto/sha512"
	"fmt"
	"go/token"
	"go/types"
	"reflect"
	"hash/crc32"
	"math"
	"strings"

	"golang.org/x/tools/go/ssa"
)

func mathFloat64bits(f float64) uint64     { return math.Float64bits(f) }
func mathFloat64frombits(u uint64) float64 { return math.Float64frombits(u) }
func mathFloat32bits(f float32) uint32     { return math.Float32bits(f) }
func mathFloat32frombits(u uint32) float32 { return math.Float32frombits(u) }

// ---------------------------------------------------------------- ideal hash

func sameElems(a, b []Value) bool {
	if len(a) != len(b) {
		return false
	}
	for i := range a {
		switch x := a[i].(type) {
		case int64:
			y, ok := b[i].(int64)
			if !ok || x != y {
				return false
			}
		case *Term:
			y, ok := b[i].(*Term)
			if !ok || x != y {
				return false
			}
		default:
			return false
		}
	}
	return true
}

func (m *Machine) bytesTerm(b []Value) *Term {
	if len(b) == 0 {
		return nil
	}
	t := m.toTerm(b[0], 8)
	for _, e := range b[1:] {
		t = m.pool.Concat(t, m.toTerm(e, 8))
	}
	return t
}

func realHash(kind string, in []byte) []byte {
	if strings.HasPrefix(kind, "crc32:") {
		var poly uint32
		fmt.Sscanf(kind[6:], "%x", &poly)
		c := crc32.Checksum(in, crc32.MakeTable(poly))
		return []byte{byte(c >> 24), byte(c >> 16), byte(c >> 8), byte(c)}
	}
	switch kind {
	case "sha256":
		h := sha256.Sum256(in)
		return h[:]
	case "sha512":
		h := sha512.Sum512(in)
		return h[:]
	}
	return nil
}

// hash applies the ideal (collision-free, uninterpreted) hash `kind` to in.
func (m *Machine) hash(kind string, in []Value, outLen int) []Value {
	for _, a := range m.hashApps {
		if a.kind == kind && sameElems(a.in, in) {
			return append([]Value{}, a.out...)
		}
	}
	p := m.pool
	app := &hashApp{kind: kind, in: append([]Value{}, in...)}
	conc, isConc := concBytes(Slice(in))
	if isConc {
		if out := realHash(kind, conc); out != nil {
			app.out = []Value(bytesOf(out))
			app.conc = true
		}
	}
	if app.out == nil {
		m.hashSeq++
		outT := p.Var(fmt.Sprintf("h!%d", m.hashSeq), 8*outLen)
		app.out = make([]Value, outLen)
		for i := 0; i < outLen; i++ {
			hi := 8*(outLen-i) - 1
			app.out[i] = p.Extract(hi, hi-7, outT)
		}
		app.outT = outT
	}
	functionalOnly := strings.HasPrefix(kind, "crc32")
	for _, o := range m.hashApps {
		if o.kind != kind || (o.conc && app.conc) {
			continue
		}
		if o.outT == nil {
			o.outT = m.bytesTerm(o.out)
		}
		if app.outT == nil {
			app.outT = m.bytesTerm(app.out)
		}
		if o.inT == nil && len(o.in) > 0 {
			o.inT = m.bytesTerm(o.in)
		}
		if app.inT == nil && len(in) > 0 {
			app.inT = m.bytesTerm(in)
		}
		outEq := p.Eq(o.outT, app.outT)
		if len(o.in) != len(in) {
			if !functionalOnly {
				m.assertPC(p.Not(outEq))
			}
			continue
		}
		if len(in) == 0 {
			m.assertPC(outEq)
			continue
		}
		inEq := p.Eq(o.inT, app.inT)
		if functionalOnly {
			m.assertPC(p.Implies(inEq, outEq))
			// CRC-32 detects every error burst of at most 32 bits: inputs that differ only inside a
			// window of 4 consecutive bytes have different checksums.
			lo, hi, nd := -1, -1, 0
			for i := range in {
				if !sameElems(o.in[i:i+1], in[i:i+1]) {
					if lo < 0 {
						lo = i
					}
					hi = i
					nd++
				}
			}
			if nd > 0 && hi-lo < 4 {
				m.assertPC(p.Implies(p.Not(inEq), p.Not(outEq)))
			}
		} else {
			m.assertPC(p.Eq(inEq, outEq))
		}
	}
	m.hashApps = append(m.hashApps, app)
	return append([]Value{}, app.out...)
}

type digestState struct {
	kind string
	size int
	buf  []Value
}

func (m *Machine) newDigest(kind string, size, block int) Value {
	pkg := m.prog.ImportedPackage("crypto/" + kind)
	if pkg == nil {
		panic(pathEnd{kind: "unsupported", msg: "package crypto/" + kind + " not loaded"})
	}
	dt := pkg.Type("digest").Type()
	cell := new(Value)
	*cell = zero(dt)
	m.side[cell] = &digestState{kind: kind, size: size}
	return Iface{T: types.NewPointer(dt), V: cell}
}

func (m *Machine) digestOf(v Value) *digestState {
	d, ok := m.side[v.(*Value)].(*digestState)
	if !ok {
		panic(pathEnd{kind: "unsupported", msg: "hash digest not created through New()"})
	}
	return d
}

func digestWrite(m *Machine, fr *frame, a []Value) Value {
	d := m.digestOf(a[0])
	b := a[1].(Slice)
	d.buf = append(d.buf, b...)
	return Tuple{int64(len(b)), Iface{}}
}

func digestSum(m *Machine, fr *frame, a []Value) Value {
	d := m.digestOf(a[0])
	out := m.hash(d.kind, d.buf, d.size)
	return Slice(append(append([]Value{}, a[1].(Slice)...), out...))
}

func digestReset(m *Machine, fr *frame, a []Value) Value {
	m.digestOf(a[0]).buf = nil
	return nil
}

func (m *Machine) crcTable(v Value) *crc32.Table {
	if p, ok := v.(*Value); ok && p != nil {
		if poly, ok := m.side[p].(uint32); ok {
			return crc32.MakeTable(poly)
		}
		if arr, ok := (*p).(Array); ok && len(arr) == 256 {
			var t crc32.Table
			for i := range t {
				t[i] = uint32(arr[i].(int64))
			}
			return &t
		}
	}
	panic(pathEnd{kind: "unsupported", msg: "crc32 table of unknown origin"})
}

// crcPolyName identifies the table by its (reversed) polynomial: table[128] is the polynomial itself.
func (m *Machine) crcPolyName(v Value) string {
	t := m.crcTable(v)
	return fmt.Sprintf("%08x", t[128])
}

// ---------------------------------------------------------------- ideal signatures

func (m *Machine) edSign(fr *frame, priv, msg Slice) Value {
	pb, ok1 := concBytes(priv)
	mb, ok2 := concBytes(msg)
	if ok1 && ok2 && len(pb) == ed25519.PrivateKeySize {
		return bytesOf(ed25519.Sign(ed25519.PrivateKey(pb), mb))
	}
	if len(priv) != ed25519.PrivateKeySize {
		panic(targetPanic{rt: "ed25519: bad private key length"})
	}
	pk := priv[32:]
	for _, r := range m.sigs {
		if v, ok := r.valid.(bool); ok && v && sameElems(r.pk, pk) && sameElems(r.msg, msg) {
			return Slice(append([]Value{}, r.sig...))
		}
	}
	m.sigSeq++
	sig := make(Slice, 64)
	tag := fmt.Sprintf("IDEALSIG#%d", m.sigSeq)
	for i := range sig {
		if i < len(tag) {
			sig[i] = int64(tag[i])
		} else {
			sig[i] = int64(0)
		}
	}
	m.sigs = append(m.sigs, &sigRecord{pk: append([]Value{}, pk...), msg: append([]Value{}, msg...), sig: append([]Value{}, sig...), valid: true})
	return sig
}

func (m *Machine) edVerify(fr *frame, pk, msg, sig Slice) Value {
	if len(pk) != ed25519.PublicKeySize {
		panic(targetPanic{rt: "ed25519: bad public key length"})
	}
	var res Value = false
	for _, r := range m.sigs {
		if len(r.msg) != len(msg) || len(r.sig) != len(sig) {
			continue
		}
		c := m.and(m.and(m.eqBytes(r.pk, pk), m.eqBytes(r.sig, sig)), m.and(m.eqBytes(r.msg, msg), r.valid))
		res = m.or(res, c)
	}
	pb, ok1 := concBytes(pk)
	mb, ok2 := concBytes(msg)
	sb, ok3 := concBytes(sig)
	if ok1 && ok2 && ok3 {
		if len(sb) == ed25519.SignatureSize && ed25519.Verify(ed25519.PublicKey(pb), mb, sb) {
			return true
		}
	}
	return res
}

// ---------------------------------------------------------------- errors

func (m *Machine) callMethod(fr *frame, recv Iface, name string, args ...Value) (Value, bool) {
	if recv.T == nil {
		return nil, false
	}
	fn := m.lookupMethodByName(recv.T, name)
	if fn == nil {
		return nil, false
	}
	return m.call(fr, token.NoPos, fn, append([]Value{recv.V}, args...)), true
}

func (m *Machine) errUnwrap(fr *frame, err Iface) Value {
	if err.T == nil {
		return Iface{}
	}
	fn := m.lookupMethodByName(err.T, "Unwrap")
	if fn == nil || fn.Signature.Results().Len() != 1 {
		return Iface{}
	}
	if _, isSlice := fn.Signature.Results().At(0).Type().Underlying().(*types.Slice); isSlice {
		return Iface{}
	}
	return m.call(fr, token.NoPos, fn, []Value{err.V})
}

func (m *Machine) errorsIs(fr *frame, err, target Iface, depth int) Value {
	if err.T == nil || target.T == nil {
		return err.T == nil && target.T == nil
	}
	if depth > 32 {
		return false
	}
	comparable := types.Comparable(target.T)
	for err.T != nil {
		if comparable && types.Identical(err.T, target.T) {
			if m.concBool(fr, m.eqVal(err.V, target.V), "errors.Is") {
				return true
			}
		}
		if fn := m.lookupMethodByName(err.T, "Is"); fn != nil && fn.Signature.Params().Len() == 1 {
			r := m.call(fr, token.NoPos, fn, []Value{err.V, target})
			if m.concBool(fr, r, "errors.Is method") {
				return true
			}
		}
		fn := m.lookupMethodByName(err.T, "Unwrap")
		if fn == nil {
			return false
		}
		r := m.call(fr, token.NoPos, fn, []Value{err.V})
		switch r := r.(type) {
		case Iface:
			err = r
		case Slice:
			for _, e := range r {
				if m.concBool(fr, m.errorsIs(fr, e.(Iface), target, depth+1), "errors.Is") {
					return true
				}
			}
			return false
		default:
			return false
		}
	}
	return false
}

func (m *Machine) errorsAs(fr *frame, err Iface, target Iface) Value {
	if target.T == nil {
		panic(targetPanic{rt: "errors: target cannot be nil"})
	}
	pt, ok := target.T.Underlying().(*types.Pointer)
	if !ok {
		panic(targetPanic{rt: "errors: target must be a non-nil pointer"})
	}
	want := pt.Elem()
	cell := target.V.(*Value)
	for err.T != nil {
		if iface, ok := want.Underlying().(*types.Interface); ok {
			if meth, _ := types.MissingMethod(err.T, iface, true); meth == nil {
				*cell = err
				return true
			}
		} else if types.Identical(err.T, want) {
			*cell = err.V
			return true
		}
		if fn := m.lookupMethodByName(err.T, "As"); fn != nil && fn.Signature.Params().Len() == 1 {
			r := m.call(fr, token.NoPos, fn, []Value{err.V, target})
			if m.concBool(fr, r, "errors.As method") {
				return true
			}
		}
		next, ok := m.errUnwrap(fr, err).(Iface)
		if !ok {
			return false
		}
		err = next
	}
	return false
}

// ---------------------------------------------------------------- fmt

type opaqueText struct{}

// goValue converts an interpreter value of static type t to a native Go value for fmt.
func (m *Machine) goValue(fr *frame, t types.Type, v Value, depth int) (interface{}, bool) {
	if depth > 3 {
		return "…", true
	}
	switch x := v.(type) {
	case *Term, *SymStr:
		return nil, false
	case bool, float64, string:
		return x, true
	case int64:
		if t != nil {
			if w, signed, ok := intInfo(t); ok && !signed {
				switch w {
				case 8:
					return uint8(x), true
				case 16:
					return uint16(x), true
				case 32:
					return uint32(x), true
				default:
					return uint64(x), true
				}
			}
		}
		return x, true
	case Iface:
		if x.T == nil {
			return nil, true
		}
		return m.goValue(fr, x.T, x.V, depth)
	case nil:
		return nil, true
	}
	// a value with symbolic leaves is never formatted: String()/Error() methods (time.Time.String runs
	// the whole calendar arithmetic) would fork on the symbolic parts only to build a log/error text
	if isSymbolic(v) {
		return nil, false
	}
	if p, ok := v.(*Value); ok && p != nil && isSymbolic(*p) {
		return nil, false
	}
	// error / Stringer
	if t != nil {
		for _, name := range []string{"Error", "String"} {
			if fn := m.lookupMethodByName(t, name); fn != nil && fn.Signature.Params().Len() == 0 && fn.Signature.Results().Len() == 1 {
				if p, ok := v.(*Value); ok && p == nil {
					return "<nil>", true
				}
				r := m.call(fr, token.NoPos, fn, []Value{v})
				if s, ok := r.(string); ok {
					return fmtText(s), true
				}
				return nil, false
			}
		}
	}
	switch x := v.(type) {
	case Slice:
		if b, ok := concBytes(x); ok && t != nil {
			if st, ok := t.Underlying().(*types.Slice); ok {
				if bt, ok := st.Elem().Underlying().(*types.Basic); ok && bt.Kind() == types.Uint8 {
					return b, true
				}
			}
		}
		var et types.Type
		if t != nil {
			if st, ok := t.Underlying().(*types.Slice); ok {
				et = st.Elem()
			}
		}
		out := make([]interface{}, len(x))
		for i, e := range x {
			g, ok := m.goValue(fr, et, e, depth+1)
			if !ok {
				return nil, false
			}
			out[i] = g
		}
		return out, true
	case Array:
		if b, ok := concBytes(x); ok {
			return b, true
		}
		return nil, false
	case *Value:
		if x == nil {
			return nil, true
		}
		return fmtText(fmt.Sprintf("&<%v>", typeName(t))), true
	case Struct:
		if isSymbolic(x) {
			return nil, false
		}
		return fmtText(fmt.Sprintf("<%v>", typeName(t))), true
	}
	return fmtText(fmt.Sprintf("<%v>", typeName(t))), true
}

func typeName(t types.Type) string {
	if t == nil {
		return "?"
	}
	return types.TypeString(t, func(p *types.Package) string { return p.Name() })
}

// fmtText prints verbatim under any verb.
type fmtText string

func (f fmtText) Format(s fmt.State, verb rune) { fmt.Fprint(s, string(f)) }

func (m *Machine) fmtArgs(fr *frame, args Slice) ([]interface{}, bool) {
	out := make([]interface{}, len(args))
	for i, a := range args {
		itf := a.(Iface)
		g, ok := m.goValue(fr, itf.T, itf.V, 0)
		if !ok {
			return nil, false
		}
		out[i] = g
	}
	return out, true
}

func (m *Machine) sprintf(fr *frame, format Value, args Slice) Value {
	f, ok := format.(string)
	if !ok {
		return &SymStr{Opaque: true}
	}
	goArgs, ok := m.fmtArgs(fr, args)
	if !ok {
		m.fmtOpaque++
		return &SymStr{Opaque: true}
	}
	f = strings.ReplaceAll(f, "%w", "%v")
	return fmt.Sprintf(f, goArgs...)
}

func (m *Machine) sprint(fr *frame, args Slice, ln bool) Value {
	goArgs, ok := m.fmtArgs(fr, args)
	if !ok && !ln {
		// Sprint of strings only is their concatenation (no spaces are added between string operands)
		var cat []Value
		all := true
		for _, a := range args {
			itf := a.(Iface)
			b, isStr := itf.T.Underlying().(*types.Basic)
			if !isStr || b.Kind() != types.String {
				all = false
				break
			}
			switch sv := itf.V.(type) {
			case string:
				for i := 0; i < len(sv); i++ {
					cat = append(cat, int64(sv[i]))
				}
			case *SymStr:
				if sv.Opaque {
					all = false
				}
				cat = append(cat, sv.B...)
			default:
				all = false
			}
		}
		if all {
			return &SymStr{B: cat}
		}
	}
	if !ok {
		m.fmtOpaque++
		return &SymStr{Opaque: true}
	}
	if ln {
		return fmt.Sprintln(goArgs...)
	}
	return fmt.Sprint(goArgs...)
}

// errorf builds a real *fmt.wrapError / *errors.errorString value so that Error/Unwrap work from SSA.
func (m *Machine) errorf(fr *frame, format Value, args Slice) Value {
	msg := m.sprintf(fr, format, args)
	var wrapped []Iface
	if f, ok := format.(string); ok {
		// positions of %w verbs
		argi := 0
		for i := 0; i < len(f); i++ {
			if f[i] != '%' {
				continue
			}
			i++
			for i < len(f) && strings.IndexByte("+-# 0123456789.[]*", f[i]) >= 0 {
				i++
			}
			if i >= len(f) {
				break
			}
			if f[i] == '%' {
				continue
			}
			if f[i] == 'w' && argi < len(args) {
				if e, ok := args[argi].(Iface); ok && e.T != nil {
					wrapped = append(wrapped, e)
				}
			}
			argi++
		}
	}
	fmtPkg := m.prog.ImportedPackage("fmt")
	if len(wrapped) >= 1 && fmtPkg != nil {
		wt := fmtPkg.Type("wrapError").Type()
		cell := new(Value)
		*cell = Struct{msg, wrapped[0]}
		return Iface{T: types.NewPointer(wt), V: cell}
	}
	errPkg := m.prog.ImportedPackage("errors")
	et := errPkg.Type("errorString").Type()
	cell := new(Value)
	*cell = Struct{msg}
	return Iface{T: types.NewPointer(et), V: cell}
}

func (m *Machine) writeTo(fr *frame, w Iface, s Value) Value {
	b := Slice(append([]Value{}, strBytesLoose(s)...))
	r, ok := m.callMethod(fr, w, "Write", b)
	if !ok {
		panic(pathEnd{kind: "unsupported", msg: "Fprintf to writer without Write"})
	}
	return r
}

func strBytesLoose(s Value) []Value {
	if ss, ok := s.(*SymStr); ok && ss.Opaque {
		return []Value(bytesOf([]byte("<symbolic>")))
	}
	return strBytes(s)
}

// ---------------------------------------------------------------- sort.Slice

func (m *Machine) sortSlice(fr *frame, x Iface, less Value, algo string) Value {
	sl, _ := x.V.(Slice)
	n := len(sl)
	swap := &Native{Name: "swapper", Fn: func(fr *frame, a []Value) Value {
		i, j := a[0].(int64), a[1].(int64)
		sl[i], sl[j] = sl[j], sl[i]
		return nil
	}}
	sortPkg := m.prog.ImportedPackage("sort")
	fn := sortPkg.Func(algo)
	if fn == nil {
		panic(pathEnd{kind: "unsupported", msg: "sort." + algo + " not found"})
	}
	data := Struct{less, swap}
	if algo == "pdqsort_func" {
		limit := 0
		for u := uint(n); u != 0; u >>= 1 {
			limit++
		}
		m.call(fr, token.NoPos, fn, []Value{data, int64(0), int64(n), int64(limit)})
	} else {
		m.call(fr, token.NoPos, fn, []Value{data, int64(n)})
	}
	return nil
}

// ---------------------------------------------------------------- time

const unixToInternal int64 = (1969*365 + 1969/4 - 1969/100 + 1969/400) * 86400

func (m *Machine) timeValue(ns int64) Value {
	tp := m.prog.ImportedPackage("time")
	sec := ns / 1e9
	nsec := ns % 1e9
	var loc Value = (*Value)(nil)
	if tp != nil {
		if g, ok := tp.Members["Local"].(*ssa.Global); ok {
			loc = *m.globalAddr(g)
		}
	}
	return Struct{int64(nsec), sec + unixToInternal, loc}
}

func init() {
	reg("time.Now", func(m *Machine, fr *frame, a []Value) Value {
		m.now += 1000 // time moves on between observations
		return m.timeValue(m.now)
	})
	reg("time.runtimeNano", func(m *Machine, fr *frame, a []Value) Value { return m.now })
	reg("time.Sleep", func(m *Machine, fr *frame, a []Value) Value {
		d := m.concInt(fr, a[0], "Sleep")
		if d <= 0 {
			return nil
		}
		t := m.addTimer(d, 0, nil, nil)
		m.block(fr, func() bool { return !t.active }, "time.Sleep")
		return nil
	})
	reg("(*time.Location).get", func(m *Machine, fr *frame, a []Value) Value {
		p := a[0].(*Value)
		if p == nil {
			tp := m.prog.ImportedPackage("time")
			return m.globalAddr(tp.Members["utcLoc"].(*ssa.Global))
		}
		return p
	})
	reg("time.initLocal", func(m *Machine, fr *frame, a []Value) Value { return nil })
	mkTimer := func(m *Machine, tyName string, d, period int64, fn Value) Value {
		tp := m.prog.ImportedPackage("time")
		tt := tp.Type(tyName).Type()
		cell := new(Value)
		*cell = zero(tt)
		var ch *Chan
		if fn == nil {
			ch = m.newChan(1, tp.Type("Time").Type())
			(*cell).(Struct)[0] = ch
		}
		vt := m.addTimer(d, period, ch, fn)
		m.side[cell] = vt
		return cell
	}
	reg("time.NewTimer", func(m *Machine, fr *frame, a []Value) Value {
		return mkTimer(m, "Timer", m.concInt(fr, a[0], "NewTimer"), 0, nil)
	})
	reg("time.AfterFunc", func(m *Machine, fr *frame, a []Value) Value {
		return mkTimer(m, "Timer", m.concInt(fr, a[0], "AfterFunc"), 0, a[1])
	})
	reg("time.After", func(m *Machine, fr *frame, a []Value) Value {
		c := mkTimer(m, "Timer", m.concInt(fr, a[0], "After"), 0, nil).(*Value)
		return (*c).(Struct)[0]
	})
	reg("time.NewTicker", func(m *Machine, fr *frame, a []Value) Value {
		d := m.concInt(fr, a[0], "NewTicker")
		if d <= 0 {
			panic(targetPanic{rt: "non-positive interval for NewTicker"})
		}
		return mkTimer(m, "Ticker", d, d, nil)
	})
	reg("time.Tick", func(m *Machine, fr *frame, a []Value) Value {
		d := m.concInt(fr, a[0], "Tick")
		c := mkTimer(m, "Ticker", d, d, nil).(*Value)
		return (*c).(Struct)[0]
	})
	stop := func(m *Machine, fr *frame, a []Value) Value {
		vt, ok := m.side[a[0].(*Value)].(*vtimer)
		if !ok {
			return false
		}
		was := vt.active
		vt.active = false
		return was
	}
	reg("(*time.Timer).Stop", stop)
	reg("(*time.Ticker).Stop", func(m *Machine, fr *frame, a []Value) Value { stop(m, fr, a); return nil })
	reg("(*time.Timer).Reset", func(m *Machine, fr *frame, a []Value) Value {
		vt, ok := m.side[a[0].(*Value)].(*vtimer)
		if !ok {
			panic(targetPanic{rt: "time: Reset called on uninitialized Timer"})
		}
		was := vt.active
		d := m.concInt(fr, a[1], "Timer.Reset")
		vt.active = false
		nt := m.addTimer(d, 0, vt.ch, vt.fn)
		m.side[a[0].(*Value)] = nt
		return was
	})
	reg("(*time.Ticker).Reset", func(m *Machine, fr *frame, a []Value) Value {
		vt, ok := m.side[a[0].(*Value)].(*vtimer)
		if !ok {
			panic(targetPanic{rt: "time: Reset called on uninitialized Ticker"})
		}
		d := m.concInt(fr, a[1], "Ticker.Reset")
		vt.active = false
		nt := m.addTimer(d, d, vt.ch, nil)
		m.side[a[0].(*Value)] = nt
		return nil
	})
}

func init() {
	// pubsub queries are parsed by a PEG parser with 32767-entry token arrays; the event-query
	// package variables of `types` are built at package initialisation.  A query built from a
	// concrete string is represented by an empty Query whose source string is kept in a side table;
	// matching such a query is outside the engine's reach (C19 search half is not applicable).
	mkQuery := func(m *Machine, fr *frame, a []Value) Value {
		if m.opts.RealQueries {
			return fallThrough{}
		}
		qp := m.prog.ImportedPackage("github.com/tendermint/tendermint/libs/pubsub/query")
		cell := new(Value)
		*cell = zero(qp.Type("Query").Type())
		m.side[cell] = a[0]
		return cell
	}
	reg("github.com/tendermint/tendermint/libs/pubsub/query.MustParse", mkQuery)
	reg("github.com/tendermint/tendermint/libs/pubsub/query.New", func(m *Machine, fr *frame, a []Value) Value {
		if m.opts.RealQueries {
			return fallThrough{}
		}
		return Tuple{mkQuery(m, fr, a), Iface{}}
	})
	reg("(*github.com/tendermint/tendermint/libs/pubsub/query.Query).String", func(m *Machine, fr *frame, a []Value) Value {
		if s, ok := m.side[a[0].(*Value)]; ok {
			return s
		}
		if m.opts.RealQueries {
			return fallThrough{}
		}
		return "<query>"
	})
	// Queries built from a concrete source string of the form  key = 'value' [AND key = 'value']...
	// (all the event-bus queries of package types have this form) are matched natively; anything
	// else is outside the engine's reach.
	eqForm := regexp.MustCompile(`^\s*([\w.]+)\s*=\s*'([^']*)'\s*$`)
	reg("(*github.com/tendermint/tendermint/libs/pubsub/query.Query).Matches", func(m *Machine, fr *frame, a []Value) Value {
		src, ok := m.side[a[0].(*Value)].(string)
		if !ok {
			if m.opts.RealQueries {
				return fallThrough{}
			}
			panic(pathEnd{kind: "unsupported", msg: "pubsub query matching (reflect/regexp/float parsing over strings)"})
		}
		events, _ := a[1].(*Map)
		for _, clause := range strings.Split(src, " AND ") {
			mm := eqForm.FindStringSubmatch(clause)
			if mm == nil {
				panic(pathEnd{kind: "unsupported", msg: "pubsub query matching beyond key = 'value' conjunctions: " + src})
			}
			found := false
			if events != nil {
				if v, ok := m.mapLookup(fr, events, mm[1]); ok {
					if vals, ok := v.(Slice); ok {
						for _, x := range vals {
							xs, isStr := x.(string)
							if !isStr {
								panic(pathEnd{kind: "unsupported", msg: "pubsub query matching against a symbolic event value"})
							}
							if xs == mm[2] {
								found = true
							}
						}
					}
				}
			}
			if !found {
				return Tuple{false, Iface{}}
			}
		}
		return Tuple{true, Iface{}}
	})
}

func init() {
	// gogoproto generic entry points dispatch to the generated (plain Go) methods
	for _, pkg := range []string{"github.com/gogo/protobuf/proto", "github.com/golang/protobuf/proto"} {
		reg(pkg+".Marshal", func(m *Machine, fr *frame, a []Value) Value {
			msg := a[0].(Iface)
			if msg.T == nil {
				return Tuple{Slice(nil), m.mkError("proto: Marshal called with nil")}
			}
			if p, ok := msg.V.(*Value); ok && p == nil {
				return Tuple{Slice(nil), m.mkError("proto: Marshal called with nil")}
			}
			r, ok := m.callMethod(fr, msg, "Marshal")
			if !ok {
				panic(pathEnd{kind: "unsupported", msg: "proto.Marshal of a type without generated Marshal: " + msg.T.String()})
			}
			return r
		})
		reg(pkg+".Unmarshal", func(m *Machine, fr *frame, a []Value) Value {
			msg := a[1].(Iface)
			m.callMethod(fr, msg, "Reset")
			r, ok := m.callMethod(fr, msg, "Unmarshal", a[0])
			if !ok {
				panic(pathEnd{kind: "unsupported", msg: "proto.Unmarshal of a type without generated Unmarshal: " + msg.T.String()})
			}
			return r
		})
		reg(pkg+".Size", func(m *Machine, fr *frame, a []Value) Value {
			r, ok := m.callMethod(fr, a[0].(Iface), "Size")
			if !ok {
				panic(pathEnd{kind: "unsupported", msg: "proto.Size without generated Size"})
			}
			return r
		})
		reg(pkg+".Equal", func(m *Machine, fr *frame, a []Value) Value {
			x, y := a[0].(Iface), a[1].(Iface)
			if x.T == nil || y.T == nil {
				return x.T == nil && y.T == nil
			}
			if !types.Identical(x.T, y.T) {
				return false
			}
			return m.deepEqual(x.V, y.V, 0)
		})
	}
}

func (m *Machine) mkError(msg string) Value {
	errPkg := m.prog.ImportedPackage("errors")
	et := errPkg.Type("errorString").Type()
	cell := new(Value)
	*cell = Struct{msg}
	return Iface{T: types.NewPointer(et), V: cell}
}

// deepEqual: structural equality through pointers and slices (proto.Equal semantics: nil and empty
// byte slices are equal); yields a Boolean term when leaves are symbolic.
func (m *Machine) deepEqual(x, y Value, depth int) Value {
	if depth > 24 {
		panic(pathEnd{kind: "unsupported", msg: "deepEqual: too deep"})
	}
	switch a := x.(type) {
	case *Value:
		b := y.(*Value)
		if a == nil || b == nil {
			return a == b
		}
		return m.deepEqual(*a, *b, depth+1)
	case Struct:
		b := y.(Struct)
		var r Value = true
		for i := range a {
			r = m.and(r, m.deepEqual(a[i], b[i], depth+1))
			if r == false {
				return false
			}
		}
		return r
	case Array:
		b := y.(Array)
		var r Value = true
		for i := range a {
			r = m.and(r, m.deepEqual(a[i], b[i], depth+1))
		}
		return r
	case Slice:
		b := y.(Slice)
		if len(a) != len(b) {
			return false
		}
		var r Value = true
		for i := range a {
			r = m.and(r, m.deepEqual(a[i], b[i], depth+1))
			if r == false {
				return false
			}
		}
		return r
	case Iface:
		b := y.(Iface)
		if a.T == nil || b.T == nil {
			return a.T == nil && b.T == nil
		}
		if !types.Identical(a.T, b.T) {
			return false
		}
		return m.deepEqual(a.V, b.V, depth+1)
	case *Map:
		b := y.(*Map)
		if a == nil || b == nil {
			return (a == nil || a.live == 0) && (b == nil || b.live == 0)
		}
		panic(pathEnd{kind: "unsupported", msg: "deepEqual of maps"})
	}
	return m.eqVal(x, y)
}

// ---------------------------------------------------------------- JSON as identity on Go values
//
// encoding/json and tmjson are reflection-driven.  Where a harness needs them (FilePV key/state
// files) Marshal returns an opaque concrete token and remembers a deep copy of the value;
// Unmarshal of exactly that token restores the copy, anything else (e.g. a torn write) is an error.

type jsonKey struct{ tok string }

func (m *Machine) deepCopy(v Value, seen map[*Value]*Value) Value {
	switch x := v.(type) {
	case *Value:
		if x == nil {
			return x
		}
		if c, ok := seen[x]; ok {
			return c
		}
		c := new(Value)
		seen[x] = c
		*c = m.deepCopy(*x, seen)
		return c
	case Struct:
		r := make(Struct, len(x))
		for i := range x {
			r[i] = m.deepCopy(x[i], seen)
		}
		return r
	case Array:
		r := make(Array, len(x))
		for i := range x {
			r[i] = m.deepCopy(x[i], seen)
		}
		return r
	case Slice:
		if x == nil {
			return x
		}
		r := make(Slice, len(x))
		for i := range x {
			r[i] = m.deepCopy(x[i], seen)
		}
		return r
	case Iface:
		return Iface{T: x.T, V: m.deepCopy(x.V, seen)}
	case *Map:
		if x == nil {
			return x
		}
		r := newMap(x.kt)
		for _, e := range x.entries {
			if !e.deleted {
				ne := &mapEntry{k: e.k, v: m.deepCopy(e.v, seen), ckey: e.ckey, conc: e.conc}
				r.entries = append(r.entries, ne)
				if ne.conc {
					r.index[ne.ckey] = ne
				} else {
					r.nsym++
				}
				r.live++
			}
		}
		return r
	}
	return v
}

func init() {
	marshal := func(m *Machine, fr *frame, a []Value) Value {
		m.jsonSeq++
		tok := fmt.Sprintf("{\"vpjson\":%d}", m.jsonSeq)
		m.side[jsonKey{tok}] = m.deepCopy(a[0], map[*Value]*Value{})
		return Tuple{bytesOf([]byte(tok)), Iface{}}
	}
	unmarshal := func(m *Machine, fr *frame, a []Value) Value {
		b, ok := concBytes(a[0])
		if !ok {
			panic(pathEnd{kind: "unsupported", msg: "json.Unmarshal of symbolic bytes"})
		}
		saved, ok := m.side[jsonKey{string(b)}]
		if !ok {
			return m.mkError("json: cannot decode (not a value written by Marshal, e.g. a torn write)")
		}
		dst := a[1].(Iface)
		src := m.deepCopy(saved, map[*Value]*Value{}).(Iface)
		dp, ok := dst.V.(*Value)
		if !ok || dp == nil {
			return m.mkError("json: Unmarshal(non-pointer)")
		}
		// dst is *T; the saved value is T or *T
		if types.Identical(dst.T, src.T) {
			store(dp, *(src.V.(*Value)))
			return Iface{}
		}
		if pt, ok := dst.T.Underlying().(*types.Pointer); ok && types.Identical(pt.Elem(), src.T) {
			store(dp, src.V)
			return Iface{}
		}
		return m.mkError("json: type mismatch " + src.T.String() + " into " + dst.T.String())
	}
	for _, p := range []string{"github.com/tendermint/tendermint/libs/json", "encoding/json"} {
		reg(p+".Marshal", marshal)
		reg(p+".MarshalIndent", marshal)
		reg(p+".Unmarshal", unmarshal)
	}
}

func init() {
	reg("crypto/rand.Read", func(m *Machine, fr *frame, a []Value) Value {
		b := a[0].(Slice)
		m.keySeq++
		var out []byte
		for i := 0; len(out) < len(b); i++ {
			h := sha256.Sum256([]byte(fmt.Sprintf("symgo-crand-%d-%d", m.keySeq, i)))
			out = append(out, h[:]...)
		}
		for i := range b {
			b[i] = int64(out[i])
		}
		return Tuple{int64(len(b)), Iface{}}
	})
}

func init() {
	// types/encoding_helper.go uses reflect only to ask "typed nil?" and "empty?"
	const tp = "github.com/tendermint/tendermint/types."
	reg(tp+"isTypedNil", func(m *Machine, fr *frame, a []Value) Value {
		itf := a[0].(Iface)
		switch v := itf.V.(type) {
		case *Value:
			return v == nil
		case Slice:
			return v == nil
		case *Map:
			return v == nil
		case *Chan:
			return v == nil
		case nil:
			if _, isFunc := itf.T.Underlying().(*types.Signature); isFunc {
				return true
			}
		}
		return false
	})
	reg(tp+"isEmpty", func(m *Machine, fr *frame, a []Value) Value {
		itf := a[0].(Iface)
		switch v := itf.V.(type) {
		case string:
			return len(v) == 0
		case *SymStr:
			return len(v.B) == 0
		case Slice:
			return len(v) == 0
		case Array:
			return len(v) == 0
		case *Map:
			return v == nil || v.live == 0
		case *Chan:
			return v == nil || len(v.buf) == 0
		}
		return false
	})
}

func init() {
	reg(vpPath+"And", func(m *Machine, fr *frame, a []Value) Value {
		var r Value = true
		for _, x := range a[0].(Slice) {
			r = m.and(r, x)
		}
		return r
	})
	reg(vpPath+"Or", func(m *Machine, fr *frame, a []Value) Value {
		var r Value = false
		for _, x := range a[0].(Slice) {
			r = m.or(r, x)
		}
		return r
	})
	reg(vpPath+"Implies", func(m *Machine, fr *frame, a []Value) Value { return m.or(m.not(a[0]), a[1]) })
	reg(vpPath+"Ite32", func(m *Machine, fr *frame, a []Value) Value { return m.ite(a[0], a[1], a[2], 32, true) })
	reg(vpPath+"Ite8", func(m *Machine, fr *frame, a []Value) Value { return m.ite(a[0], a[1], a[2], 8, true) })
	reg(vpPath+"Sel8", func(m *Machine, fr *frame, a []Value) Value {
		arr := a[0].(Slice)
		var r Value = int64(0)
		for i := len(arr) - 1; i >= 0; i-- {
			r = m.ite(m.eqVal(a[1], int64(i)), arr[i], r, 8, true)
		}
		return r
	})
	reg(vpPath+"SelBool", func(m *Machine, fr *frame, a []Value) Value {
		arr := a[0].(Slice)
		var r Value = false
		for i := len(arr) - 1; i >= 0; i-- {
			c := m.eqVal(a[1], int64(i))
			r = m.or(m.and(c, arr[i]), m.and(m.not(c), r))
		}
		return r
	})
}

func init() {
	reg(vpPath+"AssertAll", func(m *Machine, fr *frame, a []Value) Value {
		conds, labels := a[0].(Slice), a[1].(Slice)
		prefix := constStr(a[2])
		var all Value = true
		for _, c := range conds {
			all = m.and(all, c)
		}
		m.res.AssertChecks++
		switch c := all.(type) {
		case bool:
			m.res.AssertsConcrete++
			if c {
				return nil
			}
		case *Term:
			if m.replaying() {
				m.addPC(c)
				return nil
			}
			bad := m.model != nil && !m.evalBool(c)
			if !bad {
				r, model := m.query(m.pool.Not(c), true)
				switch r {
				case Unsat:
					m.res.AssertsProved++
					m.assertPC(c)
					return nil
				case Unknown:
					m.note("unknown_assert", prefix)
					m.assertPC(c)
					return nil
				}
				m.setModel(model)
			}
		}
		// some conjunct fails under m.model: report the first one
		for i, c := range conds {
			fails := false
			switch c := c.(type) {
			case bool:
				fails = !c
			case *Term:
				fails = m.model != nil && !m.evalBool(c)
			}
			if fails {
				m.violation(prefix+constStr(labels[i]), "", "AssertAll", "assert", m.model)
			}
		}
		m.violation(prefix+"(conjunct not identified)", "", "AssertAll", "assert", m.model)
		return nil
	})
}

func init() {
	reg(vpPath+"AssumeAll", func(m *Machine, fr *frame, a []Value) Value {
		conds := a[0].(Slice)
		var all Value = true
		for _, c := range conds {
			all = m.and(all, c)
		}
		switch c := all.(type) {
		case bool:
			if !c {
				panic(pathEnd{kind: "assume"})
			}
			return nil
		case *Term:
			if !m.replaying() && (m.model == nil || !m.evalBool(c)) {
				r, model := m.query(c, true)
				if r == Unsat {
					panic(pathEnd{kind: "assume"})
				}
				if r == Unknown {
					m.note("unknown_assume", "assumption feasibility unknown; kept")
					m.pcDoubt = true
				}
				m.setModel(model)
			}
			for _, x := range conds {
				if t, ok := x.(*Term); ok {
					m.addPC(t)
				}
			}
		}
		return nil
	})
}

// ---------------------------------------------------------------- ideal AEAD (chacha20poly1305)
//
// Seal(key, nonce, plaintext, ad) returns an opaque concrete ciphertext of len(plaintext)+16 bytes
// and remembers it; Open succeeds iff the ciphertext is exactly one that Seal produced under the same
// key, nonce and additional data, and returns that plaintext. Natively the real cipher runs.

type aeadRecord struct {
	key, nonce, ad string
	pt         []Value
	ct         []byte
}

func init() {
	const tp = "(*golang.org/x/crypto/chacha20poly1305.chacha20poly1305)."
	keyOf := func(v Value) string {
		st := (*v.(*Value)).(Struct)
		b, ok := concBytes(st[0])
		if !ok {
			panic(pathEnd{kind: "unsupported", msg: "AEAD with a symbolic key"})
		}
		return string(b)
	}
	conc := func(v Value, what string) string {
		b, ok := concBytes(v)
		if !ok {
			panic(pathEnd{kind: "unsupported", msg: "AEAD with symbolic " + what})
		}
		return string(b)
	}
	reg(tp+"Seal", func(m *Machine, fr *frame, a []Value) Value {
		key, nonce, ad := keyOf(a[0]), conc(a[2], "nonce"), conc(a[4], "additional data")
		if len(nonce) != 12 {
			panic(targetPanic{rt: "chacha20poly1305: bad nonce length passed to Seal"})
		}
		pt := a[3].(Slice)
		recs, _ := m.side["aead"].([]*aeadRecord)
		ct := make([]byte, len(pt)+16)
		copy(ct, fmt.Sprintf("AEAD#%d#", len(recs)))
		for i := 8; i < len(ct); i++ {
			ct[i] = byte(0xC0 + (len(recs)*7+i)%61)
		}
		rec := &aeadRecord{key: key, nonce: nonce, ad: ad, pt: append([]Value{}, pt...), ct: ct}
		m.side["aead"] = append(recs, rec)
		dst, _ := a[1].(Slice)
		return Slice(append(dst, []Value(bytesOf(ct))...))
	})
	reg(tp+"Open", func(m *Machine, fr *frame, a []Value) Value {
		key, nonce, ad := keyOf(a[0]), conc(a[2], "nonce"), conc(a[4], "additional data")
		ct, _ := a[3].(Slice)
		recs, _ := m.side["aead"].([]*aeadRecord)
		for _, r := range recs {
			if r.key == key && r.nonce == nonce && r.ad == ad && len(r.ct) == len(ct) {
				if m.concBool(fr, m.eqBytes(ct, Slice(bytesOf(r.ct))), "AEAD.Open ciphertext is the sealed one") {
					dst, _ := a[1].(Slice)
					return Tuple{Slice(append(dst, r.pt...)), Iface{}}
				}
			}
		}
		return Tuple{Slice(nil), m.mkError("chacha20poly1305: message authentication failed")}
	})
	reg(tp+"NonceSize", func(m *Machine, fr *frame, a []Value) Value { return int64(12) })
	reg(tp+"Overhead", func(m *Machine, fr *frame, a []Value) Value { return int64(16) })
}

func init() {
	f1 := func(name string, f func(float64) float64) {
		reg(name, func(m *Machine, fr *frame, a []Value) Value {
			x, ok := a[0].(float64)
			if !ok {
				panic(pathEnd{kind: "unsupported", msg: name + " of a symbolic float"})
			}
			return f(x)
		})
	}
	f1("math.Floor", math.Floor)
	f1("math.Ceil", math.Ceil)
	f1("math.Trunc", math.Trunc)
	f1("math.Sqrt", math.Sqrt)
	f1("math.Abs", math.Abs)
	f1("math.Exp", math.Exp)
	f1("math.Log", math.Log)
	f1("math.Round", math.Round)
}

func init() {
	// only ever formatted into an error message
	reg("reflect.TypeOf", func(m *Machine, fr *frame, a []Value) Value { return Iface{} })
}

func init() {
	// the global math/rand source is an arbitrary choice
	pick := func(m *Machine, fr *frame, a Value) Value {
		n := m.concInt(fr, a, "rand bound")
		if n <= 0 {
			panic(targetPanic{rt: "invalid argument to Intn"})
		}
		if n > 8 {
			n = 8 // only small ranges are enumerated; larger ones take one of the first eight values
		}
		return int64(m.decide("rand", int(n), nil))
	}
	reg("math/rand.Intn", func(m *Machine, fr *frame, a []Value) Value { return pick(m, fr, a[0]) })
	reg("math/rand.Int31n", func(m *Machine, fr *frame, a []Value) Value { return pick(m, fr, a[0]) })
	reg("math/rand.Int63n", func(m *Machine, fr *frame, a []Value) Value { return pick(m, fr, a[0]) })
}

func init() {
	// X25519 is computed by the Go standard library (crypto/ecdh) on concrete inputs.
	ptrTo := func(b []byte) Value {
		var v Value = Array(bytesOf(b))
		return &v
	}
	reg("golang.org/x/crypto/nacl/box.GenerateKey", func(m *Machine, fr *frame, a []Value) Value {
		m.keySeq++
		seed := sha256.Sum256([]byte(fmt.Sprintf("symgo-x25519-%d", m.keySeq)))
		priv, err := ecdh.X25519().NewPrivateKey(seed[:])
		if err != nil {
			panic(err)
		}
		return Tuple{ptrTo(priv.PublicKey().Bytes()), ptrTo(seed[:]), Iface{}}
	})
	reg("golang.org/x/crypto/curve25519.X25519", func(m *Machine, fr *frame, a []Value) Value {
		sc, ok1 := concBytes(a[0])
		pt, ok2 := concBytes(a[1])
		if !ok1 || !ok2 {
			panic(pathEnd{kind: "unsupported", msg: "X25519 of symbolic bytes"})
		}
		if len(sc) != 32 || len(pt) != 32 {
			return Tuple{Slice(nil), m.mkError("bad scalar or point length")}
		}
		priv, err := ecdh.X25519().NewPrivateKey(sc)
		if err != nil {
			return Tuple{Slice(nil), m.mkError(err.Error())}
		}
		pub, err := ecdh.X25519().NewPublicKey(pt)
		if err != nil {
			return Tuple{Slice(nil), m.mkError(err.Error())}
		}
		out, err := priv.ECDH(pub)
		if err != nil {
			return Tuple{Slice(nil), m.mkError("bad input point: low order point")}
		}
		return Tuple{bytesOf(out), Iface{}}
	})
}

// keccak-f[1600], last nr rounds (the permutation of StrobeGo, whose amd64 version is assembly)
var keccakRC = [24]uint64{
	0x0000000000000001, 0x0000000000008082, 0x800000000000808A, 0x8000000080008000, 0x000000000000808B, 0x0000000080000001,
	0x8000000080008081, 0x8000000000008009, 0x000000000000008A, 0x0000000000000088, 0x0000000080008009, 0x000000008000000A,
	0x000000008000808B, 0x800000000000008B, 0x8000000000008089, 0x8000000000008003, 0x8000000000008002, 0x8000000000000080,
	0x000000000000800A, 0x800000008000000A, 0x8000000080008081, 0x8000000000008080, 0x0000000080000001, 0x8000000080008008,
}

func keccakF(a *[25]uint64, nr int) {
	rotc := [24]uint{1, 3, 6, 10, 15, 21, 28, 36, 45, 55, 2, 14, 27, 41, 56, 8, 25, 43, 62, 18, 39, 61, 20, 44}
	piln := [24]int{10, 7, 11, 17, 18, 3, 5, 16, 8, 21, 24, 4, 15, 23, 19, 13, 12, 2, 20, 14, 22, 9, 6, 1}
	for round := 24 - nr; round < 24; round++ {
		var bc [5]uint64
		for i := 0; i < 5; i++ {
			bc[i] = a[i] ^ a[i+5] ^ a[i+10] ^ a[i+15] ^ a[i+20]
		}
		for i := 0; i < 5; i++ {
			t := bc[(i+4)%5] ^ bits.RotateLeft64(bc[(i+1)%5], 1)
			for j := 0; j < 25; j += 5 {
				a[j+i] ^= t
			}
		}
		t := a[1]
		for i := 0; i < 24; i++ {
			j := piln[i]
			b := a[j]
			a[j] = bits.RotateLeft64(t, int(rotc[i]))
			t = b
		}
		for j := 0; j < 25; j += 5 {
			for i := 0; i < 5; i++ {
				bc[i] = a[j+i]
			}
			for i := 0; i < 5; i++ {
				a[j+i] ^= (^bc[(i+1)%5]) & bc[(i+2)%5]
			}
		}
		a[0] ^= keccakRC[round]
	}
}

func init() {
	reg("github.com/mimoo/StrobeGo/strobe.keccakF1600", func(m *Machine, fr *frame, a []Value) Value {
		arr := (*a[0].(*Value)).(Array)
		var st [25]uint64
		for i := range st {
			c, ok := arr[i].(int64)
			if !ok {
				panic(pathEnd{kind: "unsupported", msg: "keccak of symbolic state"})
			}
			st[i] = uint64(c)
		}
		keccakF(&st, int(m.concInt(fr, a[1], "rounds")))
		for i := range st {
			arr[i] = int64(st[i])
		}
		return nil
	})
}

func init() {
	// net.ParseIP / IP.String go through net/netip, whose zone handles are built at package initialisation
	reg("net.ParseIP", func(m *Machine, fr *frame, a []Value) Value {
		s, ok := a[0].(string)
		if !ok {
			panic(pathEnd{kind: "unsupported", msg: "net.ParseIP of a symbolic string"})
		}
		ip := net.ParseIP(s)
		if ip == nil {
			return Slice(nil)
		}
		return bytesOf(ip)
	})
	reg("(net.IP).String", func(m *Machine, fr *frame, a []Value) Value {
		b, ok := concBytes(a[0])
		if !ok {
			panic(pathEnd{kind: "unsupported", msg: "net.IP.String of symbolic bytes"})
		}
		return net.IP(b).String()
	})
}

func init() {
	// the legacy ScalarMult (no low-order check), computed natively
	reg("golang.org/x/crypto/curve25519.ScalarMult", func(m *Machine, fr *frame, a []Value) Value {
		dst := (*a[0].(*Value)).(Array)
		sc, ok1 := concBytes(*a[1].(*Value))
		pt, ok2 := concBytes(*a[2].(*Value))
		if !ok1 || !ok2 {
			panic(pathEnd{kind: "unsupported", msg: "ScalarMult of symbolic bytes"})
		}
		var d, s, p [32]byte
		copy(s[:], sc)
		copy(p[:], pt)
		xcurve.ScalarMult(&d, &s, &p) //nolint:staticcheck
		for i := range d {
			dst[i] = int64(d[i])
		}
		return nil
	})
}

func init() {
	// reflect.Value as a box around the interface it was made from: enough for code that only asks
	// for the kind and takes the value back out (libs/pubsub/query operands)
	unbox := func(v Value) Iface {
		s, ok := v.(Struct)
		if !ok || len(s) == 0 {
			panic(pathEnd{kind: "unsupported", msg: "reflect.Value not produced by reflect.ValueOf"})
		}
		i, ok := s[0].(Iface)
		if !ok {
			panic(pathEnd{kind: "unsupported", msg: "reflect.Value not produced by reflect.ValueOf"})
		}
		return i
	}
	reg("reflect.ValueOf", func(m *Machine, fr *frame, a []Value) Value {
		return Struct{a[0].(Iface), UnsafePtr{}, int64(0)}
	})
	reg("(reflect.Value).Interface", func(m *Machine, fr *frame, a []Value) Value { return unbox(a[0]) })
	reg("(reflect.Value).Kind", func(m *Machine, fr *frame, a []Value) Value {
		i := unbox(a[0])
		if i.T == nil {
			return int64(reflect.Invalid)
		}
		switch t := i.T.Underlying().(type) {
		case *types.Basic:
			switch t.Kind() {
			case types.Bool:
				return int64(reflect.Bool)
			case types.Int:
				return int64(reflect.Int)
			case types.Int8:
				return int64(reflect.Int8)
			case types.Int16:
				return int64(reflect.Int16)
			case types.Int32:
				return int64(reflect.Int32)
			case types.Int64:
				return int64(reflect.Int64)
			case types.Uint:
				return int64(reflect.Uint)
			case types.Uint8:
				return int64(reflect.Uint8)
			case types.Uint16:
				return int64(reflect.Uint16)
			case types.Uint32:
				return int64(reflect.Uint32)
			case types.Uint64:
				return int64(reflect.Uint64)
			case types.Float32:
				return int64(reflect.Float32)
			case types.Float64:
				return int64(reflect.Float64)
			case types.String:
				return int64(reflect.String)
			}
		case *types.Struct:
			return int64(reflect.Struct)
		case *types.Slice:
			return int64(reflect.Slice)
		case *types.Map:
			return int64(reflect.Map)
		case *types.Pointer:
			return int64(reflect.Ptr)
		}
		panic(pathEnd{kind: "unsupported", msg: "reflect.Value.Kind of " + i.T.String()})
	})
	reg("(reflect.Value).String", func(m *Machine, fr *frame, a []Value) Value {
		i := unbox(a[0])
		if b, ok := i.T.Underlying().(*types.Basic); ok && b.Kind() == types.String {
			return i.V
		}
		panic(pathEnd{kind: "unsupported", msg: "reflect.Value.String of a non-string"})
	})
}
