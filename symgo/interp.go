package main

// The symbolic interpreter proper: frames, instruction semantics, calls, defers, panics.
// Structure follows golang.org/x/tools/go/ssa/interp; values may be symbolic (see value.go).

import (
	"fmt"
	"sync"
	"go/token"
	"go/types"
	"os"
	"runtime/debug"
	"strings"

	"golang.org/x/tools/go/ssa"
)

// pathEnd is the Go panic used to terminate the current path.
type pathEnd struct {
	kind string // done | assert | unsupported | unwind | infeasible | steps | deadlock | abort | engine
	msg  string
}

// targetPanic is a panic of the interpreted program.
type targetPanic struct {
	v     Value  // panic value (Iface) for explicit panics
	rt    string // runtime error text
	where string // position and call chain where it was raised
}

func (m *Machine) whereAmI() string {
	if m.lastInstr == nil || m.lastFrame == nil {
		return ""
	}
	var sb strings.Builder
	sb.WriteString(m.pos(m.lastInstr.Pos()))
	n := 0
	for fr := m.lastFrame; fr != nil && fr.fn != nil && n < 6; fr = fr.caller {
		sb.WriteString(" < " + fr.fn.Name())
		n++
	}
	return sb.String()
}

type deferred struct {
	fn    Value
	args  []Value
	instr *ssa.Defer
	tail  *deferred
}

type frame struct {
	m                *Machine
	g                *Goroutine
	caller           *frame
	fn               *ssa.Function
	block, prevBlock *ssa.BasicBlock
	env              map[ssa.Value]Value
	defers           *deferred
	result           Value
	panicking        bool
	panic            interface{}
	phitemps         []Value
	symBranches      map[ssa.Instruction]int
	lenient          bool
	depth            int
}

func (fr *frame) get(key ssa.Value) Value {
	switch key := key.(type) {
	case nil:
		return nil
	case *ssa.Function:
		return key
	case *ssa.Builtin:
		return key
	case *ssa.Const:
		return constValue(key)
	case *ssa.Global:
		return fr.m.globalAddr(key)
	}
	if r, ok := fr.env[key]; ok {
		return r
	}
	panic(fmt.Sprintf("get: no value for %T: %v in %s", key, key.Name(), fr.fn))
}

func constValue(c *ssa.Const) Value {
	if c.Value == nil {
		return zero(c.Type()) // typed nil / zero
	}
	if t, ok := c.Type().Underlying().(*types.Basic); ok {
		switch {
		case t.Info()&types.IsBoolean != 0:
			return constantBool(c)
		case t.Info()&types.IsInteger != 0:
			w, signed, _ := intInfo(t)
			if signed {
				return canon(c.Int64(), w, true)
			}
			return canon(int64(c.Uint64()), w, false)
		case t.Info()&types.IsFloat != 0:
			f := c.Float64()
			if t.Kind() == types.Float32 {
				return float64(float32(f))
			}
			return f
		case t.Info()&types.IsComplex != 0:
			return c.Complex128()
		case t.Info()&types.IsString != 0:
			return constantString(c)
		}
	}
	panic(fmt.Sprintf("constValue: %s", c))
}

func (fr *frame) runDefer(d *deferred) {
	var ok bool
	defer func() {
		if !ok {
			r := recover()
			if pe, isEnd := r.(pathEnd); isEnd {
				panic(pe)
			}
			fr.panicking = true
			fr.panic = r
		}
	}()
	fr.m.call(fr, d.instr.Pos(), d.fn, d.args)
	ok = true
}

func (fr *frame) runDefers() {
	for d := fr.defers; d != nil; d = d.tail {
		fr.runDefer(d)
	}
	fr.defers = nil
	if fr.panicking {
		panic(fr.panic)
	}
}

func (m *Machine) lookupMethod(typ types.Type, meth *types.Func) *ssa.Function {
	return m.prog.LookupMethod(typ, meth.Pkg(), meth.Name())
}

func (m *Machine) step(fr *frame) {
	m.steps++
	if m.steps > m.opts.MaxSteps {
		panic(pathEnd{kind: "steps", msg: fmt.Sprintf("step budget %d exhausted in %s", m.opts.MaxSteps, fr.fn)})
	}
}

var dbgAlloc = os.Getenv("SYMGO_DBGALLOC") != ""

type continuation int

const (
	kNext continuation = iota
	kReturn
	kJump
)

func (m *Machine) visitInstr(fr *frame, instr ssa.Instruction) continuation {
	m.step(fr)
	m.lastInstr, m.lastFrame = instr, fr
	switch instr := instr.(type) {
	case *ssa.DebugRef:

	case *ssa.UnOp:
		fr.env[instr] = m.unop(fr, instr.Op, instr.X.Type(), fr.get(instr.X), instr.CommaOk)

	case *ssa.BinOp:
		fr.env[instr] = m.binop(fr, instr.Op, instr.X.Type(), instr.Y.Type(), fr.get(instr.X), fr.get(instr.Y))

	case *ssa.Call:
		fn, args := m.prepareCall(fr, &instr.Call)
		if fr.lenient {
			fr.env[instr] = m.lenientCall(fr, instr, fn, args)
		} else {
			fr.env[instr] = m.call(fr, instr.Pos(), fn, args)
		}

	case *ssa.ChangeInterface:
		fr.env[instr] = fr.get(instr.X)

	case *ssa.ChangeType:
		fr.env[instr] = fr.get(instr.X)

	case *ssa.Convert:
		fr.env[instr] = m.conv(fr, instr.Type(), instr.X.Type(), fr.get(instr.X))

	case *ssa.SliceToArrayPointer:
		x := fr.get(instr.X).(Slice)
		n := int(deref(instr.Type()).Underlying().(*types.Array).Len())
		if x == nil && n == 0 {
			fr.env[instr] = (*Value)(nil)
			break
		}
		if len(x) < n {
			panic(rtPanicMsg("cannot convert slice to array pointer: length too short"))
		}
		var cell Value = Array(x[:n:n]) // aliases the slice's backing store
		fr.env[instr] = &cell

	case *ssa.MakeInterface:
		fr.env[instr] = Iface{T: instr.X.Type(), V: fr.get(instr.X)}

	case *ssa.Extract:
		fr.env[instr] = fr.get(instr.Tuple).(Tuple)[instr.Index]

	case *ssa.Slice:
		fr.env[instr] = m.sliceOp(fr, instr, fr.get(instr.X), fr.get(instr.Low), fr.get(instr.High), fr.get(instr.Max))

	case *ssa.Return:
		switch len(instr.Results) {
		case 0:
		case 1:
			fr.result = fr.get(instr.Results[0])
		default:
			res := make(Tuple, len(instr.Results))
			for i, r := range instr.Results {
				res[i] = fr.get(r)
			}
			fr.result = res
		}
		fr.block = nil
		return kReturn

	case *ssa.RunDefers:
		fr.runDefers()

	case *ssa.Panic:
		panic(targetPanic{v: fr.get(instr.X)})

	case *ssa.Send:
		m.chanSend(fr, fr.get(instr.Chan).(*Chan), fr.get(instr.X))

	case *ssa.Store:
		addr := fr.get(instr.Addr).(*Value)
		if addr == nil {
			panic(rtPanicMsg("invalid memory address or nil pointer dereference"))
		}
		store(addr, fr.get(instr.Val))

	case *ssa.If:
		c := fr.get(instr.Cond)
		var taken bool
		switch c := c.(type) {
		case bool:
			taken = c
		case *Term:
			taken = m.branchAt(fr, instr, c)
		default:
			panic(fmt.Sprintf("If on %T", c))
		}
		succ := 1
		if taken {
			succ = 0
		}
		fr.prevBlock, fr.block = fr.block, fr.block.Succs[succ]
		return kJump

	case *ssa.Jump:
		fr.prevBlock, fr.block = fr.block, fr.block.Succs[0]
		return kJump

	case *ssa.Defer:
		fn, args := m.prepareCall(fr, &instr.Call)
		defers := &fr.defers
		if instr.DeferStack != nil {
			if into := fr.get(instr.DeferStack); into != nil {
				defers = into.(**deferred)
			}
		}
		*defers = &deferred{fn: fn, args: args, instr: instr, tail: *defers}

	case *ssa.Go:
		fn, args := m.prepareCall(fr, &instr.Call)
		m.spawn(fr, instr.Pos(), fn, args)

	case *ssa.MakeChan:
		n := m.concInt(fr, fr.get(instr.Size), "chan size")
		fr.env[instr] = m.newChan(int(n), instr.Type().Underlying().(*types.Chan).Elem())

	case *ssa.Alloc:
		addr := new(Value)
		if dbgAlloc {
			if a, ok := deref(instr.Type()).Underlying().(*types.Array); ok && a.Len() > 128 {
				fmt.Fprintf(os.Stderr, "big alloc %s in %s\n", instr.Type(), fr.fn)
			}
		}
		*addr = zero(deref(instr.Type()))
		fr.env[instr] = addr

	case *ssa.MakeSlice:
		n := m.concInt(fr, fr.get(instr.Len), "make len")
		c := m.concInt(fr, fr.get(instr.Cap), "make cap")
		if n < 0 || c < n {
			panic(rtPanicMsg("makeslice: len out of range"))
		}
		if c > m.opts.MaxAlloc {
			m.note("alloc", fmt.Sprintf("make([]T, %d) at %s", c, m.pos(instr.Pos())))
			panic(pathEnd{kind: "alloc", msg: fmt.Sprintf("allocation of %d elements at %s exceeds engine cap", c, m.pos(instr.Pos()))})
		}
		sl := make(Slice, c)
		tElt := instr.Type().Underlying().(*types.Slice).Elem()
		zb, isBasic := zero(tElt).(int64)
		for i := range sl {
			if isBasic {
				sl[i] = zb
			} else {
				sl[i] = zero(tElt)
			}
		}
		fr.env[instr] = sl[:n]

	case *ssa.MakeMap:
		fr.env[instr] = newMap(instr.Type().Underlying().(*types.Map).Key())

	case *ssa.Range:
		fr.env[instr] = m.rangeIter(fr, fr.get(instr.X), instr.X.Type())

	case *ssa.Next:
		fr.env[instr] = fr.get(instr.Iter).(iterator).next(m, fr)

	case *ssa.FieldAddr:
		p := fr.get(instr.X).(*Value)
		if p == nil {
			panic(rtPanicMsg("invalid memory address or nil pointer dereference"))
		}
		fr.env[instr] = &(*p).(Struct)[instr.Field]

	case *ssa.Field:
		fr.env[instr] = fr.get(instr.X).(Struct)[instr.Field]

	case *ssa.IndexAddr:
		x := fr.get(instr.X)
		var elems []Value
		switch x := x.(type) {
		case Slice:
			elems = x
		case *Value:
			if x == nil {
				panic(rtPanicMsg("invalid memory address or nil pointer dereference"))
			}
			elems = (*x).(Array)
		default:
			panic(fmt.Sprintf("IndexAddr on %T", x))
		}
		i := m.index(fr, fr.get(instr.Index), instr.Index.Type(), len(elems))
		fr.env[instr] = &elems[i]

	case *ssa.Index:
		x := fr.get(instr.X)
		switch x := x.(type) {
		case Array:
			i := m.index(fr, fr.get(instr.Index), instr.Index.Type(), len(x))
			fr.env[instr] = copyVal(x[i])
		case string:
			i := m.index(fr, fr.get(instr.Index), instr.Index.Type(), len(x))
			fr.env[instr] = int64(x[i])
		case *SymStr:
			b := strBytes(x)
			i := m.index(fr, fr.get(instr.Index), instr.Index.Type(), len(b))
			fr.env[instr] = b[i]
		default:
			panic(fmt.Sprintf("Index on %T", x))
		}

	case *ssa.Lookup:
		x := fr.get(instr.X)
		switch x := x.(type) {
		case string:
			i := m.index(fr, fr.get(instr.Index), instr.Index.Type(), len(x))
			fr.env[instr] = int64(x[i])
		case *SymStr:
			b := strBytes(x)
			i := m.index(fr, fr.get(instr.Index), instr.Index.Type(), len(b))
			fr.env[instr] = b[i]
		case *Map:
			v, ok := m.mapLookup(fr, x, fr.get(instr.Index))
			if !ok {
				v = zero(instr.X.Type().Underlying().(*types.Map).Elem())
			} else {
				v = copyVal(v)
			}
			if instr.CommaOk {
				fr.env[instr] = Tuple{v, ok}
			} else {
				fr.env[instr] = v
			}
		default:
			panic(fmt.Sprintf("Lookup on %T", x))
		}

	case *ssa.MapUpdate:
		mp := fr.get(instr.Map).(*Map)
		if mp == nil {
			panic(rtPanicMsg("assignment to entry in nil map"))
		}
		m.mapInsert(fr, mp, fr.get(instr.Key), copyVal(fr.get(instr.Value)))

	case *ssa.TypeAssert:
		fr.env[instr] = m.typeAssert(instr, fr.get(instr.X).(Iface))

	case *ssa.MakeClosure:
		var bindings []Value
		for _, b := range instr.Bindings {
			bindings = append(bindings, fr.get(b))
		}
		fr.env[instr] = &Closure{Fn: instr.Fn.(*ssa.Function), Env: bindings}

	case *ssa.Select:
		fr.env[instr] = m.selectOp(fr, instr)

	case *ssa.MultiConvert:
		panic(pathEnd{kind: "unsupported", msg: "MultiConvert"})

	default:
		panic(fmt.Sprintf("unexpected instruction: %T", instr))
	}
	return kNext
}

// store writes v into *addr, in place for aggregates so that interior pointers stay valid.
func store(addr *Value, v Value) {
	switch lhs := (*addr).(type) {
	case Struct:
		rhs, ok := v.(Struct)
		if !ok {
			*addr = v // poison during lenient init
			return
		}
		for i := range lhs {
			store(&lhs[i], rhs[i])
		}
	case Array:
		rhs, ok := v.(Array)
		if !ok {
			*addr = v
			return
		}
		for i := range lhs {
			store(&lhs[i], rhs[i])
		}
	default:
		*addr = copyVal(v)
	}
}

// index checks/concretises an index in [0,n).
func (m *Machine) index(fr *frame, idx Value, t types.Type, n int) int {
	switch i := idx.(type) {
	case int64:
		_, signed, _ := intInfo(t)
		if (signed && i < 0) || uint64(i) >= uint64(n) {
			panic(rtPanicMsg(fmt.Sprintf("index out of range [%d] with length %d", i, n)))
		}
		return int(i)
	case *Term:
		// in range?
		w := i.W
		inRange := m.pool.BvCmp("bvult", i, m.pool.ConstU(uint64(n), w))
		if n == 0 || !m.branch(fr, inRange, "index-in-range") {
			panic(rtPanicMsg(fmt.Sprintf("index out of range [symbolic] with length %d", n)))
		}
		return int(m.concretize(fr, i, "index"))
	}
	panic(fmt.Sprintf("index: %T", idx))
}

func (m *Machine) sliceOp(fr *frame, instr *ssa.Slice, x, lo, hi, max Value) Value {
	var Len, Cap int
	var elems []Value
	isStr := false
	switch x := x.(type) {
	case string:
		Len, Cap, isStr = len(x), len(x), true
	case *SymStr:
		elems = strBytes(x)
		Len, Cap, isStr = len(elems), len(elems), true
	case Slice:
		elems, Len, Cap = x, len(x), cap(x)
	case *Value:
		if x == nil {
			panic(rtPanicMsg("invalid memory address or nil pointer dereference"))
		}
		a := (*x).(Array)
		elems, Len, Cap = a, len(a), len(a)
	default:
		panic(fmt.Sprintf("slice of %T", x))
	}
	l := 0
	if lo != nil {
		l = int(m.concBound(fr, lo, "slice low"))
	}
	h := Len
	if hi != nil {
		h = int(m.concBound(fr, hi, "slice high"))
	}
	mx := Cap
	if max != nil {
		mx = int(m.concBound(fr, max, "slice max"))
	}
	if l < 0 || l > h || h > mx || mx > Cap {
		panic(rtPanicMsg(fmt.Sprintf("slice bounds out of range [%d:%d:%d] with capacity %d", l, h, mx, Cap)))
	}
	if isStr {
		if s, ok := x.(string); ok {
			return s[l:h]
		}
		return mkStr(elems[l:h])
	}
	if sl, ok := x.(Slice); ok && sl == nil {
		return Slice(nil)
	}
	return Slice(elems[l:h:mx])
}

// concBound concretises a slice bound; negative/huge symbolic bounds become one out-of-range representative.
func (m *Machine) concBound(fr *frame, v Value, what string) int64 {
	switch v := v.(type) {
	case int64:
		return v
	case *Term:
		return m.concretize(fr, v, what)
	}
	panic(fmt.Sprintf("concBound: %T", v))
}

func (m *Machine) typeAssert(instr *ssa.TypeAssert, itf Iface) Value {
	var v Value
	err := ""
	if idst, ok := instr.AssertedType.Underlying().(*types.Interface); ok {
		v = itf
		if itf.T == nil {
			err = fmt.Sprintf("interface conversion: interface is nil, not %s", instr.AssertedType)
		} else if meth, _ := types.MissingMethod(itf.T, idst, true); meth != nil {
			err = fmt.Sprintf("interface conversion: %v is not %v: missing method %s", itf.T, idst, meth.Name())
		}
	} else {
		v = itf.V
		if itf.T == nil {
			err = fmt.Sprintf("interface conversion: interface is nil, not %s", instr.AssertedType)
		} else if !types.Identical(itf.T, instr.AssertedType) {
			err = fmt.Sprintf("interface conversion: interface is %s, not %s", itf.T, instr.AssertedType)
		}
	}
	if err != "" {
		if !instr.CommaOk {
			panic(rtPanicMsg(err))
		}
		return Tuple{zero(instr.AssertedType), false}
	}
	if instr.CommaOk {
		return Tuple{v, true}
	}
	return v
}

func (m *Machine) prepareCall(fr *frame, call *ssa.CallCommon) (fn Value, args []Value) {
	v := fr.get(call.Value)
	if call.Method == nil {
		fn = v
	} else {
		recv, ok := v.(Iface)
		if !ok {
			panic(fmt.Sprintf("invoke on %T", v))
		}
		if recv.T == nil {
			panic(rtPanicMsg("invalid memory address or nil pointer dereference (method call on nil interface)"))
		}
		f := m.lookupMethod(recv.T, call.Method)
		if f == nil {
			panic(fmt.Sprintf("method set for dynamic type %v does not contain %s", recv.T, call.Method))
		}
		fn = f
		args = append(args, recv.V)
	}
	for _, a := range call.Args {
		args = append(args, fr.get(a))
	}
	return
}

func (m *Machine) lenientCall(fr *frame, instr *ssa.Call, fn Value, args []Value) (res Value) {
	// package initialisers of other packages are triggered lazily
	if f, ok := fn.(*ssa.Function); ok && f.Name() == "init" && f.Synthetic != "" && f.Pkg != fr.fn.Pkg {
		return nil
	}
	defer func() {
		if r := recover(); r != nil {
			if pe, ok := r.(pathEnd); ok && pe.kind != "unsupported" && pe.kind != "engine" {
				panic(pe)
			}
			m.initSkips++
			if m.opts.Verbose {
				fmt.Fprintf(os.Stderr, "init(%s): skipped call %s: %v\n", fr.fn.Pkg.Pkg.Path(), instr, r)
			}
			res = bad{}
		}
	}()
	return m.call(fr, instr.Pos(), fn, args)
}

func (m *Machine) call(caller *frame, pos token.Pos, fn Value, args []Value) Value {
	switch fn := fn.(type) {
	case *ssa.Function:
		if fn == nil {
			panic(rtPanicMsg("call of nil function"))
		}
		return m.callSSA(caller, pos, fn, args, nil)
	case *Closure:
		return m.callSSA(caller, pos, fn.Fn, args, fn.Env)
	case *ssa.Builtin:
		return m.callBuiltin(caller, pos, fn, args)
	case *Native:
		return fn.Fn(caller, args)
	case nil:
		panic(rtPanicMsg("invalid memory address or nil pointer dereference (call of nil func)"))
	}
	panic(fmt.Sprintf("cannot call %T", fn))
}

func (m *Machine) pos(p token.Pos) string {
	if p == token.NoPos {
		return "?"
	}
	ps := m.prog.Fset.Position(p)
	return fmt.Sprintf("%s:%d", strings.TrimPrefix(ps.Filename, m.opts.RepoRoot+"/"), ps.Line)
}

var fnKeyCache sync.Map

func fnKey(fn *ssa.Function) string {
	if k, ok := fnKeyCache.Load(fn); ok {
		return k.(string)
	}
	var k string
	if o := fn.Origin(); o != nil {
		k = o.String()
	} else {
		k = fn.String()
	}
	fnKeyCache.Store(fn, k)
	return k
}

// Packages whose package-level variables are immutable tables or sentinel values: they are
// initialised once per worker and their cells shared by all paths.
var sharedInitPkgs = map[string]bool{
	"unicode": true, "unicode/utf8": true, "strconv": true, "math": true, "math/bits": true, "errors": true,
	"io": true, "io/fs": true, "internal/oserror": true, "encoding/binary": true, "encoding/hex": true,
	"encoding/base64": true, "hash/crc32": true, "sort": true, "strings": true, "bytes": true, "bufio": true,
	"unicode/utf16": true, "path/filepath": true, "path": true, "syscall": true, "context": true,
}

// fallThrough is returned by an intrinsic that declines: the function's own body is executed.
type fallThrough struct{}

func (m *Machine) callSSA(caller *frame, pos token.Pos, fn *ssa.Function, args []Value, env []Value) Value {
	depth := 0
	var g *Goroutine
	if caller != nil {
		depth = caller.depth + 1
		g = caller.g
	}
	if depth > m.opts.MaxDepth {
		panic(pathEnd{kind: "steps", msg: "call depth exceeded in " + fn.String()})
	}
	fr := &frame{m: m, g: g, caller: caller, fn: fn, depth: depth}
	if fn.Parent() == nil {
		name := fnKey(fn)
		if st, ok := m.stubs[name]; ok {
			m.stubHits[name]++
			return m.call(caller, pos, st, args)
		}
		if ext, ok := intrinsics[name]; ok {
			if r := ext(m, fr, args); r != (fallThrough{}) {
				m.intrinsicHits[name]++
				return r
			}
		}
		if isSovFunc(fn) {
			m.intrinsicHits["<pkg>.sov*"]++
			return sovIntrinsic(m, fr, args)
		}
		if fn.Blocks == nil {
			panic(pathEnd{kind: "unsupported", msg: "no Go body for " + name + " (called at " + m.pos(pos) + ")"})
		}
	}
	if fn.TypeParams().Len() > 0 && len(fn.TypeArgs()) == 0 {
		panic(pathEnd{kind: "unsupported", msg: "uninstantiated generic " + fn.String()})
	}
	if fn.Blocks == nil {
		panic(pathEnd{kind: "unsupported", msg: "no Go body for " + fn.String()})
	}
	m.touch(fn)
	fr.env = make(map[ssa.Value]Value, 16)
	fr.block = fn.Blocks[0]
	for _, l := range fn.Locals {
		cell := new(Value)
		*cell = zero(deref(l.Type()))
		fr.env[l] = cell
	}
	for i, p := range fn.Params {
		fr.env[p] = args[i]
	}
	for i, fv := range fn.FreeVars {
		fr.env[fv] = env[i]
	}
	for fr.block != nil {
		m.runFrame(fr)
	}
	return fr.result
}

func (m *Machine) runFrame(fr *frame) {
	defer func() {
		if fr.block == nil {
			return // normal return
		}
		r := recover()
		switch r := r.(type) {
		case pathEnd:
			panic(r)
		case targetPanic:
		default:
			// engine bug or unmodelled situation: end the path, never count as success
			panic(pathEnd{kind: "engine", msg: fmt.Sprintf("%v in %s\n%s", r, fr.fn, trimStack(debug.Stack()))})
		}
		if tp, ok := r.(targetPanic); ok && tp.where == "" {
			tp.where = m.whereAmI()
			r = tp
		}
		fr.panicking = true
		fr.panic = r
		fr.runDefers()
		fr.block = fr.fn.Recover
		if fr.block == nil {
			// no named results: return zero value(s)
			fr.result = zero(fr.fn.Signature.Results())
			if fr.fn.Signature.Results().Len() == 0 {
				fr.result = nil
			}
		}
	}()
	for {
		nonPhis := m.executePhis(fr)
		for _, instr := range nonPhis {
			if m.opts.Trace {
				if v, ok := instr.(ssa.Value); ok {
					fmt.Fprintf(os.Stderr, "%s\t%s = %s\n", fr.fn.Name(), v.Name(), instr)
				} else {
					fmt.Fprintf(os.Stderr, "%s\t%s\n", fr.fn.Name(), instr)
				}
			}
			if m.visitInstr(fr, instr) == kReturn {
				return
			}
		}
	}
}

func trimStack(b []byte) string {
	lines := strings.Split(string(b), "\n")
	if len(lines) > 24 {
		lines = lines[:24]
	}
	return strings.Join(lines, "\n")
}

func (m *Machine) executePhis(fr *frame) []ssa.Instruction {
	firstNonPhi := -1
	for i, instr := range fr.block.Instrs {
		if _, ok := instr.(*ssa.Phi); !ok {
			firstNonPhi = i
			break
		}
	}
	nonPhis := fr.block.Instrs[firstNonPhi:]
	if firstNonPhi > 0 {
		phis := fr.block.Instrs[:firstNonPhi]
		predIndex := -1
		for i, p := range fr.block.Preds {
			if p == fr.prevBlock {
				predIndex = i
				break
			}
		}
		fr.phitemps = fr.phitemps[:0]
		for _, phi := range phis {
			fr.phitemps = append(fr.phitemps, fr.get(phi.(*ssa.Phi).Edges[predIndex]))
		}
		for i, phi := range phis {
			fr.env[phi.(*ssa.Phi)] = fr.phitemps[i]
		}
	}
	return nonPhis
}

func (m *Machine) doRecover(caller *frame) Value {
	if caller != nil && !caller.panicking && caller.caller != nil && caller.caller.panicking {
		caller.caller.panicking = false
		p := caller.caller.panic
		caller.caller.panic = nil
		switch p := p.(type) {
		case targetPanic:
			return m.panicValue(p)
		default:
			panic(fmt.Sprintf("unexpected panic type %T in recover()", p))
		}
	}
	return Iface{}
}

// panicValue returns the interface value a recover() sees for p.
func (m *Machine) panicValue(p targetPanic) Value {
	if p.rt != "" {
		return Iface{T: m.runtimeErrorString, V: p.rt}
	}
	return p.v
}

// ---------------------------------------------------------------- globals and lazy package init

func (m *Machine) globalAddr(g *ssa.Global) *Value {
	if r, ok := m.globals[g]; ok {
		return r
	}
	m.ensureInit(g.Pkg)
	if r, ok := m.globals[g]; ok {
		return r
	}
	cell := new(Value)
	*cell = zero(deref(g.Type()))
	m.globals[g] = cell
	return cell
}

func (m *Machine) ensureInit(pkg *ssa.Package) {
	if pkg == nil || m.pkgInit[pkg] != 0 {
		return
	}
	m.pkgInit[pkg] = 1
	for _, mem := range pkg.Members {
		if g, ok := mem.(*ssa.Global); ok {
			cell := new(Value)
			*cell = zero(deref(g.Type()))
			m.globals[g] = cell
		}
	}
	if skipInit[pkg.Pkg.Path()] {
		m.pkgInit[pkg] = 2
		return
	}
	init := pkg.Func("init")
	if init != nil && init.Blocks != nil {
		saveSteps := m.steps
		fr := &frame{m: m, fn: init, lenient: true, g: m.curG}
		fr.env = make(map[ssa.Value]Value)
		fr.block = init.Blocks[0]
		func() {
			defer func() {
				if r := recover(); r != nil {
					if pe, ok := r.(pathEnd); ok && pe.kind != "unsupported" && pe.kind != "engine" {
						panic(pe)
					}
					m.initSkips++
					if m.opts.Verbose {
						fmt.Fprintf(os.Stderr, "init(%s) aborted: %v\n", pkg.Pkg.Path(), r)
					}
				}
			}()
			for fr.block != nil {
				m.runInitFrame(fr)
			}
		}()
		if os.Getenv("SYMGO_INITLOG") != "" {
			fmt.Fprintf(os.Stderr, "init %s: %d steps\n", pkg.Pkg.Path(), m.steps-saveSteps)
		}
		m.initSteps += m.steps - saveSteps
		m.steps = saveSteps
	}
	m.pkgInit[pkg] = 2
	if sharedInitPkgs[pkg.Pkg.Path()] {
		if m.sharedCells == nil {
			m.sharedCells = map[*ssa.Global]*Value{}
			m.sharedPkgs = map[*ssa.Package]bool{}
		}
		m.sharedPkgs[pkg] = true
		for _, mem := range pkg.Members {
			if g, ok := mem.(*ssa.Global); ok {
				m.sharedCells[g] = m.globals[g]
			}
		}
	}
}

// runInitFrame runs a synthetic package initialiser leniently: an instruction that cannot be
// executed poisons its result instead of ending the path.
func (m *Machine) runInitFrame(fr *frame) {
	for fr.block != nil {
		nonPhis := m.executePhis(fr)
		for _, instr := range nonPhis {
			cont := kNext
			func() {
				defer func() {
					if r := recover(); r != nil {
						if pe, ok := r.(pathEnd); ok && pe.kind != "unsupported" && pe.kind != "engine" {
							panic(pe)
						}
						m.initSkips++
						if m.opts.Verbose {
							fmt.Fprintf(os.Stderr, "init(%s): poisoned %s: %.200v\n", fr.fn.Pkg.Pkg.Path(), instr, r)
						}
						if v, ok := instr.(ssa.Value); ok {
							fr.env[v] = bad{}
						}
						switch instr.(type) {
						case *ssa.If, *ssa.Jump, *ssa.Return, *ssa.Panic:
							fr.block = nil // cannot continue this initialiser
							cont = kReturn
						}
					}
				}()
				cont = m.visitInstr(fr, instr)
			}()
			if cont == kReturn {
				return
			}
			if cont == kJump {
				break
			}
		}
	}
}
