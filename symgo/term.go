package main

// SMT terms: hash-consed per path, with constant folding and light algebraic simplification.
// Sort: W==0 => Bool, otherwise (_ BitVec W).

import (
	"crypto/sha256"
	"fmt"
	"math/big"
	"strconv"
	"strings"
)

type Term struct {
	Op   string  // "var", "const", or SMT operator name ("bvadd", "ite", "extract", ...)
	W    int     // 0 = Bool
	Args []*Term // children
	Name string  // for var: SMT name; for UF application: function name
	C    *big.Int // for const (BV value, or 0/1 for Bool)
	P1   int     // parameters for extract(hi,lo) / zero_extend(n) / sign_extend(n)
	P2   int
	id   int
	key  string
	emitted bool // (define-fun) already sent in this session
	vars     []*Term
	varsDone bool
	size int     // DAG-unaware size estimate
	sh     [16]byte // structural hash (independent of term ids), see structHash
	shDone bool
}

type TermPool struct {
	tab   map[string]*Term
	next  int
	vars  []*Term          // declared variables in creation order
	ufs   map[string]string // uf name -> declaration
	ufOrder []string
}

func NewTermPool() *TermPool {
	return &TermPool{tab: map[string]*Term{}, ufs: map[string]string{}}
}

var bigOne = big.NewInt(1)

func maskW(w int) *big.Int {
	m := new(big.Int).Lsh(bigOne, uint(w))
	return m.Sub(m, bigOne)
}

func (p *TermPool) intern(t *Term) *Term {
	var sb strings.Builder
	sb.WriteString(t.Op)
	sb.WriteByte('/')
	sb.WriteString(strconv.Itoa(t.W))
	if t.Name != "" {
		sb.WriteByte('/')
		sb.WriteString(t.Name)
	}
	if t.C != nil {
		sb.WriteByte('#')
		sb.WriteString(t.C.Text(16))
	}
	if t.P1 != 0 || t.P2 != 0 {
		fmt.Fprintf(&sb, "[%d,%d]", t.P1, t.P2)
	}
	for _, a := range t.Args {
		sb.WriteByte(' ')
		sb.WriteString(strconv.Itoa(a.id))
	}
	k := sb.String()
	if old, ok := p.tab[k]; ok {
		return old
	}
	p.next++
	t.id = p.next
	t.key = k
	t.size = 1
	for _, a := range t.Args {
		t.size += a.size
		if t.size > 1<<30 {
			t.size = 1 << 30
		}
	}
	p.tab[k] = t
	return t
}

func (p *TermPool) Var(name string, w int) *Term {
	t := &Term{Op: "var", W: w, Name: name}
	n := len(p.tab)
	r := p.intern(t)
	if len(p.tab) != n {
		p.vars = append(p.vars, r)
	}
	return r
}

func (p *TermPool) ConstBV(v *big.Int, w int) *Term {
	c := new(big.Int).And(v, maskW(w))
	return p.intern(&Term{Op: "const", W: w, C: c})
}

func (p *TermPool) ConstU(v uint64, w int) *Term {
	return p.ConstBV(new(big.Int).SetUint64(v), w)
}

func (p *TermPool) Bool(b bool) *Term {
	c := big.NewInt(0)
	if b {
		c = big.NewInt(1)
	}
	return p.intern(&Term{Op: "const", W: 0, C: c})
}

func (t *Term) IsConst() bool { return t.Op == "const" }
func (t *Term) IsTrue() bool  { return t.Op == "const" && t.W == 0 && t.C.Sign() != 0 }
func (t *Term) IsFalse() bool { return t.Op == "const" && t.W == 0 && t.C.Sign() == 0 }

func toSigned(v *big.Int, w int) *big.Int {
	r := new(big.Int).Set(v)
	if r.Bit(w-1) == 1 {
		r.Sub(r, new(big.Int).Lsh(bigOne, uint(w)))
	}
	return r
}

// ---------- Boolean constructors

func (p *TermPool) Not(a *Term) *Term {
	if a.IsConst() {
		return p.Bool(a.C.Sign() == 0)
	}
	if a.Op == "not" {
		return a.Args[0]
	}
	return p.intern(&Term{Op: "not", Args: []*Term{a}})
}

func (p *TermPool) And(a, b *Term) *Term {
	if a.IsConst() {
		if a.IsTrue() {
			return b
		}
		return a
	}
	if b.IsConst() {
		if b.IsTrue() {
			return a
		}
		return b
	}
	if a == b {
		return a
	}
	return p.intern(&Term{Op: "and", Args: []*Term{a, b}})
}

func (p *TermPool) Or(a, b *Term) *Term {
	if a.IsConst() {
		if a.IsTrue() {
			return a
		}
		return b
	}
	if b.IsConst() {
		if b.IsTrue() {
			return b
		}
		return a
	}
	if a == b {
		return a
	}
	return p.intern(&Term{Op: "or", Args: []*Term{a, b}})
}

func (p *TermPool) Implies(a, b *Term) *Term { return p.Or(p.Not(a), b) }

func (p *TermPool) Eq(a, b *Term) *Term {
	if a.W != b.W {
		panic(fmt.Sprintf("Eq: width mismatch %d vs %d", a.W, b.W))
	}
	if a == b {
		return p.Bool(true)
	}
	if a.IsConst() && b.IsConst() {
		return p.Bool(a.C.Cmp(b.C) == 0)
	}
	if a.W == 0 {
		if a.IsConst() {
			if a.IsTrue() {
				return b
			}
			return p.Not(b)
		}
		if b.IsConst() {
			if b.IsTrue() {
				return a
			}
			return p.Not(a)
		}
	}
	if a.id > b.id {
		a, b = b, a
	}
	return p.intern(&Term{Op: "=", Args: []*Term{a, b}})
}

func (p *TermPool) Ite(c, a, b *Term) *Term {
	if c.IsConst() {
		if c.IsTrue() {
			return a
		}
		return b
	}
	if a == b {
		return a
	}
	if a.W == 0 && a.IsConst() && b.IsConst() {
		if a.IsTrue() {
			return c
		}
		return p.Not(c)
	}
	return p.intern(&Term{Op: "ite", W: a.W, Args: []*Term{c, a, b}})
}

// ---------- BV constructors

func (p *TermPool) BvBin(op string, a, b *Term) *Term {
	if a.W != b.W || a.W == 0 {
		panic(fmt.Sprintf("BvBin %s: widths %d %d", op, a.W, b.W))
	}
	w := a.W
	if a.IsConst() && b.IsConst() {
		if r, ok := foldBin(op, a.C, b.C, w); ok {
			return p.ConstBV(r, w)
		}
	}
	// identities
	switch op {
	case "bvadd":
		if a.IsConst() && a.C.Sign() == 0 {
			return b
		}
		if b.IsConst() && b.C.Sign() == 0 {
			return a
		}
	case "bvsub":
		if b.IsConst() && b.C.Sign() == 0 {
			return a
		}
		if a == b {
			return p.ConstU(0, w)
		}
	case "bvmul":
		if a.IsConst() {
			a, b = b, a
		}
		if b.IsConst() {
			if b.C.Sign() == 0 {
				return b
			}
			if b.C.Cmp(bigOne) == 0 {
				return a
			}
		}
	case "bvand":
		if a.IsConst() {
			a, b = b, a
		}
		if b.IsConst() {
			if b.C.Sign() == 0 {
				return b
			}
			if b.C.Cmp(maskW(w)) == 0 {
				return a
			}
			// mask of low k bits on a zero-extended narrower value
			if a.Op == "zero_extend" {
				inner := a.Args[0]
				if b.C.Cmp(maskW(inner.W)) >= 0 && new(big.Int).And(b.C, maskW(inner.W)).Cmp(maskW(inner.W)) == 0 {
					return a
				}
			}
		}
		if a == b {
			return a
		}
	case "bvor", "bvxor":
		if a.IsConst() {
			a, b = b, a
		}
		if b.IsConst() && b.C.Sign() == 0 {
			return a
		}
		if a == b {
			if op == "bvor" {
				return a
			}
			return p.ConstU(0, w)
		}
	case "bvshl", "bvlshr", "bvashr":
		if b.IsConst() && b.C.Sign() == 0 {
			return a
		}
		if a.IsConst() && a.C.Sign() == 0 {
			return a
		}
		if b.IsConst() && op != "bvashr" && b.C.Cmp(big.NewInt(int64(w))) >= 0 {
			return p.ConstU(0, w)
		}
		// (x zero-extended from k bits) >> c with c>=k  => 0
		if op == "bvlshr" && b.IsConst() && a.Op == "zero_extend" && b.C.Cmp(big.NewInt(int64(a.Args[0].W))) >= 0 {
			return p.ConstU(0, w)
		}
	}
	return p.intern(&Term{Op: op, W: w, Args: []*Term{a, b}})
}

func foldBin(op string, x, y *big.Int, w int) (*big.Int, bool) {
	r := new(big.Int)
	switch op {
	case "bvadd":
		r.Add(x, y)
	case "bvsub":
		r.Sub(x, y)
	case "bvmul":
		r.Mul(x, y)
	case "bvand":
		r.And(x, y)
	case "bvor":
		r.Or(x, y)
	case "bvxor":
		r.Xor(x, y)
	case "bvudiv":
		if y.Sign() == 0 {
			return maskW(w), true
		}
		r.Div(x, y)
	case "bvurem":
		if y.Sign() == 0 {
			return x, true
		}
		r.Mod(x, y)
	case "bvsdiv":
		if y.Sign() == 0 {
			return nil, false
		}
		r.Quo(toSigned(x, w), toSigned(y, w))
	case "bvsrem":
		if y.Sign() == 0 {
			return nil, false
		}
		r.Rem(toSigned(x, w), toSigned(y, w))
	case "bvshl":
		if y.Cmp(big.NewInt(int64(w))) >= 0 {
			return big.NewInt(0), true
		}
		r.Lsh(x, uint(y.Uint64()))
	case "bvlshr":
		if y.Cmp(big.NewInt(int64(w))) >= 0 {
			return big.NewInt(0), true
		}
		r.Rsh(x, uint(y.Uint64()))
	case "bvashr":
		s := toSigned(x, w)
		sh := uint(w)
		if y.Cmp(big.NewInt(int64(w))) < 0 {
			sh = uint(y.Uint64())
		}
		r.Rsh(s, sh)
	default:
		return nil, false
	}
	return r.And(r, maskW(w)), true
}

func (p *TermPool) BvCmp(op string, a, b *Term) *Term {
	if a.W != b.W || a.W == 0 {
		panic(fmt.Sprintf("BvCmp %s: widths %d %d", op, a.W, b.W))
	}
	if a.IsConst() && b.IsConst() {
		var c int
		if op[2] == 's' {
			c = toSigned(a.C, a.W).Cmp(toSigned(b.C, b.W))
		} else {
			c = a.C.Cmp(b.C)
		}
		switch op[3:] {
		case "lt":
			return p.Bool(c < 0)
		case "le":
			return p.Bool(c <= 0)
		case "gt":
			return p.Bool(c > 0)
		case "ge":
			return p.Bool(c >= 0)
		}
	}
	if a == b {
		return p.Bool(op[3:] == "le" || op[3:] == "ge")
	}
	// unsigned comparisons of zero-extended values against constants out of range
	if op[2] == 'u' && a.Op == "zero_extend" && b.IsConst() {
		lim := maskW(a.Args[0].W)
		if b.C.Cmp(lim) > 0 {
			switch op[3:] {
			case "lt", "le":
				return p.Bool(true)
			case "gt", "ge":
				return p.Bool(false)
			}
		}
	}
	return p.intern(&Term{Op: op, W: 0, Args: []*Term{a, b}})
}

func (p *TermPool) BvNot(a *Term) *Term {
	if a.IsConst() {
		return p.ConstBV(new(big.Int).Xor(a.C, maskW(a.W)), a.W)
	}
	return p.intern(&Term{Op: "bvnot", W: a.W, Args: []*Term{a}})
}

func (p *TermPool) BvNeg(a *Term) *Term {
	if a.IsConst() {
		return p.ConstBV(new(big.Int).Neg(a.C), a.W)
	}
	return p.intern(&Term{Op: "bvneg", W: a.W, Args: []*Term{a}})
}

func (p *TermPool) Extract(hi, lo int, a *Term) *Term {
	if lo == 0 && hi == a.W-1 {
		return a
	}
	if a.IsConst() {
		r := new(big.Int).Rsh(a.C, uint(lo))
		return p.ConstBV(r, hi-lo+1)
	}
	switch a.Op {
	case "zero_extend", "sign_extend":
		in := a.Args[0]
		if hi < in.W {
			return p.Extract(hi, lo, in)
		}
		if a.Op == "zero_extend" && lo >= in.W {
			return p.ConstU(0, hi-lo+1)
		}
	case "concat":
		lowW := a.Args[1].W
		if hi < lowW {
			return p.Extract(hi, lo, a.Args[1])
		}
		if lo >= lowW {
			return p.Extract(hi-lowW, lo-lowW, a.Args[0])
		}
	case "extract":
		return p.Extract(hi+a.P2, lo+a.P2, a.Args[0])
	}
	return p.intern(&Term{Op: "extract", W: hi - lo + 1, Args: []*Term{a}, P1: hi, P2: lo})
}

func (p *TermPool) ZeroExt(a *Term, to int) *Term {
	if to == a.W {
		return a
	}
	if to < a.W {
		return p.Extract(to-1, 0, a)
	}
	if a.IsConst() {
		return p.ConstBV(a.C, to)
	}
	if a.Op == "zero_extend" {
		return p.ZeroExt(a.Args[0], to)
	}
	return p.intern(&Term{Op: "zero_extend", W: to, Args: []*Term{a}, P1: to - a.W})
}

func (p *TermPool) SignExt(a *Term, to int) *Term {
	if to == a.W {
		return a
	}
	if to < a.W {
		return p.Extract(to-1, 0, a)
	}
	if a.IsConst() {
		return p.ConstBV(toSigned(a.C, a.W), to)
	}
	if a.Op == "zero_extend" { // top bit known zero
		return p.ZeroExt(a.Args[0], to)
	}
	return p.intern(&Term{Op: "sign_extend", W: to, Args: []*Term{a}, P1: to - a.W})
}

func (p *TermPool) Concat(hi, lo *Term) *Term {
	if hi.IsConst() && lo.IsConst() {
		r := new(big.Int).Lsh(hi.C, uint(lo.W))
		r.Or(r, lo.C)
		return p.ConstBV(r, hi.W+lo.W)
	}
	// concat(extract(h,m+1,x), extract(m,l,x)) = extract(h,l,x)
	if hi.Op == "extract" && lo.Op == "extract" && hi.Args[0] == lo.Args[0] && hi.P2 == lo.P1+1 {
		return p.Extract(hi.P1, lo.P2, hi.Args[0])
	}
	return p.intern(&Term{Op: "concat", W: hi.W + lo.W, Args: []*Term{hi, lo}})
}

// UF application. sig is e.g. "((_ BitVec 8) (_ BitVec 8)) (_ BitVec 32)".
func (p *TermPool) App(name string, w int, args ...*Term) *Term {
	if _, ok := p.ufs[name]; !ok {
		var sb strings.Builder
		sb.WriteString("(")
		for i, a := range args {
			if i > 0 {
				sb.WriteByte(' ')
			}
			sb.WriteString(sortStr(a.W))
		}
		sb.WriteString(") ")
		sb.WriteString(sortStr(w))
		p.ufs[name] = sb.String()
		p.ufOrder = append(p.ufOrder, name)
	}
	return p.intern(&Term{Op: "app", W: w, Name: name, Args: args})
}

func sortStr(w int) string {
	if w == 0 {
		return "Bool"
	}
	return fmt.Sprintf("(_ BitVec %d)", w)
}

// ---------- serialisation

func (t *Term) constStr() string {
	if t.W == 0 {
		if t.C.Sign() != 0 {
			return "true"
		}
		return "false"
	}
	if t.W%4 == 0 {
		s := t.C.Text(16)
		return "#x" + strings.Repeat("0", t.W/4-len(s)) + s
	}
	s := t.C.Text(2)
	return "#b" + strings.Repeat("0", t.W-len(s)) + s
}

func (t *Term) ref() string {
	switch t.Op {
	case "const":
		return t.constStr()
	case "var":
		return t.Name
	}
	return "t!" + strconv.Itoa(t.id)
}

func (t *Term) body() string {
	var sb strings.Builder
	sb.WriteByte('(')
	switch t.Op {
	case "extract":
		fmt.Fprintf(&sb, "(_ extract %d %d)", t.P1, t.P2)
	case "zero_extend", "sign_extend":
		fmt.Fprintf(&sb, "(_ %s %d)", t.Op, t.P1)
	case "app":
		sb.WriteString(t.Name)
	default:
		sb.WriteString(t.Op)
	}
	for _, a := range t.Args {
		sb.WriteByte(' ')
		sb.WriteString(a.ref())
	}
	sb.WriteByte(')')
	return sb.String()
}

// Eval evaluates t under a model of its variables (all variables must be present; UF apps use ufval).
func (t *Term) Eval(m map[string]*big.Int, memo map[int]*big.Int, uf func(*Term, []*big.Int) *big.Int) *big.Int {
	if v, ok := memo[t.id]; ok {
		return v
	}
	var r *big.Int
	switch t.Op {
	case "const":
		r = t.C
	case "var":
		v, ok := m[t.Name]
		if !ok {
			v = big.NewInt(0)
		}
		r = v
	default:
		av := make([]*big.Int, len(t.Args))
		for i, a := range t.Args {
			av[i] = a.Eval(m, memo, uf)
		}
		b := func(x bool) *big.Int {
			if x {
				return big.NewInt(1)
			}
			return big.NewInt(0)
		}
		switch t.Op {
		case "not":
			r = b(av[0].Sign() == 0)
		case "and":
			r = b(av[0].Sign() != 0 && av[1].Sign() != 0)
		case "or":
			r = b(av[0].Sign() != 0 || av[1].Sign() != 0)
		case "=":
			r = b(av[0].Cmp(av[1]) == 0)
		case "ite":
			if av[0].Sign() != 0 {
				r = av[1]
			} else {
				r = av[2]
			}
		case "bvnot":
			r = new(big.Int).Xor(av[0], maskW(t.W))
		case "bvneg":
			r = new(big.Int).Neg(av[0])
			r.And(r, maskW(t.W))
		case "extract":
			r = new(big.Int).Rsh(av[0], uint(t.P2))
			r.And(r, maskW(t.W))
		case "zero_extend":
			r = av[0]
		case "sign_extend":
			r = new(big.Int).And(toSigned(av[0], t.Args[0].W), maskW(t.W))
		case "concat":
			r = new(big.Int).Lsh(av[0], uint(t.Args[1].W))
			r.Or(r, av[1])
		case "app":
			r = uf(t, av)
		case "bvult", "bvule", "bvugt", "bvuge", "bvslt", "bvsle", "bvsgt", "bvsge":
			var c int
			if t.Op[2] == 's' {
				c = toSigned(av[0], t.Args[0].W).Cmp(toSigned(av[1], t.Args[0].W))
			} else {
				c = av[0].Cmp(av[1])
			}
			switch t.Op[3:] {
			case "lt":
				r = b(c < 0)
			case "le":
				r = b(c <= 0)
			case "gt":
				r = b(c > 0)
			case "ge":
				r = b(c >= 0)
			}
		default:
			w := t.W
			if f, ok := foldBin(t.Op, av[0], av[1], w); ok {
				r = f
			} else if t.Op == "bvsdiv" { // division by zero per SMT-LIB
				if toSigned(av[0], w).Sign() < 0 {
					r = big.NewInt(1)
				} else {
					r = maskW(w)
				}
			} else if t.Op == "bvsrem" {
				r = av[0]
			} else {
				panic("Eval: unknown op " + t.Op)
			}
		}
	}
	memo[t.id] = r
	return r
}


// structHash is a 128-bit hash of the term's structure that does not depend on pool-local ids, so
// that equal queries raised on different paths and by different workers get the same key.
func (t *Term) structHash() [16]byte {
	if t.shDone {
		return t.sh
	}
	// iterative post-order
	stack := []*Term{t}
	for len(stack) > 0 {
		x := stack[len(stack)-1]
		if x.shDone {
			stack = stack[:len(stack)-1]
			continue
		}
		ready := true
		for _, a := range x.Args {
			if !a.shDone {
				stack = append(stack, a)
				ready = false
			}
		}
		if !ready {
			continue
		}
		stack = stack[:len(stack)-1]
		h := sha256.New()
		fmt.Fprintf(h, "%s|%d|%s|%d|%d|", x.Op, x.W, x.Name, x.P1, x.P2)
		if x.C != nil {
			h.Write(x.C.Bytes())
			if x.C.Sign() < 0 {
				h.Write([]byte{'-'})
			}
		}
		h.Write([]byte{'|'})
		for _, a := range x.Args {
			h.Write(a.sh[:])
		}
		copy(x.sh[:], h.Sum(nil))
		x.shDone = true
	}
	return t.sh
}
