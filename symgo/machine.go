package main

// Machine: per-harness exploration state. Re-execution DFS over a stack of decisions.

import (
	"fmt"
	"go/types"
	"math/big"
	"os"
	"sort"
	"strings"
	"sync"
	"time"

	"golang.org/x/tools/go/ssa"
)

type Options struct {
	RepoRoot      string
	MaxSteps      int64
	MaxDepth      int
	MaxAlloc      int64
	Unwind        int   // symbolic decisions per branch instruction per frame
	ConcCap       int   // max values enumerated by one concretisation
	MaxPaths      int
	MaxGoroutines int
	MaxSwitches   int
	MaxTimerFires int
	MapOrder      bool
	MapOrderMax   int
	SelectNondet  bool
	SchedNondet   bool
	Preempt       int
	NoTimers      bool
	Verbose       bool
	Trace         bool
	TimeoutMs     int
	FallbackMs    int
	Deadline      time.Time
	Prefix        []int // decision prefix owned by this worker (for parallel split)
}

func defaultOptions() Options {
	return Options{
		RepoRoot: "/repo", MaxSteps: 20_000_000, MaxDepth: 400, MaxAlloc: 1 << 22, Unwind: 64, ConcCap: 64,
		MaxPaths: 200000, MaxGoroutines: 8, MaxSwitches: 256, MaxTimerFires: 64, MapOrderMax: 4,
		TimeoutMs: 10000, FallbackMs: 20000,
	}
}

type decision struct {
	kind   string
	chosen int
	n      int     // number of alternatives (for enumerations: -1 = open ended)
	tested bool    // feasibility of `chosen` established
	vals   []int64 // concretisation: values found so far (chosen indexes into it)
	forced bool    // other alternative known infeasible
}

type inputVar struct {
	Name string
	W    int
	Kind string
}

type hashApp struct {
	in   []Value // input bytes
	out  []Value // output bytes (terms/concrete)
	outT *Term   // whole output as one term (nil if concrete)
	inT  *Term
	kind string
	conc bool
}

type sigRecord struct {
	pk, msg, sig []Value
	valid        Value // bool or *Term
}

type Violation struct {
	ID      string                 `json:"id"`
	Msg     string                 `json:"msg"`
	Pos     string                 `json:"pos"`
	Kind    string                 `json:"kind"`
	Model   map[string]string      `json:"model"`
	Choices []int                  `json:"choices"`
	Decisions string               `json:"decisions"`
	Inputs  []inputVar             `json:"inputs"`
	Extra   map[string]interface{} `json:"extra,omitempty"`
}

type PathSample struct {
	Decisions string            `json:"decisions"`
	End       string            `json:"end"`
	PCSize    int               `json:"pc_conjuncts"`
	Model     map[string]string `json:"model,omitempty"`
	Reached   []string          `json:"reached,omitempty"`
}

type Result struct {
	Harness        string         `json:"harness"`
	Paths          int            `json:"paths"`
	PathsDone      int            `json:"paths_done"`
	Decisions      int            `json:"decisions"`
	Ends           map[string]int `json:"ends"`
	AssertChecks   int            `json:"assert_checks"`
	AssertsProved  int            `json:"asserts_proved"`
	AssertsConcrete int           `json:"asserts_concrete"`
	Undischarged   map[string]int `json:"undischarged"`
	UndischargedMsgs []string     `json:"undischarged_msgs,omitempty"`
	Reached        map[string]int `json:"reached"`
	ExpectedReach  []string       `json:"expected_reach"`
	MissingReach   []string       `json:"missing_reach"`
	Violations     []Violation    `json:"violations"`
	Solver         SolverStats    `json:"solver"`
	Functions      []string       `json:"functions_encoded"`
	Intrinsics     map[string]int `json:"intrinsics_used"`
	Stubs          map[string]int `json:"stubs_used"`
	Samples        []PathSample   `json:"samples"`
	Bounds         map[string]interface{} `json:"bounds"`
	Steps          int64          `json:"ssa_instructions"`
	InitSkips      int            `json:"init_skips"`
	WallS          float64        `json:"wall_s"`
	KnownHits      map[string]int `json:"known_hits,omitempty"`
	Exhausted      bool           `json:"exhaustive_within_bounds"`
	Notes          []string       `json:"notes,omitempty"`
}

type Machine struct {
	prog               *ssa.Program
	opts               Options
	solver             *Solver
	pool               *TermPool
	runtimeErrorString types.Type

	// exploration
	stack []decision
	dpos  int

	// per path
	globals    map[*ssa.Global]*Value
	pkgInit    map[*ssa.Package]int
	pc         []*Term
	steps      int64
	initSteps  int64
	inputs     []inputVar
	nameCount  map[string]int
	choices    []int
	hashApps   []*hashApp
	sigs       []*sigRecord
	ptrBase    map[*Value][]Value
	side       map[interface{}]interface{} // side tables for intrinsics (sync.Map, hash states, files...)
	reachedNow []string
	assumeFail bool
	unwindCap  int

	// scheduler
	gs         []*Goroutine
	curG       *Goroutine
	wg         sync.WaitGroup
	aborting   bool
	pendingEnd *pathEnd
	switches   int
	preempts   int
	chanSeq    int
	timers     []*vtimer
	timerSeq   int
	timerFires int
	now        int64

	// harness-registered
	stubs map[string]Value

	// accumulated
	res           Result
	touched       map[*ssa.Function]bool
	intrinsicHits map[string]int
	stubHits      map[string]int
	initSkips     int
	known         []KnownFinding
	knownHit      map[string]int
	lastViolation *Violation
	endModel      map[string]string
	freshSeq, sigSeq, keySeq, hashSeq, fmtOpaque int
}

type KnownFinding struct {
	Property  string `json:"property"`
	Harness   string `json:"harness"`
	AssertID  string `json:"assert_id"`
	Desc      string `json:"desc"`
	Status    string `json:"status"` // "open" or "fixed"
}

func (m *Machine) touch(fn *ssa.Function) {
	if !m.touched[fn] {
		m.touched[fn] = true
	}
}

func (m *Machine) note(kind, msg string) {
	m.res.Undischarged[kind]++
	if len(m.res.UndischargedMsgs) < 40 {
		s := kind + ": " + msg
		for _, x := range m.res.UndischargedMsgs {
			if x == s {
				return
			}
		}
		m.res.UndischargedMsgs = append(m.res.UndischargedMsgs, s)
	}
}

// ---------------------------------------------------------------- decisions

// decide returns the alternative to take at this decision point. feasible may be nil (always feasible).
func (m *Machine) decide(kind string, n int, feasible func(i int) bool) int {
	if m.dpos < len(m.stack) {
		d := &m.stack[m.dpos]
		if d.kind != kind {
			panic(pathEnd{kind: "engine", msg: fmt.Sprintf("nondeterministic replay: decision %d is %s, recorded %s", m.dpos, kind, d.kind)})
		}
		if !d.tested {
			for d.chosen < d.n && feasible != nil && !feasible(d.chosen) {
				d.chosen++
			}
			if d.chosen >= d.n {
				m.stack = m.stack[:m.dpos]
				panic(pathEnd{kind: "infeasible"})
			}
			d.tested = true
		}
		m.dpos++
		return d.chosen
	}
	c := 0
	for c < n && feasible != nil && !feasible(c) {
		c++
	}
	if c >= n {
		panic(pathEnd{kind: "infeasible"})
	}
	m.stack = append(m.stack, decision{kind: kind, chosen: c, n: n, tested: true})
	m.dpos++
	m.res.Decisions++
	return c
}

func (m *Machine) backtrack() bool {
	for len(m.stack) > len(m.opts.Prefix) {
		d := &m.stack[len(m.stack)-1]
		if d.vals != nil || d.n < 0 {
			// open-ended enumeration: try for one more value
			if !d.forced {
				d.chosen++
				d.tested = false
				return true
			}
		} else if d.chosen+1 < d.n && !d.forced {
			d.chosen++
			d.tested = false
			return true
		}
		m.stack = m.stack[:len(m.stack)-1]
	}
	return false
}

func (m *Machine) assertPC(t *Term) {
	if t.IsTrue() {
		return
	}
	m.pc = append(m.pc, t)
	m.solver.Assert(t)
}

// branch forks on a symbolic condition and returns the side taken on this path.
func (m *Machine) branch(fr *frame, cond *Term, what string) bool {
	return m.branchAt(fr, nil, cond)
}

func (m *Machine) branchAt(fr *frame, instr ssa.Instruction, cond *Term) bool {
	if cond.IsConst() {
		return cond.IsTrue()
	}
	if instr != nil && fr != nil {
		if fr.symBranches == nil {
			fr.symBranches = map[ssa.Instruction]int{}
		}
		fr.symBranches[instr]++
		if fr.symBranches[instr] > m.unwindCap {
			panic(pathEnd{kind: "unwind", msg: fmt.Sprintf("more than %d symbolic iterations at %s", m.unwindCap, m.pos(instr.Pos()))})
		}
	}
	var c int
	if m.dpos < len(m.stack) && m.stack[m.dpos].tested {
		c = m.decide("br", 2, nil)
	} else {
		firstInfeasible := false
		c = m.decide("br", 2, func(i int) bool {
			if i == 0 {
				r, _ := m.solver.Check(cond, false)
				if r == Unknown {
					m.note("unknown_branch", "branch feasibility unknown; kept")
				}
				if r == Unsat {
					firstInfeasible = true
					return false
				}
				return true
			}
			if firstInfeasible {
				return true // the path condition is satisfiable, so the other side is
			}
			r, _ := m.solver.Check(m.pool.Not(cond), false)
			if r == Unknown {
				m.note("unknown_branch", "branch feasibility unknown; kept")
			}
			return r != Unsat
		})
		if firstInfeasible {
			m.stack[m.dpos-1].forced = true
		}
	}
	if c == 0 {
		m.assertPC(cond)
		return true
	}
	m.assertPC(m.pool.Not(cond))
	return false
}

// concretize forks over the feasible values of t (as a signed 64-bit number of its width).
func (m *Machine) concretize(fr *frame, t *Term, what string) int64 {
	if t.IsConst() {
		return canon(int64(t.C.Uint64()), t.W, true)
	}
	kind := "conc"
	var d *decision
	if m.dpos < len(m.stack) {
		d = &m.stack[m.dpos]
		if d.kind != kind {
			panic(pathEnd{kind: "engine", msg: fmt.Sprintf("nondeterministic replay: decision %d is conc, recorded %s", m.dpos, d.kind)})
		}
	} else {
		m.stack = append(m.stack, decision{kind: kind, chosen: 0, n: -1, tested: false, vals: []int64{}})
		d = &m.stack[len(m.stack)-1]
		m.res.Decisions++
	}
	if !d.tested {
		if d.chosen != len(d.vals) {
			panic("concretize: bad enumeration state")
		}
		if len(d.vals) >= m.opts.ConcCap {
			m.note("conc_cap", fmt.Sprintf("more than %d values for %s", m.opts.ConcCap, what))
			m.stack = m.stack[:m.dpos]
			panic(pathEnd{kind: "infeasible"})
		}
		// find a value different from all previous ones
		excl := m.pool.Bool(true)
		for _, v := range d.vals {
			excl = m.pool.And(excl, m.pool.Not(m.pool.Eq(t, m.pool.ConstU(uint64(v), t.W))))
		}
		r, val := m.solver.CheckValue(excl, t)
		if r != Sat {
			if r == Unknown {
				m.note("unknown_conc", "concretisation query unknown for "+what)
			}
			if len(d.vals) == 0 && r == Unsat {
				// path condition itself unsatisfiable?
			}
			m.stack = m.stack[:m.dpos]
			panic(pathEnd{kind: "infeasible"})
		}
		d.vals = append(d.vals, canon(int64(val.Uint64()), t.W, true))
		d.tested = true
	}
	v := d.vals[d.chosen]
	m.dpos++
	m.assertPC(m.pool.Eq(t, m.pool.ConstU(uint64(v), t.W)))
	return v
}

// CheckValue: satisfiability of PC ∧ extra together with the model value of t.
func (s *Solver) CheckValue(extra *Term, t *Term) (SatResult, *big.Int) {
	// Bind t to a fresh variable so that the generic model extraction returns it.
	name := fmt.Sprintf("cv!%d", t.id)
	v := s.pool.Var(name, t.W)
	bind := s.pool.Eq(v, t)
	q := bind
	if extra != nil {
		q = s.pool.And(bind, extra)
	}
	r, model := s.Check(q, true)
	if r != Sat {
		return r, nil
	}
	val, ok := model[name]
	if !ok {
		return Unknown, nil
	}
	return Sat, val
}

// ---------------------------------------------------------------- assertions

func (m *Machine) decisionString() string {
	var sb strings.Builder
	for i, d := range m.stack {
		if i >= m.dpos {
			break
		}
		if i > 0 {
			sb.WriteByte(' ')
		}
		if d.vals != nil {
			fmt.Fprintf(&sb, "%s=%d", d.kind, d.vals[d.chosen])
		} else {
			fmt.Fprintf(&sb, "%s:%d", d.kind, d.chosen)
		}
	}
	return sb.String()
}

func modelStrings(model map[string]*big.Int) map[string]string {
	r := map[string]string{}
	for k, v := range model {
		if strings.HasPrefix(k, "cv!") || strings.HasPrefix(k, "h!") {
			continue
		}
		r[k] = v.String()
	}
	return r
}

// checkAssert decides an assertion at the current point of the path.
func (m *Machine) checkAssert(fr *frame, cond Value, id, msg string, pos string) {
	m.res.AssertChecks++
	switch c := cond.(type) {
	case bool:
		m.res.AssertsConcrete++
		if c {
			return
		}
		// concrete failure on a feasible path: get a model of the path condition
		r, model := m.solver.Check(nil, true)
		if r != Sat {
			m.note("unknown_assert", "model for failing path unavailable: "+id)
			if r == Unsat {
				return
			}
		}
		m.violation(id, msg, pos, "assert", model)
	case *Term:
		r, model := m.solver.Check(m.pool.Not(c), true)
		switch r {
		case Unsat:
			m.res.AssertsProved++
			m.assertPC(c) // continue under the assertion
		case Sat:
			m.violation(id, msg, pos, "assert", model)
		default:
			m.note("unknown_assert", id)
			m.assertPC(c)
		}
	default:
		panic(fmt.Sprintf("Assert on %T", cond))
	}
}

func (m *Machine) violation(id, msg, pos, kind string, model map[string]*big.Int) {
	v := Violation{ID: id, Msg: msg, Pos: pos, Kind: kind, Model: modelStrings(model),
		Choices: append([]int{}, m.choices...), Decisions: m.decisionString(), Inputs: append([]inputVar{}, m.inputs...)}
	m.lastViolation = &v
	panic(pathEnd{kind: "violation", msg: id})
}

func (m *Machine) panicText(p targetPanic) string {
	if p.rt != "" {
		return "runtime error: " + p.rt
	}
	if itf, ok := p.v.(Iface); ok {
		if itf.T == nil {
			return "panic(nil)"
		}
		if s, ok := itf.V.(string); ok {
			return s
		}
		// error or Stringer: try Error()/String() concretely, best effort
		return m.describeIface(itf)
	}
	return valString(p.v)
}

func (m *Machine) describeIface(itf Iface) (s string) {
	defer func() {
		if r := recover(); r != nil {
			if pe, ok := r.(pathEnd); ok && pe.kind != "unsupported" && pe.kind != "engine" {
				panic(pe)
			}
			s = fmt.Sprintf("<%s>", itf.T)
		}
	}()
	for _, name := range []string{"Error", "String"} {
		ms := m.prog.MethodSets.MethodSet(itf.T)
		for i := 0; i < ms.Len(); i++ {
			sel := ms.At(i)
			if sel.Obj().Name() == name {
				fn := m.prog.MethodValue(sel)
				if fn != nil {
					r := m.call(&frame{m: m, g: m.curG}, 0, fn, []Value{itf.V})
					if str, ok := r.(string); ok {
						return fmt.Sprintf("%s: %s", itf.T, str)
					}
					return fmt.Sprintf("<%s: symbolic text>", itf.T)
				}
			}
		}
	}
	return fmt.Sprintf("<%s> %s", itf.T, valString(itf.V))
}

// ---------------------------------------------------------------- running

func sortedKeys(mm map[string]int) []string {
	var ks []string
	for k := range mm {
		ks = append(ks, k)
	}
	sort.Strings(ks)
	return ks
}

func (m *Machine) resetPath() {
	m.pool = NewTermPool()
	m.globals = map[*ssa.Global]*Value{}
	m.pkgInit = map[*ssa.Package]int{}
	m.pc = m.pc[:0]
	m.steps = 0
	m.inputs = nil
	m.nameCount = map[string]int{}
	m.choices = nil
	m.hashApps = nil
	m.sigs = nil
	m.ptrBase = map[*Value][]Value{}
	m.side = map[interface{}]interface{}{}
	m.reachedNow = nil
	m.dpos = 0
	m.gs = []*Goroutine{{id: 0, wake: make(chan struct{}, 1), fnName: "harness"}}
	m.curG = m.gs[0]
	m.aborting = false
	m.pendingEnd = nil
	m.switches, m.preempts = 0, 0
	m.chanSeq = 0
	m.timers = nil
	m.timerSeq, m.timerFires = 0, 0
	m.now = 1_600_000_000 * 1_000_000_000
	m.stubs = map[string]Value{}
	m.unwindCap = m.opts.Unwind
	m.lastViolation = nil
	m.freshSeq, m.sigSeq, m.keySeq, m.hashSeq = 0, 0, 0, 0
}

// runPath executes the harness once along the current decision stack.
func (m *Machine) runPath(entry *ssa.Function) (end pathEnd) {
	m.resetPath()
	m.solver.BeginPath(m.pool)
	defer func() {
		r := recover()
		m.killGoroutines()
		switch r := r.(type) {
		case nil:
			end = pathEnd{kind: "done"}
		case pathEnd:
			end = r
		case targetPanic:
			end = pathEnd{kind: "panic", msg: m.safePanicText(r)}
		default:
			end = pathEnd{kind: "engine", msg: fmt.Sprint(r)}
		}
		m.endModel = nil
		if end.kind == "panic" {
			if res, model := m.solver.Check(nil, true); res == Sat {
				m.endModel = modelStrings(model)
			}
		}
		m.solver.EndPath()
	}()
	root := &frame{m: m, g: m.curG}
	m.call(root, entry.Pos(), entry, nil)
	return
}

func (m *Machine) safePanicText(p targetPanic) (s string) {
	defer func() {
		if r := recover(); r != nil {
			s = "<panic text unavailable>"
		}
	}()
	return m.panicText(p)
}

func (m *Machine) explore(entry *ssa.Function, name string) *Result {
	t0 := time.Now()
	m.res = Result{Harness: name, Ends: map[string]int{}, Undischarged: map[string]int{}, Reached: map[string]int{}}
	m.touched = map[*ssa.Function]bool{}
	m.intrinsicHits = map[string]int{}
	m.stubHits = map[string]int{}
	m.knownHit = map[string]int{}
	m.res.ExpectedReach = scanReach(entry)
	for _, c := range m.opts.Prefix {
		m.stack = append(m.stack, decision{kind: "", chosen: c, n: c + 1, tested: true, forced: true})
	}
	exhausted := true
	for {
		if m.res.Paths >= m.opts.MaxPaths {
			m.note("path_cap", fmt.Sprintf("path cap %d reached", m.opts.MaxPaths))
			exhausted = false
			break
		}
		if !m.opts.Deadline.IsZero() && time.Now().After(m.opts.Deadline) {
			m.note("deadline", "time budget exhausted before the path space was")
			exhausted = false
			break
		}
		m.res.Paths++
		end := m.runPath(entry)
		m.res.Steps += m.steps + m.initSteps
		m.initSteps = 0
		m.res.Ends[end.kind]++
		if m.opts.Verbose {
			fmt.Fprintf(os.Stderr, "path %d [%s] end=%s %s\n", m.res.Paths, m.decisionString(), end.kind, firstLine(end.msg))
		}
		switch end.kind {
		case "done", "assume":
			m.res.PathsDone++
			for _, r := range m.reachedNow {
				m.res.Reached[r]++
			}
			if len(m.res.Samples) < 3 {
				m.res.Samples = append(m.res.Samples, PathSample{Decisions: m.decisionString(), End: end.kind, PCSize: len(m.pc), Reached: m.reachedNow})
			}
		case "infeasible", "abort":
		case "violation":
			v := m.lastViolation
			if kf := m.matchKnown(v); kf != nil {
				m.knownHit[kf.AssertID]++
			} else {
				m.res.Violations = append(m.res.Violations, *v)
			}
			for _, r := range m.reachedNow {
				m.res.Reached[r]++
			}
		case "panic":
			// uncaught panic of the code under test on a feasible path
			r, model := Unknown, map[string]*big.Int(nil)
			_ = r
			v := &Violation{ID: "uncaught_panic", Msg: end.msg, Kind: "panic", Decisions: m.decisionString(),
				Choices: append([]int{}, m.choices...), Inputs: append([]inputVar{}, m.inputs...), Model: m.lastModel()}
			_ = model
			if kf := m.matchKnown(v); kf != nil {
				m.knownHit[kf.AssertID]++
			} else {
				m.res.Violations = append(m.res.Violations, *v)
			}
		default: // unsupported, unwind, steps, deadlock, engine, alloc
			m.note(end.kind, firstLine(end.msg))
			if m.opts.Verbose && end.kind == "engine" {
				fmt.Fprintln(os.Stderr, end.msg)
			}
		}
		if len(m.res.Violations) > 0 && !m.opts.Verbose {
			exhausted = false
			break
		}
		if !m.backtrack() {
			break
		}
	}
	m.res.Exhausted = exhausted && len(m.res.Undischarged) == 0
	for fn := range m.touched {
		m.res.Functions = append(m.res.Functions, fn.String())
	}
	sort.Strings(m.res.Functions)
	m.res.Intrinsics = m.intrinsicHits
	m.res.Stubs = m.stubHits
	m.res.Solver = m.solver.Stats
	m.res.InitSkips = m.initSkips
	for _, e := range m.res.ExpectedReach {
		if m.res.Reached[e] == 0 {
			m.res.MissingReach = append(m.res.MissingReach, e)
		}
	}
	m.res.WallS = time.Since(t0).Seconds()
	return &m.res
}

func firstLine(s string) string {
	if i := strings.IndexByte(s, '\n'); i >= 0 {
		return s[:i]
	}
	return s
}

// lastModel asks the solver for a model of the final path condition of the path that just ended.
// The solver scope is already closed when the path has ended, so the model is captured eagerly
// in endModel (see vpAssert / uncaught panics).
func (m *Machine) lastModel() map[string]string { return m.endModel }

func (m *Machine) matchKnown(v *Violation) *KnownFinding {
	for i := range m.known {
		k := &m.known[i]
		if k.Status == "open" && k.AssertID == v.ID {
			return k
		}
	}
	return nil
}

// scanReach statically collects vp.Reach("label") calls in the harness file's functions reachable from entry.
func scanReach(entry *ssa.Function) []string {
	seen := map[*ssa.Function]bool{}
	labels := map[string]bool{}
	var visit func(f *ssa.Function)
	visit = func(f *ssa.Function) {
		if f == nil || seen[f] || f.Blocks == nil {
			return
		}
		seen[f] = true
		for _, b := range f.Blocks {
			for _, in := range b.Instrs {
				var cc *ssa.CallCommon
				switch in := in.(type) {
				case *ssa.Call:
					cc = &in.Call
				case *ssa.Defer:
					cc = &in.Call
				case *ssa.Go:
					cc = &in.Call
				case *ssa.MakeClosure:
					visit(in.Fn.(*ssa.Function))
					continue
				default:
					continue
				}
				callee := cc.StaticCallee()
				if callee == nil {
					continue
				}
				if callee.Pkg != nil && strings.HasSuffix(callee.Pkg.Pkg.Path(), "internal/verifvp") {
					if callee.Name() == "Reach" && len(cc.Args) == 1 {
						if c, ok := cc.Args[0].(*ssa.Const); ok {
							labels[constantString(c)] = true
						}
					}
					continue
				}
				// only follow functions defined in harness files
				if callee.Pkg == entry.Pkg && strings.Contains(entry.Prog.Fset.Position(callee.Pos()).Filename, "zz_verif_") {
					visit(callee)
				}
			}
		}
		for _, af := range f.AnonFuncs {
			visit(af)
		}
	}
	visit(entry)
	var r []string
	for l := range labels {
		r = append(r, l)
	}
	sort.Strings(r)
	return r
}
