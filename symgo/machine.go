package main

// Machine: per-harness exploration state. Re-execution DFS over a stack of decisions.

import (
	"fmt"
	"runtime"
	"go/types"
	"math/big"
	"os"
	"sort"
	"strings"
	"sync"
	"time"

	"golang.org/x/tools/go/ssa"
)

type Options struct {
	RepoRoot      string
	MaxSteps      int64
	MaxDepth      int
	MaxAlloc      int64
	Unwind        int   // symbolic decisions per branch instruction per frame
	ConcCap       int   // max values enumerated by one concretisation
	MaxPaths      int
	MaxGoroutines int
	MaxSwitches   int
	MaxTimerFires int
	MapOrder      bool
	MapOrderMax   int
	SelectNondet  bool
	SchedNondet   bool
	Preempt       int
	NoTimers      bool
	RealQueries   bool // run the real pubsub query parser (default: queries built at package init are opaque)
	Verbose       bool
	Trace         bool
	TimeoutMs     int
	FallbackMs    int
	Deadline      time.Time
	MaxViolations int
	Replay        *ReplaySpec
}

func defaultOptions() Options {
	return Options{
		RepoRoot: "/repo", MaxSteps: 20_000_000, MaxDepth: 400, MaxAlloc: 1 << 22, Unwind: 64, ConcCap: 64,
		MaxPaths: 200000, MaxGoroutines: 16, MaxSwitches: 256, MaxTimerFires: 64, MapOrderMax: 4,
		TimeoutMs: 10000, FallbackMs: 20000, MaxViolations: 1,
	}
}

type decision struct {
	kind   string
	chosen int
	n      int     // number of alternatives (for enumerations: -1 = open ended)
	tested bool    // feasibility of `chosen` established
	vals   []int64 // concretisation: values found so far (chosen indexes into it)
	forced bool    // other alternative known infeasible
	altOK  bool    // br: the second alternative is already known feasible
	model  map[string]*big.Int // model of PC ∧ chosen side (valid while this is the last decision)
	altModel map[string]*big.Int
	valModels []map[string]*big.Int
}

type inputVar struct {
	Name string
	W    int
	Kind string
}

type hashApp struct {
	in   []Value // input bytes
	out  []Value // output bytes (terms/concrete)
	outT *Term   // whole output as one term (nil if concrete)
	inT  *Term
	kind string
	conc bool
}

type sigRecord struct {
	pk, msg, sig []Value
	valid        Value // bool or *Term
}

type Violation struct {
	ID      string                 `json:"id"`
	Msg     string                 `json:"msg"`
	Pos     string                 `json:"pos"`
	Kind    string                 `json:"kind"`
	Model   map[string]string      `json:"model"`
	Choices []int                  `json:"choices"`
	Decisions string               `json:"decisions"`
	Inputs  []inputVar             `json:"inputs"`
	Extra   map[string]interface{} `json:"extra,omitempty"`
	Stack   []ReplayDecision       `json:"stack,omitempty"` // the non-symbolic decisions of the path (choices, crash points, scheduler)
}

type ReplayDecision struct {
	Kind   string `json:"kind"`
	Chosen int    `json:"chosen"`
}

// ReplaySpec fixes inputs and non-symbolic decisions for a concrete re-run inside the interpreter.
type ReplaySpec struct {
	Model map[string]string `json:"model"`
	Stack []ReplayDecision  `json:"stack"`
	pos   int
}

func (m *Machine) replayStack() []ReplayDecision {
	var out []ReplayDecision
	for i, d := range m.stack {
		if i >= m.dpos {
			break
		}
		if d.kind == "br" || d.kind == "conc" {
			continue
		}
		out = append(out, ReplayDecision{d.kind, d.chosen})
	}
	return out
}

type PathSample struct {
	Decisions string            `json:"decisions"`
	End       string            `json:"end"`
	PCSize    int               `json:"pc_conjuncts"`
	Model     map[string]string `json:"model,omitempty"`
	Reached   []string          `json:"reached,omitempty"`
	// what a native replay of this (passing) path needs
	Choices    []int                  `json:"choices,omitempty"`
	Stack      []ReplayDecision       `json:"stack,omitempty"`
	Extra      map[string]interface{} `json:"extra,omitempty"`
	Goroutines int                    `json:"goroutines,omitempty"`
	Stubbed    bool                   `json:"stubbed,omitempty"`
}

type Result struct {
	Harness        string         `json:"harness"`
	Paths          int            `json:"paths"`
	PathsDone      int            `json:"paths_done"`
	Decisions      int            `json:"decisions"`
	Ends           map[string]int `json:"ends"`
	AssertChecks   int            `json:"assert_checks"`
	AssertsProved  int            `json:"asserts_proved"`
	AssertsConcrete int           `json:"asserts_concrete"`
	Undischarged   map[string]int `json:"undischarged"`
	UndischargedMsgs []string     `json:"undischarged_msgs,omitempty"`
	Reached        map[string]int `json:"reached"`
	ExpectedReach  []string       `json:"expected_reach"`
	MissingReach   []string       `json:"missing_reach"`
	Violations     []Violation    `json:"violations"`
	Solver         SolverStats    `json:"solver"`
	Functions      []string       `json:"functions_encoded"`
	Intrinsics     map[string]int `json:"intrinsics_used"`
	Stubs          map[string]int `json:"stubs_used"`
	Samples        []PathSample   `json:"samples"`
	BestSample     *PathSample    `json:"native_sample,omitempty"`
	Bounds         map[string]interface{} `json:"bounds"`
	Steps          int64          `json:"ssa_instructions"`
	InitSkips      int            `json:"init_skips"`
	WallS          float64        `json:"wall_s"`
	KnownHits      map[string]int `json:"known_hits,omitempty"`
	Workers        int            `json:"workers"`
	Exhausted      bool           `json:"exhaustive_within_bounds"`
	Notes          []string       `json:"notes,omitempty"`
}

type Machine struct {
	prog               *ssa.Program
	opts               Options
	solver             *Solver
	pool               *TermPool
	runtimeErrorString types.Type

	// exploration
	stack []decision
	dpos  int

	// per path
	globals    map[*ssa.Global]*Value
	pkgInit    map[*ssa.Package]int
	pc         []*Term
	steps      int64
	initSteps  int64
	inputs     []inputVar
	nameCount  map[string]int
	choices    []int
	hashApps   []*hashApp
	sigs       []*sigRecord
	ptrBase    map[*Value][]Value
	side       map[interface{}]interface{} // side tables for intrinsics (sync.Map, hash states, files...)
	reachedNow []string
	assumeFail bool
	unwindCap  int

	// scheduler
	gs         []*Goroutine
	curG       *Goroutine
	wg         sync.WaitGroup
	aborting   bool
	pendingEnd *pathEnd
	switches   int
	preempts   int
	chanSeq    int
	timers     []*vtimer
	timerSeq   int
	timerFires int
	now        int64

	// harness-registered
	stubs map[string]Value

	// accumulated
	res           Result
	touched       map[*ssa.Function]bool
	intrinsicHits map[string]int
	stubHits      map[string]int
	initSkips     int
	known         []KnownFinding
	knownHit      map[string]int
	model         map[string]*big.Int
	modelMemo     map[int]*big.Int
	pcDoubt       bool
	base          int
	hidx          int
	sharedCells   map[*ssa.Global]*Value
	sharedPkgs    map[*ssa.Package]bool
	lastInstr     ssa.Instruction
	lastFrame     *frame
	shared        *Shared
	solverAcc     SolverStats
	ufParent      map[*Term]*Term
	lastQueryModel map[string]*big.Int
	lastViolation *Violation
	endModel      map[string]string
	freshSeq, sigSeq, keySeq, hashSeq, fmtOpaque, jsonSeq int
}

type KnownFinding struct {
	Property  string `json:"property"`
	Harness   string `json:"harness"`
	AssertID  string `json:"assert_id"`
	Desc      string `json:"desc"`
	Status    string `json:"status"` // "open" or "fixed"
}

func (m *Machine) touch(fn *ssa.Function) {
	if !m.touched[fn] {
		m.touched[fn] = true
	}
}

func (m *Machine) note(kind, msg string) {
	m.res.Undischarged[kind]++
	if len(m.res.UndischargedMsgs) < 40 {
		s := kind + ": " + msg
		for _, x := range m.res.UndischargedMsgs {
			if x == s {
				return
			}
		}
		m.res.UndischargedMsgs = append(m.res.UndischargedMsgs, s)
	}
}

// ---------------------------------------------------------------- decisions

// decide returns the alternative to take at this decision point. feasible may be nil (always feasible).
func (m *Machine) decide(kind string, n int, feasible func(i int) bool) int {
	if rp := m.opts.Replay; rp != nil && feasible == nil {
		c := 0
		if rp.pos < len(rp.Stack) {
			if rp.Stack[rp.pos].Kind != kind {
				panic(pathEnd{kind: "engine", msg: fmt.Sprintf("replay: decision %d is %s, recorded %s", rp.pos, kind, rp.Stack[rp.pos].Kind)})
			}
			c = rp.Stack[rp.pos].Chosen
			rp.pos++
		}
		if c >= n {
			c = n - 1
		}
		m.stack = append(m.stack, decision{kind: kind, chosen: c, n: c + 1, tested: true, forced: true})
		m.dpos++
		return c
	}
	if m.dpos < len(m.stack) {
		d := &m.stack[m.dpos]
		if d.kind != kind {
			panic(pathEnd{kind: "engine", msg: fmt.Sprintf("nondeterministic replay: decision %d is %s, recorded %s", m.dpos, kind, d.kind)})
		}
		if !d.tested {
			for d.chosen < d.n && feasible != nil && !feasible(d.chosen) {
				d.chosen++
			}
			if d.chosen >= d.n {
				m.stack = m.stack[:m.dpos]
				panic(pathEnd{kind: "infeasible"})
			}
			d.tested = true
		}
		if m.dpos == len(m.stack)-1 && d.model != nil {
			m.setModel(d.model)
		}
		m.dpos++
		return d.chosen
	}
	c := 0
	for c < n && feasible != nil && !feasible(c) {
		c++
	}
	if c >= n {
		panic(pathEnd{kind: "infeasible"})
	}
	m.stack = append(m.stack, decision{kind: kind, chosen: c, n: n, tested: true})
	if feasible == nil {
		m.stack[len(m.stack)-1].model = m.model // a pure choice adds no constraint: the model stays valid for every alternative
	}
	if feasible == nil && m.shared != nil {
		for alt := n - 1; alt > c; alt-- {
			if !m.shared.hungry() {
				break
			}
			job := m.copyStack()
			job[len(job)-1] = decision{kind: kind, chosen: alt, n: alt + 1, tested: true, forced: true, model: m.model}
			m.shared.push(Job{h: m.hidx, stack: job})
			n = alt
			m.stack[len(m.stack)-1].n = n
		}
	}
	m.dpos++
	m.res.Decisions++
	return c
}

func (m *Machine) backtrack() bool {
	for len(m.stack) > m.base {
		d := &m.stack[len(m.stack)-1]
		if d.chosen+1 < d.n && !d.forced {
			d.chosen++
			if d.kind == "br" {
				d.tested = d.altOK
				d.model, d.altModel = d.altModel, nil
			} else if d.kind == "conc" {
				d.model = nil
			} else {
				d.tested = false
			}
			return true
		}
		m.stack = m.stack[:len(m.stack)-1]
	}
	return false
}

func (m *Machine) assertPC(t *Term) {
	if t.IsTrue() {
		return
	}
	if m.replaying() {
		m.addPC(t)
		return
	}
	if m.model != nil && !m.evalBool(t) {
		if os.Getenv("SYMGO_DBGEVAL") != "" {
			fmt.Fprintf(os.Stderr, "EVALFALSE %s\n", dumpTerm(t, 3))
		}
		// re-establish a model of PC ∧ t (t's component only) before t joins the PC
		r, model := m.query(t, true)
		if r == Sat {
			m.setModel(model)
		} else {
			if r == Unsat {
				// callers establish feasibility first; reaching this means an over-approximated (unknown) prefix
				m.addPC(t)
				panic(pathEnd{kind: "infeasible"})
			}
			m.setModel(nil)
			m.pcDoubt = true
		}
	}
	m.addPC(t)
}

// replaying: recorded decisions are still ahead, i.e. everything executed now was executed before
// with identical outcomes (assumptions feasible, assertions decided); no solver work is repeated.
func (m *Machine) replaying() bool { return m.dpos < len(m.stack) }

func (m *Machine) addPC(t *Term) {
	m.pc = append(m.pc, t)
	vs := m.termVars(t)
	for i := 1; i < len(vs); i++ {
		m.ufUnion(vs[0], vs[i])
	}
}

// termVars returns the variables occurring in t (cached on the term).
func (m *Machine) termVars(t *Term) []*Term {
	if t.varsDone {
		return t.vars
	}
	seen := map[int]bool{}
	var out []*Term
	stack := []*Term{t}
	for len(stack) > 0 {
		x := stack[len(stack)-1]
		stack = stack[:len(stack)-1]
		if seen[x.id] {
			continue
		}
		seen[x.id] = true
		if x.varsDone {
			for _, v := range x.vars {
				if !seen[-v.id] {
					seen[-v.id] = true
					out = append(out, v)
				}
			}
			continue
		}
		if x.Op == "var" {
			if !seen[-x.id] {
				seen[-x.id] = true
				out = append(out, x)
			}
			continue
		}
		stack = append(stack, x.Args...)
	}
	t.vars, t.varsDone = out, true
	return out
}

func (m *Machine) ufFind(v *Term) *Term {
	for {
		p, ok := m.ufParent[v]
		if !ok || p == v {
			return v
		}
		if gp, ok := m.ufParent[p]; ok && gp != p {
			m.ufParent[v] = gp
		}
		v = p
	}
}

func (m *Machine) ufUnion(a, b *Term) {
	ra, rb := m.ufFind(a), m.ufFind(b)
	if ra != rb {
		m.ufParent[ra] = rb
	}
}

// query decides PC ∧ extra. With a valid cached model of the PC only the conjuncts sharing variables
// (transitively) with extra are sent (independent-constraint slicing); the model returned is a full
// model of PC ∧ extra obtained by patching the cached one.
func (m *Machine) query(extra *Term, wantModel bool) (SatResult, map[string]*big.Int) {
	if extra != nil && extra.IsFalse() {
		return Unsat, nil
	}
	if queryOrigins != nil {
		pc := make([]uintptr, 3)
		runtime.Callers(2, pc)
		name := runtime.FuncForPC(pc[0]).Name()
		if strings.HasSuffix(name, "assertPC") {
			name += " < " + runtime.FuncForPC(pc[1]).Name() + " < " + runtime.FuncForPC(pc[2]).Name()
		}
		queryMu.Lock()
		queryOrigins[name]++
		queryMu.Unlock()
	}
	if m.model == nil || extra == nil {
		r, model := m.solver.CheckSlice(m.pc, extra, wantModel)
		return r, model
	}
	roots := map[*Term]bool{}
	for _, v := range m.termVars(extra) {
		roots[m.ufFind(v)] = true
	}
	var rel []*Term
	for _, c := range m.pc {
		vs := m.termVars(c)
		if len(vs) > 0 && roots[m.ufFind(vs[0])] {
			rel = append(rel, c)
		}
	}
	r, sm := m.solver.CheckSlice(rel, extra, wantModel)
	if r != Sat || !wantModel {
		return r, nil
	}
	full := make(map[string]*big.Int, len(m.model)+len(sm))
	for k, v := range m.model {
		full[k] = v
	}
	for k, v := range sm {
		full[k] = v
	}
	return r, full
}

// branch forks on a symbolic condition and returns the side taken on this path.
func (m *Machine) branch(fr *frame, cond *Term, what string) bool {
	return m.branchAt(fr, nil, cond)
}

func (m *Machine) branchAt(fr *frame, instr ssa.Instruction, cond *Term) bool {
	if cond.IsConst() {
		return cond.IsTrue()
	}
	if instr != nil && fr != nil {
		if fr.symBranches == nil {
			fr.symBranches = map[ssa.Instruction]int{}
		}
		fr.symBranches[instr]++
		if fr.symBranches[instr] > m.unwindCap {
			panic(pathEnd{kind: "unwind", msg: fmt.Sprintf("more than %d symbolic iterations at %s", m.unwindCap, m.pos(instr.Pos()))})
		}
	}
	sideCond := func(i int) *Term {
		if i == 0 {
			return cond
		}
		return m.pool.Not(cond)
	}
	var d *decision
	if m.dpos < len(m.stack) {
		d = &m.stack[m.dpos]
		if d.kind != "br" {
			panic(pathEnd{kind: "engine", msg: fmt.Sprintf("nondeterministic replay: decision %d is br, recorded %s", m.dpos, d.kind)})
		}
		if !d.tested {
			r, model := m.query(sideCond(d.chosen), true)
			if r == Unsat {
				m.stack = m.stack[:m.dpos]
				panic(pathEnd{kind: "infeasible"})
			}
			if r == Unknown {
				m.note("unknown_branch", "branch feasibility unknown; kept")
			}
			d.tested = true
			d.model = model
		}
		if m.dpos == len(m.stack)-1 && d.model != nil {
			m.setModel(d.model)
		}
	} else {
		var feas [2]bool
		var known [2]bool
		var models [2]map[string]*big.Int
		if m.model != nil {
			v := 1
			if m.evalBool(cond) {
				v = 0
			}
			feas[v], known[v], models[v] = true, true, m.model
		}
		for i := 0; i < 2; i++ {
			if known[i] {
				continue
			}
			if known[1-i] && !feas[1-i] && !m.pcDoubt {
				feas[i], known[i] = true, true // PC is satisfiable, the other side is not
				continue
			}
			r, model := m.query(sideCond(i), true)
			if r == Unknown {
				m.note("unknown_branch", "branch feasibility unknown; kept")
				m.pcDoubt = true
			}
			feas[i], known[i] = r != Unsat, true
			if r == Sat {
				models[i] = model
			}
		}
		if !feas[0] && !feas[1] {
			panic(pathEnd{kind: "infeasible"})
		}
		c := 0
		if !feas[0] {
			c = 1
		}
		both := feas[0] && feas[1]
		if both && forkProf != nil {
			where := "?"
			if instr != nil {
				where = m.pos(instr.Pos())
				if fr != nil && fr.fn != nil {
					where += " " + fr.fn.Name()
				}
			} else if fr != nil && fr.fn != nil {
				where = "intrinsic in " + fr.fn.Name()
			}
			forkMu.Lock()
			forkProf[where]++
			forkMu.Unlock()
		}
		m.stack = append(m.stack, decision{kind: "br", chosen: c, n: 2, tested: true, forced: !both, altOK: both, model: models[c]})
		d = &m.stack[len(m.stack)-1]
		if both {
			d.altModel = models[1]
			if m.shared != nil && m.shared.hungry() {
				job := m.copyStack()
				job[len(job)-1] = decision{kind: "br", chosen: 1, n: 2, tested: true, forced: true, model: models[1]}
				m.shared.push(Job{h: m.hidx, stack: job})
				d.forced = true
				d.altModel = nil
			}
		}
		m.res.Decisions++
		m.setModel(models[c])
		if os.Getenv("SYMGO_DBGEVAL") != "" && m.model != nil && !m.evalBool(sideCond(c)) {
			_, inModel := m.model[cond.Name]
			fmt.Fprintf(os.Stderr, "BRANCHMISMATCH c=%d feas=%v known-by-model=%v cond=%s inModel=%v val=%v\n", c, feas, models[c] != nil, dumpTerm(cond, 2), inModel, m.model[cond.Name])
		}
	}
	m.dpos++
	m.assertPC(sideCond(d.chosen))
	return d.chosen == 0
}

var (
	forkMu   sync.Mutex
	forkProf map[string]int
)

func init() {
	if os.Getenv("SYMGO_FORKPROF") != "" {
		forkProf = map[string]int{}
	}
}

func dumpForkProf() {
	if forkProf == nil {
		return
	}
	type kv struct {
		k string
		v int
	}
	var l []kv
	for k, v := range forkProf {
		l = append(l, kv{k, v})
	}
	sort.Slice(l, func(i, j int) bool { return l[i].v > l[j].v })
	for i, e := range l {
		if i >= 40 {
			break
		}
		fmt.Fprintf(os.Stderr, "FORK %7d %s\n", e.v, e.k)
	}
}

func (m *Machine) copyStack() []decision {
	job := make([]decision, len(m.stack))
	copy(job, m.stack)
	for i := range job {
		if job[i].vals != nil {
			job[i].vals = append([]int64{}, job[i].vals...)
		}
		job[i].forced = true
		job[i].model, job[i].altModel, job[i].valModels = nil, nil, nil
	}
	return job
}

func (m *Machine) setModel(model map[string]*big.Int) {
	m.model = model
	m.modelMemo = nil
}

func (m *Machine) evalTerm(t *Term) *big.Int {
	if m.modelMemo == nil {
		m.modelMemo = map[int]*big.Int{}
	}
	return t.Eval(m.model, m.modelMemo, nil)
}

func (m *Machine) evalBool(t *Term) bool { return m.evalTerm(t).Sign() != 0 }

// concretize forks over the feasible values of t (as a signed 64-bit number of its width).
func (m *Machine) concretize(fr *frame, t *Term, what string) int64 {
	if t.IsConst() {
		return canon(int64(t.C.Uint64()), t.W, true)
	}
	kind := "conc"
	var d *decision
	if m.dpos < len(m.stack) {
		d = &m.stack[m.dpos]
		if d.kind != kind {
			panic(pathEnd{kind: "engine", msg: fmt.Sprintf("nondeterministic replay: decision %d is conc, recorded %s", m.dpos, d.kind)})
		}
	} else {
		// enumerate all feasible values now (avoids one re-execution per value)
		var vals []int64
		var valModels []map[string]*big.Int
		excl := m.pool.Bool(true)
		for {
			if len(vals) >= m.opts.ConcCap {
				m.note("conc_cap", fmt.Sprintf("more than %d values for %s at %s; remaining values not explored", m.opts.ConcCap, what, fr.fn))
				break
			}
			var r SatResult
			var val *big.Int
			if len(vals) == 0 && m.model != nil {
				r, val = Sat, m.evalTerm(t)
			} else {
				r, val = m.checkValue(excl, t)
			}
			if r != Sat {
				if r == Unknown {
					m.note("unknown_conc", "concretisation query unknown for "+what)
				}
				break
			}
			v := canon(int64(val.Uint64()), t.W, true)
			vals = append(vals, v)
			if len(vals) == 1 && m.model != nil {
				valModels = append(valModels, m.model)
			} else {
				valModels = append(valModels, m.lastQueryModel)
			}
			excl = m.pool.And(excl, m.pool.Not(m.pool.Eq(t, m.pool.ConstU(uint64(v), t.W))))
		}
		if len(vals) == 0 {
			panic(pathEnd{kind: "infeasible"})
		}
		m.stack = append(m.stack, decision{kind: kind, chosen: 0, n: len(vals), tested: true, vals: vals, valModels: valModels})
		d = &m.stack[len(m.stack)-1]
		m.res.Decisions++
		if m.shared != nil {
			for alt := d.n - 1; alt > 0; alt-- {
				if !m.shared.hungry() {
					break
				}
				job := m.copyStack()
				job[len(job)-1] = decision{kind: kind, chosen: alt, n: alt + 1, tested: true, forced: true, vals: append([]int64{}, vals...), valModels: valModels}
				m.shared.push(Job{h: m.hidx, stack: job})
				d.n = alt
			}
		}
	}
	v := d.vals[d.chosen]
	last := m.dpos == len(m.stack)-1
	m.dpos++
	if last && d.chosen < len(d.valModels) && d.valModels[d.chosen] != nil {
		m.setModel(d.valModels[d.chosen])
	}
	m.assertPC(m.pool.Eq(t, m.pool.ConstU(uint64(v), t.W)))
	return v
}

// checkValue: satisfiability of PC ∧ extra together with the model value of t.
func (m *Machine) checkValue(extra *Term, t *Term) (SatResult, *big.Int) {
	name := fmt.Sprintf("cv!%d", t.id)
	v := m.pool.Var(name, t.W)
	q := m.pool.Eq(v, t)
	if extra != nil {
		q = m.pool.And(q, extra)
	}
	r, model := m.query(q, true)
	if r != Sat {
		return r, nil
	}
	m.lastQueryModel = model
	val, ok := model[name]
	if !ok {
		return Unknown, nil
	}
	return Sat, val
}

var queryOrigins map[string]int
var queryMu sync.Mutex

func init() {
	if os.Getenv("SYMGO_QORIGIN") != "" {
		queryOrigins = map[string]int{}
	}
}

// ---------------------------------------------------------------- assertions

func (m *Machine) decisionString() string {
	var sb strings.Builder
	for i, d := range m.stack {
		if i >= m.dpos {
			break
		}
		if i > 0 {
			sb.WriteByte(' ')
		}
		if d.vals != nil {
			fmt.Fprintf(&sb, "%s=%d", d.kind, d.vals[d.chosen])
		} else {
			fmt.Fprintf(&sb, "%s:%d", d.kind, d.chosen)
		}
	}
	return sb.String()
}

func modelStrings(model map[string]*big.Int) map[string]string {
	r := map[string]string{}
	for k, v := range model {
		if strings.HasPrefix(k, "cv!") || strings.HasPrefix(k, "h!") {
			continue
		}
		r[k] = v.String()
	}
	return r
}

// checkAssert decides an assertion at the current point of the path.
func (m *Machine) checkAssert(fr *frame, cond Value, id, msg string, pos string) {
	m.res.AssertChecks++
	switch c := cond.(type) {
	case bool:
		m.res.AssertsConcrete++
		if c {
			return
		}
		// concrete failure on a feasible path: get a model of the path condition
		if m.model != nil {
			m.violation(id, msg, pos, "assert", m.model)
		}
		r, model := m.query(nil, true)
		if r != Sat {
			m.note("unknown_assert", "model for failing path unavailable: "+id)
			if r == Unsat {
				return
			}
		}
		m.violation(id, msg, pos, "assert", model)
	case *Term:
		if m.replaying() {
			m.addPC(c) // decided (proved) when this prefix was first explored
			return
		}
		if m.model != nil && !m.evalBool(c) {
			// the cached model of the path condition already falsifies the assertion
			m.violation(id, msg, pos, "assert", m.model)
		}
		r, model := m.query(m.pool.Not(c), true)
		switch r {
		case Unsat:
			m.res.AssertsProved++
			m.assertPC(c) // continue under the assertion
		case Sat:
			m.violation(id, msg, pos, "assert", model)
		default:
			m.note("unknown_assert", id)
			m.assertPC(c)
		}
	default:
		panic(fmt.Sprintf("Assert on %T", cond))
	}
}

func (m *Machine) violation(id, msg, pos, kind string, model map[string]*big.Int) {
	v := Violation{ID: id, Msg: msg, Pos: pos, Kind: kind, Model: modelStrings(model),
		Choices: append([]int{}, m.choices...), Decisions: m.decisionString(), Inputs: append([]inputVar{}, m.inputs...)}
	v.Extra = map[string]interface{}{"hashes": m.exportHashes(model), "goroutines": len(m.gs)}
	v.Stack = m.replayStack()
	m.lastViolation = &v
	panic(pathEnd{kind: "violation", msg: id})
}

func (m *Machine) panicText(p targetPanic) string {
	if p.where != "" {
		w := p.where
		p.where = ""
		return m.panicText(p) + " [at " + w + "]"
	}
	if p.rt != "" {
		return "runtime error: " + p.rt
	}
	if itf, ok := p.v.(Iface); ok {
		if itf.T == nil {
			return "panic(nil)"
		}
		if s, ok := itf.V.(string); ok {
			return s
		}
		// error or Stringer: try Error()/String() concretely, best effort
		return m.describeIface(itf)
	}
	return valString(p.v)
}

func (m *Machine) describeIface(itf Iface) (s string) {
	defer func() {
		if r := recover(); r != nil {
			if pe, ok := r.(pathEnd); ok && pe.kind != "unsupported" && pe.kind != "engine" {
				panic(pe)
			}
			s = fmt.Sprintf("<%s>", itf.T)
		}
	}()
	for _, name := range []string{"Error", "String"} {
		ms := m.prog.MethodSets.MethodSet(itf.T)
		for i := 0; i < ms.Len(); i++ {
			sel := ms.At(i)
			if sel.Obj().Name() == name {
				fn := m.prog.MethodValue(sel)
				if fn != nil {
					r := m.call(&frame{m: m, g: m.curG}, 0, fn, []Value{itf.V})
					if str, ok := r.(string); ok {
						return fmt.Sprintf("%s: %s", itf.T, str)
					}
					return fmt.Sprintf("<%s: symbolic text>", itf.T)
				}
			}
		}
	}
	return fmt.Sprintf("<%s> %s", itf.T, valString(itf.V))
}

// ---------------------------------------------------------------- running

func sortedKeys(mm map[string]int) []string {
	var ks []string
	for k := range mm {
		ks = append(ks, k)
	}
	sort.Strings(ks)
	return ks
}

func (m *Machine) resetPath() {
	m.pool = NewTermPool()
	m.globals = make(map[*ssa.Global]*Value, len(m.sharedCells)+64)
	m.pkgInit = map[*ssa.Package]int{}
	for g, c := range m.sharedCells {
		m.globals[g] = c
	}
	for p := range m.sharedPkgs {
		m.pkgInit[p] = 2
	}
	m.pc = m.pc[:0]
	m.steps = 0
	m.inputs = nil
	m.nameCount = map[string]int{}
	m.choices = nil
	m.hashApps = nil
	m.sigs = nil
	m.ptrBase = map[*Value][]Value{}
	m.side = map[interface{}]interface{}{}
	m.reachedNow = nil
	m.dpos = 0
	m.gs = []*Goroutine{{id: 0, wake: make(chan struct{}, 1), fnName: "harness"}}
	m.curG = m.gs[0]
	m.aborting = false
	m.pendingEnd = nil
	m.switches, m.preempts = 0, 0
	m.chanSeq = 0
	m.timers = nil
	m.timerSeq, m.timerFires = 0, 0
	m.now = 1_600_000_000 * 1_000_000_000
	m.stubs = map[string]Value{}
	m.unwindCap = m.opts.Unwind
	m.lastViolation = nil
	m.model, m.modelMemo, m.pcDoubt = map[string]*big.Int{}, nil, false
	if len(m.stack) > 0 {
		m.model = nil // replaying a prefix: the model is re-installed at its last decision
	}
	m.ufParent = map[*Term]*Term{}
	m.freshSeq, m.sigSeq, m.keySeq, m.hashSeq, m.jsonSeq = 0, 0, 0, 0, 0
}

// runPath executes the harness once along the current decision stack.
func (m *Machine) runPath(entry *ssa.Function) (end pathEnd) {
	m.resetPath()
	m.solver.BeginPath(m.pool)
	defer func() {
		r := recover()
		m.killGoroutines()
		switch r := r.(type) {
		case nil:
			end = pathEnd{kind: "done"}
		case pathEnd:
			end = r
		case targetPanic:
			end = pathEnd{kind: "panic", msg: m.safePanicText(r)}
		default:
			end = pathEnd{kind: "engine", msg: fmt.Sprint(r)}
		}
		if end.kind == "unsupported" || end.kind == "engine" || end.kind == "steps" || end.kind == "unwind" {
			end.msg = firstLine(end.msg) + " [at " + m.whereAmI() + "]"
		}
		m.endModel = nil
		if end.kind == "panic" {
			if res, model := m.query(nil, true); res == Sat {
				m.endModel = modelStrings(model)
			}
		}
		m.solver.EndPath()
	}()
	root := &frame{m: m, g: m.curG}
	m.call(root, entry.Pos(), entry, nil)
	return
}

func (m *Machine) safePanicText(p targetPanic) (s string) {
	defer func() {
		if r := recover(); r != nil {
			s = "<panic text unavailable>"
		}
	}()
	return m.panicText(p)
}

// Shared is the global work queue of a run: jobs are (harness, decision prefix) pairs.
type Job struct {
	h     int
	stack []decision
}

type Shared struct {
	mu      sync.Mutex
	cond    *sync.Cond
	jobs    []Job
	idle    int
	workers int
	stop    bool
	stopped map[int]bool // harnesses whose exploration was cut (violation found, cap, deadline)
}

func newShared(workers int) *Shared {
	s := &Shared{workers: workers, stopped: map[int]bool{}}
	s.cond = sync.NewCond(&s.mu)
	return s
}

func (s *Shared) hungry() bool {
	s.mu.Lock()
	defer s.mu.Unlock()
	return !s.stop && len(s.jobs) < s.idle
}

func (s *Shared) isStopped(h int) bool {
	s.mu.Lock()
	defer s.mu.Unlock()
	return s.stop || s.stopped[h]
}

func (s *Shared) stopHarness(h int) {
	s.mu.Lock()
	s.stopped[h] = true
	k := s.jobs[:0]
	for _, j := range s.jobs {
		if j.h != h {
			k = append(k, j)
		}
	}
	s.jobs = k
	s.mu.Unlock()
}

func (s *Shared) push(j Job) {
	s.mu.Lock()
	if !s.stopped[j.h] {
		s.jobs = append(s.jobs, j)
	}
	s.mu.Unlock()
	s.cond.Signal()
}

func (s *Shared) pop() (Job, bool) {
	s.mu.Lock()
	defer s.mu.Unlock()
	s.idle++
	for len(s.jobs) == 0 && !s.stop {
		if s.idle == s.workers {
			s.stop = true
			s.cond.Broadcast()
			return Job{}, false
		}
		s.cond.Wait()
	}
	if len(s.jobs) == 0 {
		return Job{}, false
	}
	s.idle--
	// oldest first: the initial jobs (one per harness) are started before any is split further
	j := s.jobs[0]
	s.jobs = s.jobs[1:]
	return j, true
}

func (m *Machine) initResult(entry *ssa.Function, name string) {
	m.res = Result{Harness: name, Ends: map[string]int{}, Undischarged: map[string]int{}, Reached: map[string]int{}}
	m.touched = map[*ssa.Function]bool{}
	m.intrinsicHits = map[string]int{}
	m.stubHits = map[string]int{}
	m.knownHit = map[string]int{}
}

// exploreJob explores the subtree below the decision prefix `job`; returns false if exploration must stop.
func (m *Machine) exploreJob(entry *ssa.Function, job []decision) bool {
	m.stack = job
	m.base = len(job)
	for {
		if m.res.Paths >= m.opts.MaxPaths {
			m.note("path_cap", fmt.Sprintf("path cap %d reached", m.opts.MaxPaths))
			return false
		}
		if !m.opts.Deadline.IsZero() && time.Now().After(m.opts.Deadline) {
			m.note("deadline", "time budget exhausted before the path space was")
			return false
		}
		if m.shared != nil && m.shared.isStopped(m.hidx) {
			return false
		}
		m.res.Paths++
		before := m.solver.Stats
		end := m.runPath(entry)
		m.accSolver(before)
		m.res.Steps += m.steps + m.initSteps
		m.initSteps = 0
		m.res.Ends[end.kind]++
		if m.opts.Verbose {
			fmt.Fprintf(os.Stderr, "path %d [%s] end=%s %s\n", m.res.Paths, m.decisionString(), end.kind, firstLine(end.msg))
		}
		switch end.kind {
		case "done", "assume":
			m.res.PathsDone++
			for _, r := range m.reachedNow {
				m.res.Reached[r]++
			}
			if end.kind == "done" && (len(m.pc) == 0 || m.model != nil) {
				// one sample per harness is kept for translator validation: the natively replayable
				// passing path with the smallest decision string (deterministic whatever the workers do)
				dec := m.decisionString()
				nativeOK := len(m.stubs) == 0 && len(m.gs) <= 1
				for _, d := range m.stack {
					switch d.kind {
					case "br", "conc", "choice":
					default:
						nativeOK = false
					}
				}
				if nativeOK && (m.res.BestSample == nil || dec < m.res.BestSample.Decisions) {
					ps := PathSample{Decisions: dec, End: end.kind, PCSize: len(m.pc), Reached: m.reachedNow,
						Choices: append([]int{}, m.choices...), Stack: m.replayStack(), Goroutines: len(m.gs)}
					ps.Model = modelStrings(m.model)
					ps.Extra = map[string]interface{}{"hashes": m.exportHashes(m.model)}
					m.res.BestSample = &ps
				}
				if len(m.res.Samples) < 3 {
					m.res.Samples = append(m.res.Samples, PathSample{Decisions: dec, End: end.kind, PCSize: len(m.pc), Reached: m.reachedNow})
				}
			}
		case "infeasible", "abort":
		case "violation":
			v := m.lastViolation
			if kf := m.matchKnown(v); kf != nil {
				m.knownHit[kf.AssertID]++
			} else {
				m.res.Violations = append(m.res.Violations, *v)
			}
			for _, r := range m.reachedNow {
				m.res.Reached[r]++
			}
		case "panic":
			v := &Violation{ID: "uncaught_panic", Msg: end.msg, Kind: "panic", Decisions: m.decisionString(),
				Choices: append([]int{}, m.choices...), Inputs: append([]inputVar{}, m.inputs...), Model: m.endModel, Stack: m.replayStack()}
			if kf := m.matchKnown(v); kf != nil {
				m.knownHit[kf.AssertID]++
			} else {
				m.res.Violations = append(m.res.Violations, *v)
			}
		default: // unsupported, unwind, steps, deadlock, engine, alloc
			m.note(end.kind, firstLine(end.msg))
			if m.opts.Verbose && end.kind == "engine" {
				fmt.Fprintln(os.Stderr, end.msg)
			}
		}
		if len(m.res.Violations) >= m.opts.MaxViolations {
			return false
		}
		if !m.backtrack() {
			return true
		}
	}
}

func (m *Machine) finishResult() *Result {
	for fn := range m.touched {
		m.res.Functions = append(m.res.Functions, fn.String())
	}
	sort.Strings(m.res.Functions)
	m.res.Intrinsics = m.intrinsicHits
	m.res.Stubs = m.stubHits
	m.res.Solver = m.solverAcc
	m.res.InitSkips = m.initSkips
	m.res.KnownHits = m.knownHit
	return &m.res
}

type Entry struct {
	Name  string
	Fn    *ssa.Function
	Known []KnownFinding
}

// exploreAll explores all harnesses with one pool of workers sharing a queue of decision prefixes.
func exploreAll(l *loaded, entries []Entry, opts Options, workers int, cross int) ([]*Result, error) {
	t0 := time.Now()
	sh := newShared(workers)
	for h := range entries {
		sh.jobs = append(sh.jobs, Job{h: h, stack: []decision{}})
	}
	type wres struct {
		res      map[int]*Result
		complete map[int]bool
	}
	wr := make([]wres, workers)
	started := make([]time.Time, len(entries))
	finished := make([]time.Time, len(entries))
	var tmu sync.Mutex
	var wg sync.WaitGroup
	for w := 0; w < workers; w++ {
		solver, err := NewSolver(opts.TimeoutMs, opts.FallbackMs)
		if err != nil {
			return nil, err
		}
		solver.crossEvery = cross
		wr[w] = wres{res: map[int]*Result{}, complete: map[int]bool{}}
		wg.Add(1)
		go func(w int, solver *Solver) {
			defer wg.Done()
			defer solver.Close()
			machines := map[int]*Machine{}
			for {
				job, more := sh.pop()
				if !more {
					break
				}
				m := machines[job.h]
				if m == nil {
					m = newMachineWith(l, opts, solver)
					m.shared = sh
					m.hidx = job.h
					m.known = entries[job.h].Known
					m.initResult(entries[job.h].Fn, entries[job.h].Name)
					machines[job.h] = m
					wr[w].complete[job.h] = true
					tmu.Lock()
					if started[job.h].IsZero() {
						started[job.h] = time.Now()
					}
					tmu.Unlock()
				}
				if !m.exploreJob(entries[job.h].Fn, job.stack) {
					wr[w].complete[job.h] = false
					sh.stopHarness(job.h)
				}
				tmu.Lock()
				finished[job.h] = time.Now()
				tmu.Unlock()
			}
			for h, m := range machines {
				// solver statistics are per worker; attribute deltas per harness
				wr[w].res[h] = m.finishResult()
			}
		}(w, solver)
	}
	wg.Wait()
	var out []*Result
	for h, e := range entries {
		res := &Result{Harness: e.Name, Ends: map[string]int{}, Undischarged: map[string]int{}, Reached: map[string]int{},
			Intrinsics: map[string]int{}, Stubs: map[string]int{}, KnownHits: map[string]int{}}
		fnset := map[string]bool{}
		all := true
		nw := 0
		for w := range wr {
			r := wr[w].res[h]
			if r == nil {
				continue
			}
			nw++
			all = all && wr[w].complete[h]
			res.Paths += r.Paths
			res.PathsDone += r.PathsDone
			res.Decisions += r.Decisions
			res.AssertChecks += r.AssertChecks
			res.AssertsProved += r.AssertsProved
			res.AssertsConcrete += r.AssertsConcrete
			res.Steps += r.Steps
			res.InitSkips += r.InitSkips
			for k, v := range r.Ends {
				res.Ends[k] += v
			}
			for k, v := range r.Undischarged {
				res.Undischarged[k] += v
			}
			for _, msg := range r.UndischargedMsgs {
				dup := false
				for _, x := range res.UndischargedMsgs {
					dup = dup || x == msg
				}
				if !dup && len(res.UndischargedMsgs) < 40 {
					res.UndischargedMsgs = append(res.UndischargedMsgs, msg)
				}
			}
			for k, v := range r.Reached {
				res.Reached[k] += v
			}
			for k, v := range r.Intrinsics {
				res.Intrinsics[k] += v
			}
			for k, v := range r.Stubs {
				res.Stubs[k] += v
			}
			for k, v := range r.KnownHits {
				res.KnownHits[k] += v
			}
			for _, f := range r.Functions {
				fnset[f] = true
			}
			res.Violations = append(res.Violations, r.Violations...)
			if len(res.Samples) < 4 {
				res.Samples = append(res.Samples, r.Samples...)
			}
			if r.BestSample != nil && (res.BestSample == nil || r.BestSample.Decisions < res.BestSample.Decisions) {
				res.BestSample = r.BestSample
			}
			ss := &res.Solver
			rs := r.Solver
			ss.Queries += rs.Queries
			ss.CacheHits += rs.CacheHits
			ss.Sat += rs.Sat
			ss.Unsat += rs.Unsat
			ss.Unknown += rs.Unknown
			ss.Fallbacks += rs.Fallbacks
			ss.FallbackOK += rs.FallbackOK
			ss.Errors += rs.Errors
			ss.Seconds += rs.Seconds
			ss.CrossChecked += rs.CrossChecked
			ss.Disagreements += rs.Disagreements
			if rs.MaxQuerySec > ss.MaxQuerySec {
				ss.MaxQuerySec = rs.MaxQuerySec
			}
		}
		for f := range fnset {
			res.Functions = append(res.Functions, f)
		}
		sort.Strings(res.Functions)
		res.ExpectedReach = scanReach(e.Fn)
		for _, lab := range res.ExpectedReach {
			if res.Reached[lab] == 0 {
				res.MissingReach = append(res.MissingReach, lab)
			}
		}
		res.Exhausted = all && len(res.Undischarged) == 0 && nw > 0
		if !finished[h].IsZero() {
			res.WallS = finished[h].Sub(started[h]).Seconds()
		}
		res.Workers = nw
		out = append(out, res)
	}
	_ = t0
	return out, nil
}

func firstLine(s string) string {
	if i := strings.IndexByte(s, '\n'); i >= 0 {
		return s[:i]
	}
	return s
}

// lastModel asks the solver for a model of the final path condition of the path that just ended.
// The solver scope is already closed when the path has ended, so the model is captured eagerly
// in endModel (see vpAssert / uncaught panics).
func (m *Machine) lastModel() map[string]string { return m.endModel }

func (m *Machine) matchKnown(v *Violation) *KnownFinding {
	for i := range m.known {
		k := &m.known[i]
		if k.Status == "open" && k.AssertID == v.ID {
			return k
		}
	}
	return nil
}

// scanReach statically collects vp.Reach("label") calls in the harness file's functions reachable from entry.
func scanReach(entry *ssa.Function) []string {
	seen := map[*ssa.Function]bool{}
	labels := map[string]bool{}
	var visit func(f *ssa.Function)
	visit = func(f *ssa.Function) {
		if f == nil || seen[f] || f.Blocks == nil {
			return
		}
		seen[f] = true
		for _, b := range f.Blocks {
			for _, in := range b.Instrs {
				var cc *ssa.CallCommon
				switch in := in.(type) {
				case *ssa.Call:
					cc = &in.Call
				case *ssa.Defer:
					cc = &in.Call
				case *ssa.Go:
					cc = &in.Call
				case *ssa.MakeClosure:
					visit(in.Fn.(*ssa.Function))
					continue
				default:
					continue
				}
				callee := cc.StaticCallee()
				if callee == nil {
					continue
				}
				if callee.Pkg != nil && strings.HasSuffix(callee.Pkg.Pkg.Path(), "internal/verifvp") {
					if callee.Name() == "Reach" && len(cc.Args) == 1 {
						if c, ok := cc.Args[0].(*ssa.Const); ok && !strings.HasSuffix(constantString(c), "?") {
							labels[constantString(c)] = true // labels ending in "?" are optional witnesses
						}
					}
					continue
				}
				// only follow functions defined in harness files
				if callee.Pkg == entry.Pkg && strings.Contains(entry.Prog.Fset.Position(callee.Pos()).Filename, "zz_verif_") {
					visit(callee)
				}
			}
		}
		for _, af := range f.AnonFuncs {
			visit(af)
		}
	}
	visit(entry)
	var r []string
	for l := range labels {
		r = append(r, l)
	}
	sort.Strings(r)
	return r
}

// exportHashes describes the ideal-hash applications of the path under the model, so that a replay
// file can be re-targeted at the real hash function (see checks/check.py realise()).
func (m *Machine) exportHashes(model map[string]*big.Int) []map[string]interface{} {
	if model == nil {
		return nil
	}
	save, saveMemo := m.model, m.modelMemo
	m.setModel(model)
	defer func() { m.model, m.modelMemo = save, saveMemo }()
	outVar := map[*Term]int{}
	for i, a := range m.hashApps {
		if a.outT != nil && a.outT.Op == "var" {
			outVar[a.outT] = i
		}
	}
	var out []map[string]interface{}
	for _, a := range m.hashApps {
		e := map[string]interface{}{"kind": a.kind, "conc": a.conc}
		var in []interface{}
		for _, b := range a.in {
			switch b := b.(type) {
			case int64:
				in = append(in, map[string]interface{}{"c": b})
			case *Term:
				switch {
				case b.Op == "var":
					in = append(in, map[string]interface{}{"v": b.Name})
				case b.Op == "extract" && b.Args[0].Op == "var" && b.W == 8:
					if j, ok := outVar[b.Args[0]]; ok {
						in = append(in, map[string]interface{}{"h": j, "i": (b.Args[0].W - 1 - b.P1) / 8})
						continue
					}
					fallthrough
				default:
					in = append(in, map[string]interface{}{"e": m.evalTerm(b).Int64()})
				}
			}
		}
		e["in"] = in
		var ob []int64
		for _, b := range a.out {
			switch b := b.(type) {
			case int64:
				ob = append(ob, b)
			case *Term:
				ob = append(ob, m.evalTerm(b).Int64())
			}
		}
		e["out"] = ob
		out = append(out, e)
	}
	return out
}

func (m *Machine) accSolver(b SolverStats) {
	a := m.solver.Stats
	s := &m.solverAcc
	s.Queries += a.Queries - b.Queries
	s.CacheHits += a.CacheHits - b.CacheHits
	s.Sat += a.Sat - b.Sat
	s.Unsat += a.Unsat - b.Unsat
	s.Unknown += a.Unknown - b.Unknown
	s.Fallbacks += a.Fallbacks - b.Fallbacks
	s.FallbackOK += a.FallbackOK - b.FallbackOK
	s.Errors += a.Errors - b.Errors
	s.Seconds += a.Seconds - b.Seconds
	s.CrossChecked += a.CrossChecked - b.CrossChecked
	s.Disagreements += a.Disagreements - b.Disagreements
	if a.MaxQuerySec > s.MaxQuerySec {
		s.MaxQuerySec = a.MaxQuerySec
	}
}

func dumpTerm(t *Term, depth int) string {
	if depth == 0 || t.Op == "const" || t.Op == "var" {
		if t.Op == "const" {
			return t.constStr()
		}
		if t.Op == "var" {
			return t.Name
		}
		return "…"
	}
	s := "(" + t.Op
	if t.Op == "extract" || t.Op == "zero_extend" || t.Op == "sign_extend" {
		s += fmt.Sprintf("[%d,%d]", t.P1, t.P2)
	}
	for _, a := range t.Args {
		s += " " + dumpTerm(a, depth-1)
	}
	return s + ")"
}
