package main

// Solver back end: one long-lived `z3 -in` per explorer, one (push)/(pop) scope per path,
// transcript kept so that an `unknown` can be re-tried one-shot on the other solvers
// (cvc5 --solve-bv-as-int=sum for word-level arithmetic, z3-new).

import (
	"sync"
	"sort"
	"crypto/sha256"
	"bufio"
	"bytes"
	"fmt"
	"io"
	"math/big"
	"os"
	"os/exec"
	"strings"
	"time"
)

type SatResult int

const (
	Unsat SatResult = iota
	Sat
	Unknown
)

func (r SatResult) String() string { return [...]string{"unsat", "sat", "unknown"}[r] }

type SolverStats struct {
	Queries     int
	CacheHits   int
	Sat         int
	Unsat       int
	Unknown     int
	Fallbacks   int
	FallbackOK  int
	Errors      int
	Seconds     float64
	MaxQuerySec float64
	CrossChecked int
	Disagreements int
}

type Solver struct {
	cmd        *exec.Cmd
	in         io.WriteCloser
	out        *bufio.Reader
	pool       *TermPool
	script     []string // transcript of the current path scope
	declared   map[string]bool
	declaredUF map[string]bool
	Stats      SolverStats
	TimeoutMs  int
	FallbackMs int
	PreferInt  bool // try cvc5-int first
	OneShot    bool // (reset) + full script per query: lets z3 use its non-incremental BV tactics
	Trace      io.Writer
	crossEvery int
	nUnsatSeen int
	sliceVars  []*Term
}

func NewSolver(timeoutMs, fallbackMs int) (*Solver, error) {
	s := &Solver{TimeoutMs: timeoutMs, FallbackMs: fallbackMs, crossEvery: 0, OneShot: os.Getenv("SYMGO_INCR") == ""}
	if err := s.start(); err != nil {
		return nil, err
	}
	return s, nil
}

func (s *Solver) start() error {
	bin := os.Getenv("SYMGO_Z3")
	if bin == "" {
		bin = "z3-new"
	}
	s.cmd = exec.Command(bin, "-in")
	in, err := s.cmd.StdinPipe()
	if err != nil {
		return err
	}
	out, err := s.cmd.StdoutPipe()
	if err != nil {
		return err
	}
	s.cmd.Stderr = os.Stderr
	if err := s.cmd.Start(); err != nil {
		return err
	}
	s.in = in
	s.out = bufio.NewReaderSize(out, 1<<16)
	s.raw(fmt.Sprintf("(set-option :timeout %d)", s.TimeoutMs))
	s.raw("(set-option :produce-models true)")
	return nil
}

func (s *Solver) Close() {
	if s.cmd != nil {
		s.in.Close()
		s.cmd.Process.Kill()
		s.cmd.Wait()
		s.cmd = nil
	}
}

func (s *Solver) raw(line string) {
	if s.Trace != nil {
		fmt.Fprintln(s.Trace, line)
	}
	io.WriteString(s.in, line)
	io.WriteString(s.in, "\n")
}

func (s *Solver) send(line string) {
	s.script = append(s.script, line)
	if !s.OneShot {
		s.raw(line)
	}
}

func (s *Solver) readLine() string {
	line, err := s.out.ReadString('\n')
	if err != nil {
		return "(error \"solver died: " + err.Error() + "\")"
	}
	return strings.TrimSpace(line)
}

// readSexp reads one balanced s-expression (possibly multi-line).
func (s *Solver) readSexp() string {
	var sb strings.Builder
	depth := 0
	started := false
	for {
		line, err := s.out.ReadString('\n')
		if err != nil {
			return sb.String()
		}
		sb.WriteString(line)
		for _, c := range line {
			if c == '(' {
				depth++
				started = true
			} else if c == ')' {
				depth--
			}
		}
		if started && depth <= 0 {
			return sb.String()
		}
		if !started && strings.TrimSpace(line) != "" {
			return sb.String()
		}
	}
}

func (s *Solver) BeginPath(pool *TermPool) {
	s.pool = pool
	s.script = s.script[:0]
	s.declared = map[string]bool{}
	s.declaredUF = map[string]bool{}
	if !s.OneShot {
		s.raw("(push 1)")
	}
}

func (s *Solver) EndPath() {
	if !s.OneShot {
		s.raw("(pop 1)")
	}
	s.pool = nil
}

// emit makes sure t (and everything below it) is defined in the solver; returns its reference.
func (s *Solver) emit(t *Term) string {
	switch t.Op {
	case "const":
		return t.constStr()
	case "var":
		if !s.declared[t.Name] {
			s.declared[t.Name] = true
			s.send(fmt.Sprintf("(declare-const %s %s)", t.Name, sortStr(t.W)))
		}
		return t.Name
	}
	if t.emitted {
		return t.ref()
	}
	// iterative post-order to avoid deep recursion on long chains
	type item struct {
		t    *Term
		next int
	}
	stack := []item{{t, 0}}
	for len(stack) > 0 {
		top := &stack[len(stack)-1]
		if top.next < len(top.t.Args) {
			a := top.t.Args[top.next]
			top.next++
			if a.Op == "const" || a.emitted {
				continue
			}
			if a.Op == "var" {
				s.emit(a)
				continue
			}
			stack = append(stack, item{a, 0})
			continue
		}
		x := top.t
		stack = stack[:len(stack)-1]
		if x.emitted {
			continue
		}
		if x.Op == "app" && !s.declaredUF[x.Name] {
			s.declaredUF[x.Name] = true
			s.send(fmt.Sprintf("(declare-fun %s %s)", x.Name, s.pool.ufs[x.Name]))
		}
		s.send(fmt.Sprintf("(define-fun %s () %s %s)", x.ref(), sortStr(x.W), x.body()))
		x.emitted = true
	}
	return t.ref()
}

func (s *Solver) Assert(t *Term) {
	if t.IsTrue() {
		return
	}
	r := s.emit(t)
	s.send("(assert " + r + ")")
}

// Check decides satisfiability of (asserted path condition ∧ extra). If wantModel and the result
// is Sat, the model of all declared variables is returned.
func (s *Solver) Check(extra *Term, wantModel bool) (SatResult, map[string]*big.Int) {
	if extra != nil && extra.IsFalse() {
		return Unsat, nil
	}
	t0 := time.Now()
	s.Stats.Queries++
	var ref string
	if extra != nil && !extra.IsTrue() {
		ref = s.emit(extra)
	}
	if s.OneShot {
		s.raw("(reset)")
		s.raw(fmt.Sprintf("(set-option :timeout %d)", s.TimeoutMs))
		s.raw("(set-option :produce-models true)")
		var sb strings.Builder
		for _, l := range s.script {
			sb.WriteString(l)
			sb.WriteByte('\n')
		}
		io.WriteString(s.in, sb.String())
	} else {
		s.raw("(push 1)")
	}
	if ref != "" {
		s.raw("(assert " + ref + ")")
	}
	var res SatResult
	var model map[string]*big.Int
	tryPrimary := true
	if s.PreferInt {
		if r, m, ok := s.fallback(ref, wantModel, true); ok {
			res, model = r, m
			tryPrimary = false
		}
	}
	if tryPrimary {
		s.raw("(check-sat)")
		ans := s.readLine()
		for strings.HasPrefix(ans, "(error") {
			s.Stats.Errors++
			fmt.Fprintln(os.Stderr, "solver error:", ans)
			ans = "unknown"
		}
		switch ans {
		case "sat":
			res = Sat
			if wantModel {
				model = s.getModel()
			}
		case "unsat":
			res = Unsat
		default:
			res = Unknown
		}
		if res == Unknown {
			s.Stats.Fallbacks++
			if r, m, ok := s.fallback(ref, wantModel, false); ok {
				s.Stats.FallbackOK++
				res, model = r, m
			}
		}
	}
	if !s.OneShot {
		s.raw("(pop 1)")
	}
	switch res {
	case Sat:
		s.Stats.Sat++
	case Unsat:
		s.Stats.Unsat++
		s.nUnsatSeen++
		if s.crossEvery > 0 && s.nUnsatSeen%s.crossEvery == 0 {
			s.crossCheck(ref, res)
		}
	default:
		s.Stats.Unknown++
	}
	d := time.Since(t0).Seconds()
	if dir := os.Getenv("SYMGO_SLOWQ"); dir != "" && d > 0.3 {
		var buf bytes.Buffer
		for _, l := range s.script {
			buf.WriteString(l + "\n")
		}
		if ref != "" {
			buf.WriteString("(assert " + ref + ")\n")
		}
		buf.WriteString("(check-sat)\n")
		os.WriteFile(fmt.Sprintf("%s/q%d_%s_%.1fs.smt2", dir, s.Stats.Queries, res, d), buf.Bytes(), 0o644)
	}
	s.Stats.Seconds += d
	if d > s.Stats.MaxQuerySec {
		s.Stats.MaxQuerySec = d
	}
	return res, model
}

func (s *Solver) getModel() map[string]*big.Int {
	m := map[string]*big.Int{}
	vars := s.pool.vars
	const chunk = 200
	for i := 0; i < len(vars); i += chunk {
		j := i + chunk
		if j > len(vars) {
			j = len(vars)
		}
		var sb strings.Builder
		sb.WriteString("(get-value (")
		n := 0
		for _, v := range vars[i:j] {
			if s.declared[v.Name] {
				sb.WriteString(v.Name)
				sb.WriteByte(' ')
				n++
			}
		}
		sb.WriteString("))")
		if n == 0 {
			continue
		}
		s.raw(sb.String())
		parseModel(s.readSexp(), m)
	}
	return m
}

// parseModel parses "((a #x01) (b true) (c (_ bv5 8)))" into m.
func parseModel(txt string, m map[string]*big.Int) {
	toks := tokenize(txt)
	// expect ( ( name val ) ... )
	i := 0
	next := func() string {
		if i < len(toks) {
			i++
			return toks[i-1]
		}
		return ""
	}
	if next() != "(" {
		return
	}
	for i < len(toks) {
		t := next()
		if t == ")" {
			return
		}
		if t != "(" {
			return
		}
		name := next()
		v := next()
		var val *big.Int
		if v == "(" { // (_ bvN w)
			next() // _
			bv := next()
			next() // width
			next() // )
			val, _ = new(big.Int).SetString(strings.TrimPrefix(bv, "bv"), 10)
		} else if strings.HasPrefix(v, "#x") {
			val, _ = new(big.Int).SetString(v[2:], 16)
		} else if strings.HasPrefix(v, "#b") {
			val, _ = new(big.Int).SetString(v[2:], 2)
		} else if v == "true" {
			val = big.NewInt(1)
		} else if v == "false" {
			val = big.NewInt(0)
		}
		if val != nil {
			m[name] = val
		}
		next() // )
	}
}

func tokenize(s string) []string {
	var toks []string
	cur := strings.Builder{}
	flush := func() {
		if cur.Len() > 0 {
			toks = append(toks, cur.String())
			cur.Reset()
		}
	}
	for _, c := range s {
		switch c {
		case '(', ')':
			flush()
			toks = append(toks, string(c))
		case ' ', '\n', '\t', '\r':
			flush()
		default:
			cur.WriteRune(c)
		}
	}
	flush()
	return toks
}

// fallback runs the whole transcript one-shot on the other solvers.
func (s *Solver) fallback(extraRef string, wantModel bool, intOnly bool) (SatResult, map[string]*big.Int, bool) {
	var buf bytes.Buffer
	buf.WriteString("(set-option :produce-models true)\n(set-logic ALL)\n")
	for _, l := range s.script {
		buf.WriteString(l)
		buf.WriteByte('\n')
	}
	if extraRef != "" {
		buf.WriteString("(assert " + extraRef + ")\n")
	}
	buf.WriteString("(check-sat)\n")
	if wantModel {
		buf.WriteString("(get-value (")
		if s.sliceVars != nil {
			for _, v := range s.sliceVars {
				buf.WriteString(v.Name + " ")
			}
		} else {
			for _, v := range s.pool.vars {
				if s.declared[v.Name] {
					buf.WriteString(v.Name + " ")
				}
			}
		}
		buf.WriteString("))\n")
	}
	type cand struct {
		name string
		args []string
	}
	ms := s.FallbackMs
	cands := []cand{
		{"cvc5", []string{"--solve-bv-as-int=sum", fmt.Sprintf("--tlimit=%d", ms), "--lang=smt2"}},
	}
	if !intOnly {
		cands = append(cands,
			cand{"z3-new", []string{"-in", fmt.Sprintf("-t:%d", ms)}},
			cand{"cvc5", []string{fmt.Sprintf("--tlimit=%d", ms), "--lang=smt2"}})
	}
	for _, c := range cands {
		cmd := exec.Command(c.name, c.args...)
		cmd.Stdin = bytes.NewReader(buf.Bytes())
		outb, _ := cmd.Output()
		out := string(outb)
		if strings.Contains(out, "(error") {
			// get-value after unsat yields an error; only the first line matters then
			first := strings.TrimSpace(strings.SplitN(out, "\n", 2)[0])
			if first != "unsat" {
				continue
			}
		}
		first := strings.TrimSpace(strings.SplitN(out, "\n", 2)[0])
		switch first {
		case "unsat":
			return Unsat, nil, true
		case "sat":
			var m map[string]*big.Int
			if wantModel {
				m = map[string]*big.Int{}
				rest := strings.SplitN(out, "\n", 2)
				if len(rest) == 2 {
					parseModel(rest[1], m)
				}
			}
			return Sat, m, true
		}
	}
	return Unknown, nil, false
}

// crossCheck re-decides the current query on z3-new and cvc5 and counts disagreements.
func (s *Solver) crossCheck(extraRef string, got SatResult) {
	save := s.FallbackMs
	if s.FallbackMs > 10000 {
		s.FallbackMs = 10000
	}
	defer func() { s.FallbackMs = save }()
	var buf bytes.Buffer
	buf.WriteString("(set-logic ALL)\n")
	for _, l := range s.script {
		buf.WriteString(l + "\n")
	}
	if extraRef != "" {
		buf.WriteString("(assert " + extraRef + ")\n")
	}
	buf.WriteString("(check-sat)\n")
	for _, c := range [][]string{{"z3-new", "-in", fmt.Sprintf("-t:%d", s.FallbackMs)}, {"cvc5", fmt.Sprintf("--tlimit=%d", s.FallbackMs), "--lang=smt2"}} {
		cmd := exec.Command(c[0], c[1:]...)
		cmd.Stdin = bytes.NewReader(buf.Bytes())
		outb, _ := cmd.Output()
		first := strings.TrimSpace(strings.SplitN(string(outb), "\n", 2)[0])
		if first == "sat" || first == "unsat" {
			s.Stats.CrossChecked++
			if first != got.String() {
				s.Stats.Disagreements++
				fmt.Fprintf(os.Stderr, "SOLVER DISAGREEMENT: primary=%s %s=%s\n", got, c[0], first)
			}
		}
	}
}

// CheckSlice decides satisfiability of the conjunction of `conj` (and extra) with a freshly built
// script containing only what those terms reach.  The returned model covers the reachable variables.
func (s *Solver) CheckSlice(conj []*Term, extra *Term, wantModel bool) (SatResult, map[string]*big.Int) {
	if extra != nil && extra.IsFalse() {
		return Unsat, nil
	}
	t0 := time.Now()
	s.Stats.Queries++
	ckey, cacheable := queryKey(conj, extra, s.PreferInt)
	if cacheable {
		if e, ok := queryCacheGet(ckey); ok && (e.res == Unsat || !wantModel || e.model != nil) {
			s.Stats.CacheHits++
			if e.res == Sat {
				s.Stats.Sat++
			} else {
				s.Stats.Unsat++
			}
			return e.res, e.model
		}
	}
	var lines []string
	var vars []*Term
	seen := map[int]bool{}
	ufSeen := map[string]bool{}
	var visit func(t *Term)
	visit = func(root *Term) {
		type item struct {
			t    *Term
			next int
		}
		if seen[root.id] || root.Op == "const" {
			return
		}
		stack := []item{{root, 0}}
		for len(stack) > 0 {
			top := &stack[len(stack)-1]
			if top.next < len(top.t.Args) {
				a := top.t.Args[top.next]
				top.next++
				if a.Op != "const" && !seen[a.id] {
					stack = append(stack, item{a, 0})
				}
				continue
			}
			x := top.t
			stack = stack[:len(stack)-1]
			if seen[x.id] {
				continue
			}
			seen[x.id] = true
			switch x.Op {
			case "var":
				vars = append(vars, x)
				lines = append(lines, fmt.Sprintf("(declare-const %s %s)", x.Name, sortStr(x.W)))
			default:
				if x.Op == "app" && !ufSeen[x.Name] {
					ufSeen[x.Name] = true
					lines = append(lines, fmt.Sprintf("(declare-fun %s %s)", x.Name, s.pool.ufs[x.Name]))
				}
				lines = append(lines, fmt.Sprintf("(define-fun %s () %s %s)", x.ref(), sortStr(x.W), x.body()))
			}
		}
	}
	for _, c := range conj {
		visit(c)
		lines = append(lines, "(assert "+c.ref()+")")
	}
	if extra != nil && !extra.IsTrue() {
		visit(extra)
		lines = append(lines, "(assert "+extra.ref()+")")
	}
	s.script = lines
	var res SatResult
	var model map[string]*big.Int
	getModel := func() map[string]*big.Int {
		m := map[string]*big.Int{}
		const chunk = 256
		for i := 0; i < len(vars); i += chunk {
			j := i + chunk
			if j > len(vars) {
				j = len(vars)
			}
			var sb strings.Builder
			sb.WriteString("(get-value (")
			for _, v := range vars[i:j] {
				sb.WriteString(v.Name)
				sb.WriteByte(' ')
			}
			sb.WriteString("))")
			s.raw(sb.String())
			parseModel(s.readSexp(), m)
		}
		return m
	}
	s.sliceVars = vars
	tryPrimary := true
	if s.PreferInt {
		if r, m, ok := s.fallback("", wantModel, true); ok {
			res, model = r, m
			tryPrimary = false
		}
	}
	if tryPrimary {
		s.raw("(reset)")
		s.raw(fmt.Sprintf("(set-option :timeout %d)", s.TimeoutMs))
		s.raw("(set-option :produce-models true)")
		var sb strings.Builder
		for _, l := range lines {
			sb.WriteString(l)
			sb.WriteByte('\n')
		}
		io.WriteString(s.in, sb.String())
		s.raw("(check-sat)")
		ans := s.readLine()
		for strings.HasPrefix(ans, "(error") {
			s.Stats.Errors++
			fmt.Fprintln(os.Stderr, "solver error:", ans)
			ans = "unknown"
		}
		switch ans {
		case "sat":
			res = Sat
			if wantModel {
				model = getModel()
			}
		case "unsat":
			res = Unsat
		default:
			res = Unknown
		}
		if res == Unknown {
			s.Stats.Fallbacks++
			if r, m, ok := s.fallback("", wantModel, false); ok {
				s.Stats.FallbackOK++
				res, model = r, m
			}
		}
	}
	switch res {
	case Sat:
		s.Stats.Sat++
	case Unsat:
		s.Stats.Unsat++
		s.nUnsatSeen++
		if s.crossEvery > 0 && s.nUnsatSeen%s.crossEvery == 0 {
			s.crossCheck("", res)
		}
	default:
		s.Stats.Unknown++
	}
	if cacheable && res != Unknown {
		queryCachePut(ckey, queryCacheEntry{res: res, model: model})
	}
	d := time.Since(t0).Seconds()
	if dir := os.Getenv("SYMGO_SLOWQ"); dir != "" && d > 0.3 {
		os.WriteFile(fmt.Sprintf("%s/q%d_%s_%.1fs.smt2", dir, s.Stats.Queries, res, d), []byte(strings.Join(lines, "\n")+"\n(check-sat)\n"), 0o644)
	}
	s.Stats.Seconds += d
	if d > s.Stats.MaxQuerySec {
		s.Stats.MaxQuerySec = d
	}
	return res, model
}


// ---------------------------------------------------------------- query cache
//
// Solver verdicts are memoised across paths and workers, keyed by the structural hashes of the
// asserted conjuncts (order-insensitive). Only definite answers are stored; a cached answer is the
// answer the solver gave to exactly this set of assertions.

type queryCacheEntry struct {
	res   SatResult
	model map[string]*big.Int
}

var (
	queryCacheMu  sync.RWMutex
	queryCacheTab = map[[32]byte]queryCacheEntry{}
	queryCacheOff = os.Getenv("SYMGO_NOCACHE") != ""
)

func queryKey(conj []*Term, extra *Term, preferInt bool) ([32]byte, bool) {
	if queryCacheOff {
		return [32]byte{}, false
	}
	hs := make([][16]byte, 0, len(conj)+1)
	for _, c := range conj {
		hs = append(hs, c.structHash())
	}
	if extra != nil && !extra.IsTrue() {
		hs = append(hs, extra.structHash())
	}
	sort.Slice(hs, func(i, j int) bool { return bytes.Compare(hs[i][:], hs[j][:]) < 0 })
	h := sha256.New()
	var prev [16]byte
	for i, x := range hs {
		if i > 0 && x == prev {
			continue
		}
		h.Write(x[:])
		prev = x
	}
	var k [32]byte
	copy(k[:], h.Sum(nil))
	return k, true
}

func queryCacheGet(k [32]byte) (queryCacheEntry, bool) {
	queryCacheMu.RLock()
	e, ok := queryCacheTab[k]
	queryCacheMu.RUnlock()
	return e, ok
}

func queryCachePut(k [32]byte, e queryCacheEntry) {
	queryCacheMu.Lock()
	if old, ok := queryCacheTab[k]; !ok || (old.model == nil && e.model != nil) {
		queryCacheTab[k] = e
	}
	queryCacheMu.Unlock()
}
