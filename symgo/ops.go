package main

// Operators on (possibly symbolic) values.  Semantics follow go/ssa/interp; integers wrap as in Go.

import (
	"fmt"
	"go/token"
	"go/types"
	"math"
	"math/big"
	"unicode/utf8"
)

func (m *Machine) toTerm(v Value, w int) *Term {
	switch v := v.(type) {
	case *Term:
		if v.W != w {
			panic(fmt.Sprintf("toTerm: width %d, want %d (%s)", v.W, w, termString(v)))
		}
		return v
	case int64:
		return m.pool.ConstU(uint64(v), w)
	case bool:
		if w != 0 {
			panic("toTerm: bool with width")
		}
		return m.pool.Bool(v)
	}
	panic(fmt.Sprintf("toTerm: %T", v))
}

// simp turns constant terms back into concrete values.
func simp(t *Term, signed bool) Value {
	if t.IsConst() {
		if t.W == 0 {
			return t.C.Sign() != 0
		}
		return canon(int64(t.C.Uint64()), t.W, signed)
	}
	return t
}

func (m *Machine) not(v Value) Value {
	switch v := v.(type) {
	case bool:
		return !v
	case *Term:
		return simp(m.pool.Not(v), false)
	}
	panic(fmt.Sprintf("not: %T", v))
}

func (m *Machine) and(a, b Value) Value {
	if x, ok := a.(bool); ok {
		if !x {
			return false
		}
		return b
	}
	if y, ok := b.(bool); ok {
		if !y {
			return false
		}
		return a
	}
	return simp(m.pool.And(a.(*Term), b.(*Term)), false)
}

func (m *Machine) or(a, b Value) Value {
	if x, ok := a.(bool); ok {
		if x {
			return true
		}
		return b
	}
	if y, ok := b.(bool); ok {
		if y {
			return true
		}
		return a
	}
	return simp(m.pool.Or(a.(*Term), b.(*Term)), false)
}

func (m *Machine) boolTerm(v Value) *Term {
	switch v := v.(type) {
	case bool:
		return m.pool.Bool(v)
	case *Term:
		return v
	}
	panic(fmt.Sprintf("boolTerm: %T", v))
}

func (m *Machine) ite(c Value, a, b Value, w int, signed bool) Value {
	if cb, ok := c.(bool); ok {
		if cb {
			return a
		}
		return b
	}
	return simp(m.pool.Ite(c.(*Term), m.toTerm(a, w), m.toTerm(b, w)), signed)
}

func rtPanicMsg(msg string) targetPanic { return targetPanic{rt: msg} }

// binop implements all binary operators.  t is the static type of the operands (of x for shifts).
func (m *Machine) binop(fr *frame, op token.Token, t types.Type, ty types.Type, x, y Value) Value {
	switch op {
	case token.EQL:
		return m.eqVal(x, y)
	case token.NEQ:
		return m.not(m.eqVal(x, y))
	}
	ut := t.Underlying()
	if b, ok := ut.(*types.Basic); ok {
		switch {
		case b.Info()&types.IsString != 0:
			return m.strBinop(op, x, y)
		case b.Info()&types.IsFloat != 0:
			return floatBinop(op, b, x, y)
		case b.Info()&types.IsComplex != 0:
			panic(pathEnd{kind: "unsupported", msg: "complex arithmetic"})
		}
	}
	w, signed, ok := intInfo(t)
	if !ok {
		panic(fmt.Sprintf("binop %s on %s", op, t))
	}
	if op == token.SHL || op == token.SHR {
		return m.shift(fr, op, w, signed, ty, x, y)
	}
	xc, xok := x.(int64)
	yc, yok := y.(int64)
	if xok && yok {
		return concIntBinop(op, w, signed, xc, yc)
	}
	xt, yt := m.toTerm(x, w), m.toTerm(y, w)
	p := m.pool
	switch op {
	case token.ADD:
		return simp(p.BvBin("bvadd", xt, yt), signed)
	case token.SUB:
		return simp(p.BvBin("bvsub", xt, yt), signed)
	case token.MUL:
		return simp(p.BvBin("bvmul", xt, yt), signed)
	case token.QUO, token.REM:
		// division by zero panics: fork on y == 0
		if yok {
			if yc == 0 {
				panic(rtPanicMsg("integer divide by zero"))
			}
		} else {
			if m.branch(fr, p.Eq(yt, p.ConstU(0, w)), "div0") {
				panic(rtPanicMsg("integer divide by zero"))
			}
		}
		var o string
		switch {
		case op == token.QUO && signed:
			o = "bvsdiv"
		case op == token.QUO:
			o = "bvudiv"
		case signed:
			o = "bvsrem"
		default:
			o = "bvurem"
		}
		return simp(p.BvBin(o, xt, yt), signed)
	case token.AND:
		return simp(p.BvBin("bvand", xt, yt), signed)
	case token.OR:
		return simp(p.BvBin("bvor", xt, yt), signed)
	case token.XOR:
		return simp(p.BvBin("bvxor", xt, yt), signed)
	case token.AND_NOT:
		return simp(p.BvBin("bvand", xt, p.BvNot(yt)), signed)
	case token.LSS, token.LEQ, token.GTR, token.GEQ:
		s := "u"
		if signed {
			s = "s"
		}
		var o string
		switch op {
		case token.LSS:
			o = "lt"
		case token.LEQ:
			o = "le"
		case token.GTR:
			o = "gt"
		default:
			o = "ge"
		}
		return simp(p.BvCmp("bv"+s+o, xt, yt), false)
	}
	panic(fmt.Sprintf("binop: unexpected %s", op))
}

func concIntBinop(op token.Token, w int, signed bool, x, y int64) Value {
	ux, uy := uint64(x), uint64(y)
	switch op {
	case token.ADD:
		return canon(x+y, w, signed)
	case token.SUB:
		return canon(x-y, w, signed)
	case token.MUL:
		return canon(x*y, w, signed)
	case token.QUO:
		if y == 0 {
			panic(rtPanicMsg("integer divide by zero"))
		}
		if signed {
			if y == -1 {
				return canon(-x, w, signed)
			}
			return canon(x/y, w, signed)
		}
		return canon(int64(ux/uy), w, signed)
	case token.REM:
		if y == 0 {
			panic(rtPanicMsg("integer divide by zero"))
		}
		if signed {
			if y == -1 {
				return int64(0)
			}
			return canon(x%y, w, signed)
		}
		return canon(int64(ux%uy), w, signed)
	case token.AND:
		return canon(x&y, w, signed)
	case token.OR:
		return canon(x|y, w, signed)
	case token.XOR:
		return canon(x^y, w, signed)
	case token.AND_NOT:
		return canon(x&^y, w, signed)
	case token.LSS:
		if signed {
			return x < y
		}
		return ux < uy
	case token.LEQ:
		if signed {
			return x <= y
		}
		return ux <= uy
	case token.GTR:
		if signed {
			return x > y
		}
		return ux > uy
	case token.GEQ:
		if signed {
			return x >= y
		}
		return ux >= uy
	}
	panic(fmt.Sprintf("concIntBinop: %s", op))
}

func (m *Machine) shift(fr *frame, op token.Token, w int, signed bool, ty types.Type, x, y Value) Value {
	yw, ysigned, ok := intInfo(ty)
	if !ok {
		panic("shift count type")
	}
	xc, xok := x.(int64)
	yc, yok := y.(int64)
	if yok && ysigned && yc < 0 {
		panic(rtPanicMsg("negative shift amount"))
	}
	if xok && yok {
		uy := uint64(yc)
		if op == token.SHL {
			if uy >= 64 {
				return int64(0)
			}
			return canon(xc<<uy, w, signed)
		}
		if signed {
			if uy >= 64 {
				uy = 63
			}
			return canon(xc>>uy, w, signed)
		}
		if uy >= 64 {
			return int64(0)
		}
		return canon(int64(uint64(xc)>>uy), w, signed)
	}
	p := m.pool
	xt := m.toTerm(x, w)
	var cnt *Term
	if yok {
		uy := uint64(yc)
		if uy >= uint64(w) {
			uy = uint64(w) // saturate; SMT shifts by >= width give 0 / sign fill as Go does
		}
		cnt = p.ConstU(uy, w)
	} else {
		yt := y.(*Term)
		if ysigned {
			if m.branch(fr, p.BvCmp("bvslt", yt, p.ConstU(0, yw)), "negshift") {
				panic(rtPanicMsg("negative shift amount"))
			}
		}
		if yw <= w {
			cnt = p.ZeroExt(yt, w)
		} else {
			// saturate wide counts
			big := p.BvCmp("bvuge", yt, p.ConstU(uint64(w), yw))
			cnt = p.Ite(big, p.ConstU(uint64(w), w), p.Extract(w-1, 0, yt))
		}
	}
	switch {
	case op == token.SHL:
		return simp(p.BvBin("bvshl", xt, cnt), signed)
	case signed:
		return simp(p.BvBin("bvashr", xt, cnt), signed)
	default:
		return simp(p.BvBin("bvlshr", xt, cnt), signed)
	}
}

// symFloat is the result of converting a symbolic integer to floating point.
type symFloat struct{}

func floatBinop(op token.Token, b *types.Basic, x, y Value) Value {
	xf, ok1 := x.(float64)
	yf, ok2 := y.(float64)
	if !ok1 || !ok2 {
		switch op {
		case token.ADD, token.SUB, token.MUL, token.QUO:
			return symFloat{}
		}
		panic(pathEnd{kind: "unsupported", msg: "comparison of a float derived from a symbolic integer"})
	}
	r := func(f float64) Value {
		if b.Kind() == types.Float32 {
			return float64(float32(f))
		}
		return f
	}
	switch op {
	case token.ADD:
		return r(xf + yf)
	case token.SUB:
		return r(xf - yf)
	case token.MUL:
		return r(xf * yf)
	case token.QUO:
		return r(xf / yf)
	case token.LSS:
		return xf < yf
	case token.LEQ:
		return xf <= yf
	case token.GTR:
		return xf > yf
	case token.GEQ:
		return xf >= yf
	}
	panic("floatBinop: " + op.String())
}

func (m *Machine) strBinop(op token.Token, x, y Value) Value {
	xs, xok := x.(string)
	ys, yok := y.(string)
	if xok && yok {
		switch op {
		case token.ADD:
			return xs + ys
		case token.LSS:
			return xs < ys
		case token.LEQ:
			return xs <= ys
		case token.GTR:
			return xs > ys
		case token.GEQ:
			return xs >= ys
		}
	}
	if op == token.ADD {
		sx, okx := x.(*SymStr)
		sy, oky := y.(*SymStr)
		if (okx && sx.Opaque) || (oky && sy.Opaque) {
			return &SymStr{Opaque: true}
		}
		b := append(append([]Value{}, strBytes(x)...), strBytes(y)...)
		return mkStr(b)
	}
	// lexicographic comparison, symbolic
	a, b := strBytes(x), strBytes(y)
	lt := m.lexLess(a, b, op == token.LEQ || op == token.GEQ, op == token.GTR || op == token.GEQ)
	return lt
}

// lexLess returns a<b (or a<=b when orEq); with swap, b<a (b<=a).
func (m *Machine) lexLess(a, b []Value, orEq, swap bool) Value {
	if swap {
		a, b = b, a
	}
	p := m.pool
	n := len(a)
	if len(b) < n {
		n = len(b)
	}
	// result when common prefix equal
	var res Value
	if len(a) < len(b) {
		res = true
	} else if len(a) == len(b) {
		res = orEq
	} else {
		res = false
	}
	for i := n - 1; i >= 0; i-- {
		at, bt := m.toTerm(a[i], 8), m.toTerm(b[i], 8)
		lt := simp(p.BvCmp("bvult", at, bt), false)
		eq := simp(p.Eq(at, bt), false)
		res = m.or(lt, m.and(eq, res))
	}
	return res
}

// eqVal implements ==.
func (m *Machine) eqVal(x, y Value) Value {
	switch x := x.(type) {
	case bool:
		switch y := y.(type) {
		case bool:
			return x == y
		case *Term:
			return simp(m.pool.Eq(m.pool.Bool(x), y), false)
		}
	case int64:
		switch y := y.(type) {
		case int64:
			return x == y
		case *Term:
			return simp(m.pool.Eq(m.pool.ConstU(uint64(x), y.W), y), false)
		}
	case *Term:
		switch y := y.(type) {
		case *Term:
			return simp(m.pool.Eq(x, y), false)
		case int64:
			return simp(m.pool.Eq(x, m.pool.ConstU(uint64(y), x.W)), false)
		case bool:
			return simp(m.pool.Eq(x, m.pool.Bool(y)), false)
		}
	case float64:
		if y, ok := y.(float64); ok {
			return x == y
		}
	case complex128:
		if y, ok := y.(complex128); ok {
			return x == y
		}
	case string:
		switch y := y.(type) {
		case string:
			return x == y
		case *SymStr:
			return m.eqBytes(strBytes(x), strBytes(y))
		}
	case *SymStr:
		switch y.(type) {
		case string, *SymStr:
			return m.eqBytes(strBytes(x), strBytes(y))
		}
	case *Value:
		if y, ok := y.(*Value); ok {
			return x == y
		}
	case UnsafePtr:
		if y, ok := y.(UnsafePtr); ok {
			return x.P == y.P
		}
	case *Map:
		if y, ok := y.(*Map); ok {
			return x == y
		}
	case *Chan:
		if y, ok := y.(*Chan); ok {
			return x == y
		}
	case Struct:
		if y, ok := y.(Struct); ok {
			var r Value = true
			for i := range x {
				r = m.and(r, m.eqVal(x[i], y[i]))
				if r == false {
					return false
				}
			}
			return r
		}
	case Array:
		if y, ok := y.(Array); ok {
			return m.eqBytes(x, y)
		}
	case Iface:
		if y, ok := y.(Iface); ok {
			if x.T == nil || y.T == nil {
				return x.T == nil && y.T == nil
			}
			if !types.Identical(x.T, y.T) {
				return false
			}
			if !types.Comparable(x.T) {
				panic(rtPanicMsg("comparing uncomparable type " + x.T.String()))
			}
			return m.eqVal(x.V, y.V)
		}
	case nil:
		// nil func
		return y == nil
	case Slice:
		// only comparison with nil is legal
		if y, ok := y.(Slice); ok {
			if y == nil {
				return x == nil
			}
			if x == nil {
				return y == nil
			}
		}
	case *Closure, *Native:
		return y == nil && false
	}
	if y == nil {
		// func compared with nil
		return false
	}
	panic(fmt.Sprintf("eqVal: incomparable %T and %T", x, y))
}

// eqBytes: element-wise equality of two element lists (used for arrays and strings).
func (m *Machine) eqBytes(a, b []Value) Value {
	if len(a) != len(b) {
		return false
	}
	// fast path + batching of 8-bit terms into wide equalities
	var r Value = true
	var la, lb *Term
	flush := func() {
		if la != nil {
			r = m.and(r, simp(m.pool.Eq(la, lb), false))
			la, lb = nil, nil
		}
	}
	for i := range a {
		xa, xb := a[i], b[i]
		ca, oka := xa.(int64)
		cb, okb := xb.(int64)
		if oka && okb {
			if ca != cb {
				return false
			}
			continue
		}
		ta, isTa := xa.(*Term)
		tb, isTb := xb.(*Term)
		if (isTa || oka) && (isTb || okb) && ((isTa && ta.W == 8) || (isTb && tb.W == 8)) {
			if oka {
				ta = m.pool.ConstU(uint64(ca), 8)
			}
			if okb {
				tb = m.pool.ConstU(uint64(cb), 8)
			}
			if la == nil {
				la, lb = ta, tb
			} else {
				la, lb = m.pool.Concat(la, ta), m.pool.Concat(lb, tb)
				if la.W >= 256 {
					flush()
				}
			}
			continue
		}
		flush()
		r = m.and(r, m.eqVal(xa, xb))
		if r == false {
			return false
		}
	}
	flush()
	return r
}

func (m *Machine) unop(fr *frame, op token.Token, t types.Type, x Value, commaOk bool) Value {
	switch op {
	case token.NOT:
		return m.not(x)
	case token.SUB:
		switch x := x.(type) {
		case float64:
			return -x
		case int64:
			w, signed, _ := intInfo(t)
			return canon(-x, w, signed)
		case *Term:
			_, signed, _ := intInfo(t)
			return simp(m.pool.BvNeg(x), signed)
		}
	case token.XOR:
		switch x := x.(type) {
		case int64:
			w, signed, _ := intInfo(t)
			return canon(^x, w, signed)
		case *Term:
			_, signed, _ := intInfo(t)
			return simp(m.pool.BvNot(x), signed)
		}
	case token.MUL: // load
		p := x.(*Value)
		if p == nil {
			panic(rtPanicMsg("invalid memory address or nil pointer dereference"))
		}
		return copyVal(*p)
	case token.ARROW:
		return m.chanRecv(fr, x.(*Chan), commaOk, deref0(t))
	}
	panic(fmt.Sprintf("unop %s %T", op, x))
}

func deref0(t types.Type) types.Type { return t }

// conv implements ssa.Convert.
func (m *Machine) conv(fr *frame, tdst, tsrc types.Type, x Value) Value {
	ud, us := tdst.Underlying(), tsrc.Underlying()
	// unsafe.Pointer conversions
	if b, ok := ud.(*types.Basic); ok && b.Kind() == types.UnsafePointer {
		switch x := x.(type) {
		case *Value:
			return UnsafePtr{P: x, T: tsrc}
		case UnsafePtr:
			return x
		case int64:
			if x == 0 {
				return UnsafePtr{}
			}
		}
		panic(pathEnd{kind: "unsupported", msg: "conversion to unsafe.Pointer from " + tsrc.String()})
	}
	if b, ok := us.(*types.Basic); ok && b.Kind() == types.UnsafePointer {
		up := x.(UnsafePtr)
		if _, ok := ud.(*types.Pointer); ok {
			if up.P == nil {
				return (*Value)(nil)
			}
			if up.T != nil && types.Identical(up.T.Underlying(), ud) {
				return up.P
			}
			// same-layout reinterpretation is outside the memory model
			panic(pathEnd{kind: "unsupported", msg: fmt.Sprintf("unsafe pointer cast %v -> %v", up.T, tdst)})
		}
		if bd, ok := ud.(*types.Basic); ok && bd.Kind() == types.Uintptr {
			if up.P == nil {
				return int64(0)
			}
			panic(pathEnd{kind: "unsupported", msg: "unsafe.Pointer to uintptr"})
		}
	}
	switch ud := ud.(type) {
	case *types.Basic:
		switch {
		case ud.Info()&types.IsInteger != 0:
			w2, s2, _ := intInfo(ud)
			switch x := x.(type) {
			case int64:
				return canon(x, w2, s2)
			case *Term:
				w1, s1, _ := intInfo(us)
				_ = w1
				if s1 {
					return simp(m.pool.SignExt(x, w2), s2)
				}
				return simp(m.pool.ZeroExt(x, w2), s2)
			case float64:
				if s2 {
					return canon(int64(x), w2, s2)
				}
				if x >= 0 {
					return canon(int64(uint64(x)), w2, s2)
				}
				return canon(int64(x), w2, s2)
			}
		case ud.Info()&types.IsFloat != 0:
			var f float64
			switch x := x.(type) {
			case float64:
				f = x
			case int64:
				_, s1, _ := intInfo(us)
				if s1 {
					f = float64(x)
				} else {
					f = float64(uint64(x))
				}
			case *Term:
				return symFloat{} // opaque: only metrics consume it; any inspection is unsupported
			case symFloat:
				return x
			}
			if ud.Kind() == types.Float32 {
				return float64(float32(f))
			}
			return f
		case ud.Info()&types.IsString != 0:
			switch us := us.(type) {
			case *types.Basic:
				if us.Info()&types.IsString != 0 {
					return x
				}
				// integer -> string (rune)
				c, ok := x.(int64)
				if !ok {
					panic(pathEnd{kind: "unsupported", msg: "string(symbolic rune)"})
				}
				return string(rune(c))
			case *types.Slice:
				el := us.Elem().Underlying().(*types.Basic)
				sl := x.(Slice)
				if el.Kind() == types.Uint8 {
					return mkStr(sl)
				}
				// []rune
				rs := make([]rune, len(sl))
				for i, e := range sl {
					c, ok := e.(int64)
					if !ok {
						panic(pathEnd{kind: "unsupported", msg: "string([]rune symbolic)"})
					}
					rs[i] = rune(c)
				}
				return string(rs)
			}
		case ud.Info()&types.IsComplex != 0:
			if c, ok := x.(complex128); ok {
				return c
			}
		}
	case *types.Slice:
		// string -> []byte / []rune
		if bs, ok := us.(*types.Basic); ok && bs.Info()&types.IsString != 0 {
			el := ud.Elem().Underlying().(*types.Basic)
			if el.Kind() == types.Uint8 {
				b := strBytes(x)
				r := make(Slice, len(b))
				copy(r, b)
				return r
			}
			s, ok := x.(string)
			if !ok {
				panic(pathEnd{kind: "unsupported", msg: "[]rune(symbolic string)"})
			}
			var r Slice = Slice{}
			for _, c := range s {
				r = append(r, int64(c))
			}
			return r
		}
		return x
	case *types.Pointer, *types.Struct, *types.Array, *types.Map, *types.Chan, *types.Signature, *types.Interface:
		return x
	}
	panic(fmt.Sprintf("conv: %s -> %s (%T)", tsrc, tdst, x))
}

// concInt extracts a concrete int or concretises a symbolic one (forking over feasible values).
func (m *Machine) concInt(fr *frame, v Value, what string) int64 {
	switch v := v.(type) {
	case int64:
		return v
	case *Term:
		return m.concretize(fr, v, what)
	}
	panic(fmt.Sprintf("concInt(%s): %T", what, v))
}

func (m *Machine) concBool(fr *frame, v Value, what string) bool {
	switch v := v.(type) {
	case bool:
		return v
	case *Term:
		return m.branch(fr, v, what)
	}
	panic(fmt.Sprintf("concBool(%s): %T", what, v))
}

// runes for range-over-string
func decodeRuneAt(s string, i int) (rune, int) { return utf8.DecodeRuneInString(s[i:]) }

func bigFromInt64(x int64) *big.Int { return big.NewInt(x) }

var _ = math.MaxInt64
