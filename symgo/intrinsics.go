package main

// Native models of what cannot be executed from SSA: the vp API, runtime/sync, byte kernels,
// formatting, hashing and signatures (ideal crypto), time.

import (
	"bytes"
	"crypto/ed25519"
	"crypto/sha256"
	"crypto/sha512"
	"fmt"
	"go/token"
	"go/types"
	"hash/crc32"
	"math/big"
	"os"
	"sort"
	"strings"

	"golang.org/x/tools/go/ssa"
)

type intrinsic func(m *Machine, fr *frame, args []Value) Value

var intrinsics = map[string]intrinsic{}

// packages whose initialisers are never run (huge tables or OS access, nothing we depend on)
var skipInit = map[string]bool{
	"unicode": false, "os": false, "syscall": true, "runtime": true, "net": true, "os/signal": true,
	"internal/poll": true, "internal/godebug": true, "crypto/internal/boring": true, "log": false,
	"github.com/tendermint/tendermint/internal/verifvp": true,
	"reflect": true, "internal/reflectlite": true, "crypto/rand": true,
	"internal/cpu": true, "golang.org/x/sys/cpu": true, "golang.org/x/sys/unix": true,
	"encoding/json": true, "github.com/gogo/protobuf/proto": true, "github.com/golang/protobuf/proto": true,
	"google.golang.org/protobuf/internal/impl": true, "google.golang.org/protobuf/reflect/protoregistry": true,
	"net/http": true, "crypto/tls": true, "crypto/x509": true, "google.golang.org/grpc": true,
	"github.com/prometheus/client_golang/prometheus": true, "expvar": true,
}

const vpPath = "github.com/tendermint/tendermint/internal/verifvp."

func reg(name string, f intrinsic) { intrinsics[name] = f }

func constStr(v Value) string {
	s, ok := v.(string)
	if !ok {
		panic(pathEnd{kind: "engine", msg: "vp: name/label arguments must be concrete strings"})
	}
	return s
}

func sanitizeName(name string) string {
	var sb strings.Builder
	for _, c := range name {
		if c >= 'a' && c <= 'z' || c >= 'A' && c <= 'Z' || c >= '0' && c <= '9' || c == '_' || c == '.' {
			sb.WriteRune(c)
		} else {
			sb.WriteByte('_')
		}
	}
	return sb.String()
}

func (m *Machine) newInput(name string, w int, kind string) *Term {
	n := sanitizeName(name)
	k := m.nameCount[n]
	m.nameCount[n] = k + 1
	full := fmt.Sprintf("in_%s_%d", n, k)
	m.inputs = append(m.inputs, inputVar{Name: full, W: w, Kind: kind})
	if rp := m.opts.Replay; rp != nil {
		v := new(big.Int)
		if s, ok := rp.Model[full]; ok {
			v.SetString(s, 10)
		}
		if w == 0 {
			return m.pool.Bool(v.Sign() != 0)
		}
		return m.pool.ConstBV(v, w)
	}
	return m.pool.Var(full, w)
}

func (m *Machine) freshVar(prefix string, w int) *Term {
	m.freshSeq++
	return m.pool.Var(fmt.Sprintf("%s!%d", prefix, m.freshSeq), w)
}

func init() {
	// ------------------------------------------------------------ vp
	reg(vpPath+"Symbolic", func(m *Machine, fr *frame, a []Value) Value { return true })
	reg(vpPath+"Bool", func(m *Machine, fr *frame, a []Value) Value { return m.newInput(constStr(a[0]), 0, "bool") })
	mk := func(fn string, w int) {
		reg(vpPath+fn, func(m *Machine, fr *frame, a []Value) Value { return m.newInput(constStr(a[0]), w, fn) })
	}
	mk("Int64", 64)
	mk("Int", 64)
	mk("Int32", 32)
	mk("Int16", 16)
	mk("Int8", 8)
	mk("Uint64", 64)
	mk("Uint32", 32)
	mk("Uint16", 16)
	mk("Uint8", 8)
	mk("Byte", 8)
	reg(vpPath+"Bytes", func(m *Machine, fr *frame, a []Value) Value {
		name := constStr(a[0])
		n := int(m.concInt(fr, a[1], "vp.Bytes n"))
		r := make(Slice, n)
		for i := range r {
			r[i] = m.newInput(fmt.Sprintf("%s.%d", name, i), 8, "Byte")
		}
		return r
	})
	reg(vpPath+"Choice", func(m *Machine, fr *frame, a []Value) Value {
		n := int(m.concInt(fr, a[1], "vp.Choice n"))
		c := m.decide("choice", n, nil)
		m.choices = append(m.choices, c)
		return int64(c)
	})
	reg(vpPath+"Range", func(m *Machine, fr *frame, a []Value) Value {
		lo := m.concInt(fr, a[1], "vp.Range lo")
		hi := m.concInt(fr, a[2], "vp.Range hi")
		c := m.decide("choice", int(hi-lo+1), nil)
		m.choices = append(m.choices, c)
		return lo + int64(c)
	})
	reg(vpPath+"Assume", func(m *Machine, fr *frame, a []Value) Value {
		switch c := a[0].(type) {
		case bool:
			if !c {
				panic(pathEnd{kind: "assume"})
			}
		case *Term:
			if m.replaying() {
				m.addPC(c)
				return nil
			}
			if m.model == nil || !m.evalBool(c) {
				r, model := m.query(c, true)
				if r == Unsat {
					panic(pathEnd{kind: "assume"})
				}
				if r == Unknown {
					m.note("unknown_assume", "assumption feasibility unknown; kept")
					m.pcDoubt = true
				}
				m.setModel(model)
			}
			m.assertPC(c)
		}
		return nil
	})
	reg(vpPath+"Assert", func(m *Machine, fr *frame, a []Value) Value {
		id := constStr(a[1])
		pos := "?"
		if fr.caller != nil {
			pos = fr.caller.fn.Name()
		}
		m.checkAssert(fr, a[0], id, "", pos)
		return nil
	})
	reg(vpPath+"Reach", func(m *Machine, fr *frame, a []Value) Value {
		m.reachedNow = append(m.reachedNow, constStr(a[0]))
		return nil
	})
	reg(vpPath+"Note", func(m *Machine, fr *frame, a []Value) Value { return nil })
	reg(vpPath+"Unwind", func(m *Machine, fr *frame, a []Value) Value {
		m.unwindCap = int(m.concInt(fr, a[0], "unwind"))
		return nil
	})
	reg(vpPath+"Opt", func(m *Machine, fr *frame, a []Value) Value {
		v := int(m.concInt(fr, a[1], "opt"))
		switch constStr(a[0]) {
		case "maporder":
			m.opts.MapOrder = v != 0
			if v > 1 {
				m.opts.MapOrderMax = v
			}
		case "select":
			m.opts.SelectNondet = v != 0
		case "sched":
			m.opts.SchedNondet = v != 0
		case "preempt":
			m.opts.Preempt = v
		case "steps":
			m.opts.MaxSteps = int64(v)
		case "conccap":
			m.opts.ConcCap = v
		case "prefer_int":
			m.solver.PreferInt = v != 0
		case "timerfires":
			m.opts.MaxTimerFires = v
		case "switches":
			m.opts.MaxSwitches = v
		case "goroutines":
			m.opts.MaxGoroutines = v
		case "realqueries":
			m.opts.RealQueries = v != 0
		case "notimers":
			m.opts.NoTimers = v != 0
		default:
			panic(pathEnd{kind: "engine", msg: "unknown vp.Opt " + constStr(a[0])})
		}
		return nil
	})
	reg(vpPath+"Settle", func(m *Machine, fr *frame, a []Value) Value { m.settle(fr); return nil })
	reg(vpPath+"Blocked", func(m *Machine, fr *frame, a []Value) Value { return int64(m.blockedGoroutines()) })
	reg(vpPath+"Stub", func(m *Machine, fr *frame, a []Value) Value {
		itf := a[1].(Iface)
		m.stubs[constStr(a[0])] = itf.V
		return nil
	})
	reg(vpPath+"Fresh", func(m *Machine, fr *frame, a []Value) Value {
		n := int(m.concInt(fr, a[1], "vp.Fresh n"))
		name := constStr(a[0])
		r := make(Slice, n)
		for i := range r {
			if i < len(name) {
				r[i] = int64(name[i])
			} else {
				r[i] = int64(0)
			}
		}
		return r
	})
	reg(vpPath+"IdealSig", func(m *Machine, fr *frame, a []Value) Value {
		pk, msg := a[0].(Slice), a[1].(Slice)
		m.sigSeq++
		sig := make(Slice, 64)
		for i := range sig {
			sig[i] = int64(0)
		}
		// a concrete, unique tag: signatures are opaque in the ideal model
		tag := fmt.Sprintf("IDEALSIG#%d", m.sigSeq)
		for i := 0; i < len(tag); i++ {
			sig[i] = int64(tag[i])
		}
		m.sigs = append(m.sigs, &sigRecord{pk: append([]Value{}, pk...), msg: append([]Value{}, msg...), sig: append([]Value{}, sig...), valid: a[2]})
		return sig
	})

	// ------------------------------------------------------------ runtime, sync, atomic
	nop := func(m *Machine, fr *frame, a []Value) Value { return nil }
	for _, n := range []string{"runtime.SetFinalizer", "runtime.KeepAlive", "runtime.Gosched", "runtime.GC",
		"(*sync.Pool).Put", "runtime/debug.SetGCPercent", "runtime.LockOSThread", "runtime.UnlockOSThread",
		"os/signal.Notify", "os/signal.Stop", "runtime/debug.PrintStack", "sync.runtime_registerPoolCleanup",
		"internal/race.Acquire", "internal/race.Release", "internal/race.ReleaseMerge", "internal/race.Disable", "internal/race.Enable",
		"internal/race.Read", "internal/race.Write", "internal/race.ReadRange", "internal/race.WriteRange",
	} {
		reg(n, nop)
	}
	reg("runtime.NumCPU", func(m *Machine, fr *frame, a []Value) Value { return int64(4) })
	reg("runtime.GOMAXPROCS", func(m *Machine, fr *frame, a []Value) Value { return int64(4) })
	reg("runtime.NumGoroutine", func(m *Machine, fr *frame, a []Value) Value { return int64(len(m.gs)) })
	reg("runtime/debug.Stack", func(m *Machine, fr *frame, a []Value) Value { return bytesOf([]byte("<stack>")) })
	reg("runtime.Stack", func(m *Machine, fr *frame, a []Value) Value { return int64(0) })
	reg("runtime.Caller", func(m *Machine, fr *frame, a []Value) Value { return Tuple{int64(0), "?", int64(0), false} })
	reg("runtime.Callers", func(m *Machine, fr *frame, a []Value) Value { return int64(0) })
	reg("(*sync.Pool).Get", func(m *Machine, fr *frame, a []Value) Value {
		p := a[0].(*Value)
		// sync.Pool{noCopy, local, localSize, victim, victimSize, New}
		st := (*p).(Struct)
		newFn := st[len(st)-1]
		if newFn == nil {
			return Iface{}
		}
		return m.call(fr, token.NoPos, newFn, nil)
	})

	// Mutex: state field (index 0) used as the lock flag
	reg("(*sync.Mutex).Lock", func(m *Machine, fr *frame, a []Value) Value {
		m.syncPoint(fr)
		p := a[0].(*Value)
		st := (*p).(Struct)
		m.block(fr, func() bool { return st[0].(int64) == 0 }, "Mutex.Lock")
		st[0] = int64(1)
		return nil
	})
	reg("(*sync.Mutex).TryLock", func(m *Machine, fr *frame, a []Value) Value {
		st := (*a[0].(*Value)).(Struct)
		if st[0].(int64) == 0 {
			st[0] = int64(1)
			return true
		}
		return false
	})
	reg("(*sync.Mutex).Unlock", func(m *Machine, fr *frame, a []Value) Value {
		st := (*a[0].(*Value)).(Struct)
		if st[0].(int64) == 0 {
			panic(pathEnd{kind: "panic", msg: "fatal error: sync: unlock of unlocked mutex"})
		}
		st[0] = int64(0)
		m.syncPoint(fr)
		return nil
	})
	// RWMutex{w Mutex, writerSem, readerSem uint32, readerCount, readerWait atomic.Int32}
	rw := func(a []Value) (w Struct, rc Struct) {
		st := (*a[0].(*Value)).(Struct)
		return st[0].(Struct), st[3].(Struct)
	}
	rcIdx := func(rc Struct) int { return len(rc) - 1 }
	// writers waiting for the lock (Go's RWMutex gives a pending Lock precedence over new RLocks:
	// a goroutine that takes the read lock recursively deadlocks once a writer has queued up)
	type rwWaitKey struct{ p *Value }
	waiting := func(m *Machine, a []Value) *int64 {
		k := rwWaitKey{a[0].(*Value)}
		if c, ok := m.side[k]; ok {
			return c.(*int64)
		}
		c := new(int64)
		m.side[k] = c
		return c
	}
	reg("(*sync.RWMutex).Lock", func(m *Machine, fr *frame, a []Value) Value {
		m.syncPoint(fr)
		w, rc := rw(a)
		i := rcIdx(rc)
		wt := waiting(m, a)
		*wt++
		m.block(fr, func() bool { return w[0].(int64) == 0 && rc[i].(int64) == 0 }, "RWMutex.Lock")
		*wt--
		w[0] = int64(1)
		return nil
	})
	reg("(*sync.RWMutex).Unlock", func(m *Machine, fr *frame, a []Value) Value {
		w, _ := rw(a)
		if w[0].(int64) == 0 {
			panic(pathEnd{kind: "panic", msg: "fatal error: sync: Unlock of unlocked RWMutex"})
		}
		w[0] = int64(0)
		m.syncPoint(fr)
		return nil
	})
	reg("(*sync.RWMutex).RLock", func(m *Machine, fr *frame, a []Value) Value {
		m.syncPoint(fr)
		w, rc := rw(a)
		i := rcIdx(rc)
		wt := waiting(m, a)
		m.block(fr, func() bool { return w[0].(int64) == 0 && *wt == 0 }, "RWMutex.RLock")
		rc[i] = rc[i].(int64) + 1
		return nil
	})
	reg("(*sync.RWMutex).RUnlock", func(m *Machine, fr *frame, a []Value) Value {
		_, rc := rw(a)
		i := rcIdx(rc)
		if rc[i].(int64) == 0 {
			panic(pathEnd{kind: "panic", msg: "fatal error: sync: RUnlock of unlocked RWMutex"})
		}
		rc[i] = rc[i].(int64) - 1
		m.syncPoint(fr)
		return nil
	})
	reg("(*sync.RWMutex).TryLock", func(m *Machine, fr *frame, a []Value) Value {
		w, rc := rw(a)
		if w[0].(int64) == 0 && rc[rcIdx(rc)].(int64) == 0 {
			w[0] = int64(1)
			return true
		}
		return false
	})
	reg("(*sync.RWMutex).TryRLock", func(m *Machine, fr *frame, a []Value) Value {
		w, rc := rw(a)
		if w[0].(int64) == 0 && *waiting(m, a) == 0 {
			i := rcIdx(rc)
			rc[i] = rc[i].(int64) + 1
			return true
		}
		return false
	})
	// WaitGroup: counter kept in a side table
	wgCount := func(m *Machine, a []Value) *int64 {
		k := a[0].(*Value)
		if c, ok := m.side[k]; ok {
			return c.(*int64)
		}
		c := new(int64)
		m.side[k] = c
		return c
	}
	reg("(*sync.WaitGroup).Add", func(m *Machine, fr *frame, a []Value) Value {
		c := wgCount(m, a)
		*c += m.concInt(fr, a[1], "WaitGroup.Add")
		if *c < 0 {
			panic(targetPanic{rt: "sync: negative WaitGroup counter"})
		}
		return nil
	})
	reg("(*sync.WaitGroup).Done", func(m *Machine, fr *frame, a []Value) Value {
		c := wgCount(m, a)
		*c--
		if *c < 0 {
			panic(targetPanic{rt: "sync: negative WaitGroup counter"})
		}
		return nil
	})
	reg("(*sync.WaitGroup).Wait", func(m *Machine, fr *frame, a []Value) Value {
		c := wgCount(m, a)
		m.block(fr, func() bool { return *c == 0 }, "WaitGroup.Wait")
		return nil
	})
	reg("(*sync.Once).Do", func(m *Machine, fr *frame, a []Value) Value {
		k := a[0].(*Value)
		type onceKey struct{ p *Value }
		if _, done := m.side[onceKey{k}]; done {
			return nil
		}
		m.side[onceKey{k}] = true
		m.call(fr, token.NoPos, a[1], nil)
		return nil
	})
	// sync.Cond
	type condKey struct{ p *Value }
	reg("(*sync.Cond).Wait", func(m *Machine, fr *frame, a []Value) Value {
		k := condKey{a[0].(*Value)}
		st := (*a[0].(*Value)).(Struct)
		// Cond{noCopy, L Locker, notify, checker}
		L := st[1].(Iface)
		unlock := m.lookupMethodByName(L.T, "Unlock")
		lock := m.lookupMethodByName(L.T, "Lock")
		m.call(fr, token.NoPos, unlock, []Value{L.V})
		gen, _ := m.side[k].(int)
		m.block(fr, func() bool { g, _ := m.side[k].(int); return g != gen }, "Cond.Wait")
		m.call(fr, token.NoPos, lock, []Value{L.V})
		return nil
	})
	condSignal := func(m *Machine, fr *frame, a []Value) Value {
		k := condKey{a[0].(*Value)}
		g, _ := m.side[k].(int)
		m.side[k] = g + 1
		return nil
	}
	reg("(*sync.Cond).Signal", condSignal)
	reg("(*sync.Cond).Broadcast", condSignal)

	// sync.Map via side table
	type smKey struct{ p *Value }
	smap := func(m *Machine, a []Value) *Map {
		k := smKey{a[0].(*Value)}
		if mp, ok := m.side[k]; ok {
			return mp.(*Map)
		}
		mp := newMap(nil)
		m.side[k] = mp
		return mp
	}
	reg("(*sync.Map).Load", func(m *Machine, fr *frame, a []Value) Value {
		v, ok := m.mapLookup(fr, smap(m, a), a[1])
		if !ok {
			return Tuple{Iface{}, false}
		}
		return Tuple{v, true}
	})
	reg("(*sync.Map).Store", func(m *Machine, fr *frame, a []Value) Value {
		m.mapInsert(fr, smap(m, a), a[1], a[2])
		return nil
	})
	reg("(*sync.Map).LoadOrStore", func(m *Machine, fr *frame, a []Value) Value {
		mp := smap(m, a)
		if v, ok := m.mapLookup(fr, mp, a[1]); ok {
			return Tuple{v, true}
		}
		m.mapInsert(fr, mp, a[1], a[2])
		return Tuple{a[2], false}
	})
	reg("(*sync.Map).LoadAndDelete", func(m *Machine, fr *frame, a []Value) Value {
		mp := smap(m, a)
		if v, ok := m.mapLookup(fr, mp, a[1]); ok {
			m.mapDelete(fr, mp, a[1])
			return Tuple{v, true}
		}
		return Tuple{Iface{}, false}
	})
	reg("(*sync.Map).Delete", func(m *Machine, fr *frame, a []Value) Value {
		m.mapDelete(fr, smap(m, a), a[1])
		return nil
	})
	reg("(*sync.Map).Range", func(m *Machine, fr *frame, a []Value) Value {
		mp := smap(m, a)
		it := m.rangeIter(fr, mp, nil)
		for {
			t := it.next(m, fr)
			if !t[0].(bool) {
				break
			}
			r := m.call(fr, token.NoPos, a[1], []Value{t[1], t[2]})
			if !m.concBool(fr, r, "sync.Map.Range") {
				break
			}
		}
		return nil
	})

	// atomics on plain cells
	for _, ty := range []string{"Int32", "Int64", "Uint32", "Uint64", "Uintptr"} {
		w, signed := 64, true
		switch ty {
		case "Int32":
			w = 32
		case "Uint32":
			w, signed = 32, false
		case "Uint64", "Uintptr":
			signed = false
		}
		reg("sync/atomic.Load"+ty, func(m *Machine, fr *frame, a []Value) Value { return *a[0].(*Value) })
		reg("sync/atomic.Store"+ty, func(m *Machine, fr *frame, a []Value) Value { *a[0].(*Value) = a[1]; return nil })
		reg("sync/atomic.Add"+ty, func(m *Machine, fr *frame, a []Value) Value {
			p := a[0].(*Value)
			*p = m.intAdd(*p, a[1], w, signed)
			return *p
		})
		reg("sync/atomic.Swap"+ty, func(m *Machine, fr *frame, a []Value) Value {
			p := a[0].(*Value)
			old := *p
			*p = a[1]
			return old
		})
		reg("sync/atomic.CompareAndSwap"+ty, func(m *Machine, fr *frame, a []Value) Value {
			p := a[0].(*Value)
			if m.concBool(fr, m.eqVal(*p, a[1]), "CAS") {
				*p = a[2]
				return true
			}
			return false
		})
		reg("sync/atomic.And"+ty, func(m *Machine, fr *frame, a []Value) Value {
			panic(pathEnd{kind: "unsupported", msg: "atomic.And"})
		})
	}
	reg("sync/atomic.LoadPointer", func(m *Machine, fr *frame, a []Value) Value { return *a[0].(*Value) })
	reg("sync/atomic.StorePointer", func(m *Machine, fr *frame, a []Value) Value { *a[0].(*Value) = a[1]; return nil })
	reg("sync/atomic.SwapPointer", func(m *Machine, fr *frame, a []Value) Value {
		p := a[0].(*Value)
		old := *p
		*p = a[1]
		return old
	})
	reg("sync/atomic.CompareAndSwapPointer", func(m *Machine, fr *frame, a []Value) Value {
		p := a[0].(*Value)
		if (*p).(UnsafePtr).P == a[1].(UnsafePtr).P {
			*p = a[2]
			return true
		}
		return false
	})
	// atomic.Value{v any}
	reg("(*sync/atomic.Value).Load", func(m *Machine, fr *frame, a []Value) Value {
		return (*a[0].(*Value)).(Struct)[0]
	})
	reg("(*sync/atomic.Value).Store", func(m *Machine, fr *frame, a []Value) Value {
		if a[1].(Iface).T == nil {
			panic(targetPanic{rt: "sync/atomic: store of nil value into Value"})
		}
		(*a[0].(*Value)).(Struct)[0] = a[1]
		return nil
	})
	reg("(*sync/atomic.Value).Swap", func(m *Machine, fr *frame, a []Value) Value {
		st := (*a[0].(*Value)).(Struct)
		old := st[0]
		st[0] = a[1]
		return old
	})
	reg("(*sync/atomic.Value).CompareAndSwap", func(m *Machine, fr *frame, a []Value) Value {
		st := (*a[0].(*Value)).(Struct)
		if m.concBool(fr, m.eqVal(st[0], a[1]), "Value.CAS") {
			st[0] = a[2]
			return true
		}
		return false
	})

	// ------------------------------------------------------------ byte kernels
	reg("internal/bytealg.Equal", func(m *Machine, fr *frame, a []Value) Value {
		return m.eqBytes(a[0].(Slice), a[1].(Slice))
	})
	reg("bytes.Equal", func(m *Machine, fr *frame, a []Value) Value {
		return m.eqBytes(a[0].(Slice), a[1].(Slice))
	})
	cmp := func(m *Machine, fr *frame, x, y []Value) Value {
		if m.concBool(fr, m.eqBytes(x, y), "bytes.Compare eq") {
			return int64(0)
		}
		if m.concBool(fr, m.lexLess(x, y, false, false), "bytes.Compare lt") {
			return int64(-1)
		}
		return int64(1)
	}
	reg("internal/bytealg.Compare", func(m *Machine, fr *frame, a []Value) Value {
		return cmp(m, fr, a[0].(Slice), a[1].(Slice))
	})
	reg("bytes.Compare", func(m *Machine, fr *frame, a []Value) Value {
		return cmp(m, fr, a[0].(Slice), a[1].(Slice))
	})
	reg("internal/bytealg.CompareString", func(m *Machine, fr *frame, a []Value) Value {
		return cmp(m, fr, strBytes(a[0]), strBytes(a[1]))
	})
	reg("runtime.cmpstring", func(m *Machine, fr *frame, a []Value) Value {
		return cmp(m, fr, strBytes(a[0]), strBytes(a[1]))
	})
	reg("strings.Compare", func(m *Machine, fr *frame, a []Value) Value {
		return cmp(m, fr, strBytes(a[0]), strBytes(a[1]))
	})
	indexByte := func(m *Machine, fr *frame, b []Value, c Value) Value {
		for i, e := range b {
			if m.concBool(fr, m.eqVal(e, c), "IndexByte") {
				return int64(i)
			}
		}
		return int64(-1)
	}
	reg("internal/bytealg.IndexByte", func(m *Machine, fr *frame, a []Value) Value { return indexByte(m, fr, a[0].(Slice), a[1]) })
	reg("internal/bytealg.IndexByteString", func(m *Machine, fr *frame, a []Value) Value { return indexByte(m, fr, strBytes(a[0]), a[1]) })
	reg("bytes.IndexByte", func(m *Machine, fr *frame, a []Value) Value { return indexByte(m, fr, a[0].(Slice), a[1]) })
	reg("strings.IndexByte", func(m *Machine, fr *frame, a []Value) Value { return indexByte(m, fr, strBytes(a[0]), a[1]) })
	count := func(m *Machine, fr *frame, b []Value, c Value) Value {
		n := int64(0)
		for _, e := range b {
			if m.concBool(fr, m.eqVal(e, c), "Count") {
				n++
			}
		}
		return n
	}
	reg("internal/bytealg.Count", func(m *Machine, fr *frame, a []Value) Value { return count(m, fr, a[0].(Slice), a[1]) })
	reg("internal/bytealg.CountString", func(m *Machine, fr *frame, a []Value) Value { return count(m, fr, strBytes(a[0]), a[1]) })
	index := func(m *Machine, fr *frame, hay, needle []Value) Value {
		for i := 0; i+len(needle) <= len(hay); i++ {
			if m.concBool(fr, m.eqBytes(hay[i:i+len(needle)], needle), "Index") {
				return int64(i)
			}
		}
		return int64(-1)
	}
	reg("internal/bytealg.Index", func(m *Machine, fr *frame, a []Value) Value { return index(m, fr, a[0].(Slice), a[1].(Slice)) })
	reg("internal/bytealg.IndexString", func(m *Machine, fr *frame, a []Value) Value { return index(m, fr, strBytes(a[0]), strBytes(a[1])) })
	reg("strings.Index", func(m *Machine, fr *frame, a []Value) Value { return index(m, fr, strBytes(a[0]), strBytes(a[1])) })
	reg("bytes.Index", func(m *Machine, fr *frame, a []Value) Value { return index(m, fr, a[0].(Slice), a[1].(Slice)) })
	reg("internal/bytealg.MakeNoZero", func(m *Machine, fr *frame, a []Value) Value {
		n := int(m.concInt(fr, a[0], "MakeNoZero"))
		r := make(Slice, n)
		for i := range r {
			r[i] = int64(0)
		}
		return r
	})
	reg("(*strings.Builder).String", func(m *Machine, fr *frame, a []Value) Value {
		st := (*a[0].(*Value)).(Struct) // {addr *Builder, buf []byte}
		return mkStr(st[1].(Slice))
	})
	reg("(*strings.Builder).copyCheck", nop)
	reg("strings.Clone", func(m *Machine, fr *frame, a []Value) Value { return a[0] })
	reg("internal/stringslite.Clone", func(m *Machine, fr *frame, a []Value) Value { return a[0] })
	reg("bytes.Clone", func(m *Machine, fr *frame, a []Value) Value {
		s := a[0].(Slice)
		if s == nil {
			return s
		}
		r := make(Slice, len(s))
		copy(r, s)
		return r
	})
	reg("internal/abi.NoEscape", func(m *Machine, fr *frame, a []Value) Value { return a[0] })
	reg("internal/abi.Escape", func(m *Machine, fr *frame, a []Value) Value { return a[0] })
	reg("strings.noescape", func(m *Machine, fr *frame, a []Value) Value { return a[0] })

	// ------------------------------------------------------------ math/bits
	// bits.Len of a symbolic word sits under every protobuf varint size computation ((Len64(x|1)+6)/7):
	// it is concretised (one fork per feasible bit length, i.e. a range constraint on x), which keeps
	// the size arithmetic concrete instead of handing the solver a division by 7.
	reg("math/bits.Len64", func(m *Machine, fr *frame, a []Value) Value { return m.bitsLen(a[0], 64) })
	reg("math/bits.Len", func(m *Machine, fr *frame, a []Value) Value { return m.bitsLen(a[0], 64) })
	reg("math/bits.Len32", func(m *Machine, fr *frame, a []Value) Value { return m.bitsLen(a[0], 32) })
	reg("math/bits.Len16", func(m *Machine, fr *frame, a []Value) Value { return m.bitsLen(a[0], 16) })
	reg("math/bits.Len8", func(m *Machine, fr *frame, a []Value) Value { return m.bitsLen(a[0], 8) })
	reg("math/bits.LeadingZeros64", func(m *Machine, fr *frame, a []Value) Value {
		return m.intSub(int64(64), m.bitsLen(a[0], 64), 64, true)
	})
	reg("math/bits.LeadingZeros32", func(m *Machine, fr *frame, a []Value) Value {
		return m.intSub(int64(32), m.bitsLen(a[0], 32), 64, true)
	})
	reg("math/bits.TrailingZeros64", func(m *Machine, fr *frame, a []Value) Value { return m.bitsTZ(a[0], 64) })
	reg("math/bits.TrailingZeros32", func(m *Machine, fr *frame, a []Value) Value { return m.bitsTZ(a[0], 32) })
	reg("math/bits.TrailingZeros", func(m *Machine, fr *frame, a []Value) Value { return m.bitsTZ(a[0], 64) })
	reg("math/bits.Mul64", func(m *Machine, fr *frame, a []Value) Value {
		x, y := m.toTerm(a[0], 64), m.toTerm(a[1], 64)
		p := m.pool
		prod := p.BvBin("bvmul", p.ZeroExt(x, 128), p.ZeroExt(y, 128))
		return Tuple{simp(p.Extract(127, 64, prod), false), simp(p.Extract(63, 0, prod), false)}
	})
	reg("math/bits.Add64", func(m *Machine, fr *frame, a []Value) Value {
		p := m.pool
		s := p.BvBin("bvadd", p.BvBin("bvadd", p.ZeroExt(m.toTerm(a[0], 64), 65), p.ZeroExt(m.toTerm(a[1], 64), 65)), p.ZeroExt(m.toTerm(a[2], 64), 65))
		return Tuple{simp(p.Extract(63, 0, s), false), simp(p.ZeroExt(p.Extract(64, 64, s), 64), false)}
	})

	// ------------------------------------------------------------ errors
	reg("errors.Is", func(m *Machine, fr *frame, a []Value) Value { return m.errorsIs(fr, a[0].(Iface), a[1].(Iface), 0) })
	reg("errors.Unwrap", func(m *Machine, fr *frame, a []Value) Value { return m.errUnwrap(fr, a[0].(Iface)) })
	reg("errors.As", func(m *Machine, fr *frame, a []Value) Value { return m.errorsAs(fr, a[0].(Iface), a[1].(Iface)) })
	reg("github.com/pkg/errors.Is", func(m *Machine, fr *frame, a []Value) Value { return m.errorsIs(fr, a[0].(Iface), a[1].(Iface), 0) })
	reg("github.com/pkg/errors.callers", func(m *Machine, fr *frame, a []Value) Value { return (*Value)(nil) })

	// ------------------------------------------------------------ fmt
	reg("fmt.Sprintf", func(m *Machine, fr *frame, a []Value) Value { return m.sprintf(fr, a[0], a[1].(Slice)) })
	reg("fmt.Errorf", func(m *Machine, fr *frame, a []Value) Value { return m.errorf(fr, a[0], a[1].(Slice)) })
	reg("fmt.Sprint", func(m *Machine, fr *frame, a []Value) Value { return m.sprint(fr, a[0].(Slice), false) })
	reg("fmt.Sprintln", func(m *Machine, fr *frame, a []Value) Value { return m.sprint(fr, a[0].(Slice), true) })
	reg("fmt.Println", func(m *Machine, fr *frame, a []Value) Value { return Tuple{int64(0), Iface{}} })
	reg("fmt.Printf", func(m *Machine, fr *frame, a []Value) Value { return Tuple{int64(0), Iface{}} })
	reg("fmt.Print", func(m *Machine, fr *frame, a []Value) Value { return Tuple{int64(0), Iface{}} })
	reg("fmt.Fprintf", func(m *Machine, fr *frame, a []Value) Value {
		s := m.sprintf(fr, a[1], a[2].(Slice))
		return m.writeTo(fr, a[0].(Iface), s)
	})
	reg("fmt.Fprint", func(m *Machine, fr *frame, a []Value) Value {
		return m.writeTo(fr, a[0].(Iface), m.sprint(fr, a[1].(Slice), false))
	})
	reg("fmt.Fprintln", func(m *Machine, fr *frame, a []Value) Value {
		return m.writeTo(fr, a[0].(Iface), m.sprint(fr, a[1].(Slice), true))
	})

	// ------------------------------------------------------------ sort
	reg("sort.Slice", func(m *Machine, fr *frame, a []Value) Value { return m.sortSlice(fr, a[0].(Iface), a[1], "pdqsort_func") })
	reg("sort.SliceStable", func(m *Machine, fr *frame, a []Value) Value { return m.sortSlice(fr, a[0].(Iface), a[1], "stable_func") })
	reg("sort.SliceIsSorted", func(m *Machine, fr *frame, a []Value) Value {
		sl := a[0].(Iface).V.(Slice)
		for i := len(sl) - 1; i > 0; i-- {
			r := m.call(fr, token.NoPos, a[1], []Value{int64(i), int64(i - 1)})
			if m.concBool(fr, r, "SliceIsSorted") {
				return false
			}
		}
		return true
	})

	// ------------------------------------------------------------ hashing (ideal)
	reg("crypto/sha256.Sum256", func(m *Machine, fr *frame, a []Value) Value {
		return Array(m.hash("sha256", a[0].(Slice), 32))
	})
	reg("crypto/sha512.Sum512", func(m *Machine, fr *frame, a []Value) Value {
		return Array(m.hash("sha512", a[0].(Slice), 64))
	})
	reg("crypto/sha256.New", func(m *Machine, fr *frame, a []Value) Value { return m.newDigest("sha256", 32, 64) })
	reg("crypto/sha512.New", func(m *Machine, fr *frame, a []Value) Value { return m.newDigest("sha512", 64, 128) })
	reg("(*crypto/sha256.digest).Write", digestWrite)
	reg("(*crypto/sha256.digest).Sum", digestSum)
	reg("(*crypto/sha256.digest).Reset", digestReset)
	reg("(*crypto/sha256.digest).Size", func(m *Machine, fr *frame, a []Value) Value { return int64(m.digestOf(a[0]).size) })
	reg("(*crypto/sha256.digest).BlockSize", func(m *Machine, fr *frame, a []Value) Value { return int64(64) })
	reg("(*crypto/sha512.digest).Write", digestWrite)
	reg("(*crypto/sha512.digest).Sum", digestSum)
	reg("(*crypto/sha512.digest).Reset", digestReset)
	reg("(*crypto/sha512.digest).Size", func(m *Machine, fr *frame, a []Value) Value { return int64(m.digestOf(a[0]).size) })
	reg("(*crypto/sha512.digest).BlockSize", func(m *Machine, fr *frame, a []Value) Value { return int64(128) })
	reg("hash/crc32.Checksum", func(m *Machine, fr *frame, a []Value) Value {
		data := a[0].(Slice)
		out := m.hash("crc32:"+m.crcPolyName(a[1]), data, 4)
		if b, ok := concBytes(Slice(out)); ok {
			return int64(uint32(b[0])<<24 | uint32(b[1])<<16 | uint32(b[2])<<8 | uint32(b[3]))
		}
		p := m.pool
		t := p.Concat(p.Concat(m.toTerm(out[0], 8), m.toTerm(out[1], 8)), p.Concat(m.toTerm(out[2], 8), m.toTerm(out[3], 8)))
		return simp(t, false)
	})
	reg("hash/crc32.MakeTable", func(m *Machine, fr *frame, a []Value) Value {
		poly := uint32(m.concInt(fr, a[0], "crc poly"))
		cell := new(Value)
		arr := make(Array, 256)
		tab := crc32.MakeTable(poly)
		for i := range arr {
			arr[i] = int64(tab[i])
		}
		*cell = arr
		m.side[cell] = poly
		return cell
	})

	// ------------------------------------------------------------ ed25519 (ideal when symbolic, real when concrete)
	reg("crypto/ed25519.NewKeyFromSeed", func(m *Machine, fr *frame, a []Value) Value {
		seed, ok := concBytes(a[0])
		if !ok {
			panic(pathEnd{kind: "unsupported", msg: "ed25519 key from symbolic seed"})
		}
		return bytesOf(ed25519.NewKeyFromSeed(seed))
	})
	reg("crypto/ed25519.Sign", func(m *Machine, fr *frame, a []Value) Value {
		return m.edSign(fr, a[0].(Slice), a[1].(Slice))
	})
	reg("crypto/ed25519.Verify", func(m *Machine, fr *frame, a []Value) Value {
		return m.edVerify(fr, a[0].(Slice), a[1].(Slice), a[2].(Slice))
	})
	reg("crypto/ed25519.GenerateKey", func(m *Machine, fr *frame, a []Value) Value {
		m.keySeq++
		seed := sha256.Sum256([]byte(fmt.Sprintf("symgo-key-%d", m.keySeq)))
		priv := ed25519.NewKeyFromSeed(seed[:])
		return Tuple{bytesOf(priv[32:]), bytesOf(priv), Iface{}}
	})
	reg("github.com/tendermint/tendermint/crypto.CRandBytes", func(m *Machine, fr *frame, a []Value) Value {
		n := int(m.concInt(fr, a[0], "CRandBytes"))
		m.keySeq++
		var out []byte
		for i := 0; len(out) < n; i++ {
			h := sha256.Sum256([]byte(fmt.Sprintf("symgo-rand-%d-%d", m.keySeq, i)))
			out = append(out, h[:]...)
		}
		return bytesOf(out[:n])
	})

	// ------------------------------------------------------------ misc
	reg("os.Getenv", func(m *Machine, fr *frame, a []Value) Value { return "" })
	reg("os.Exit", func(m *Machine, fr *frame, a []Value) Value {
		panic(pathEnd{kind: "panic", msg: fmt.Sprintf("os.Exit(%v)", a[0])})
	})
	reg("os.Getpid", func(m *Machine, fr *frame, a []Value) Value { return int64(4242) })
	reg("math.Float64bits", func(m *Machine, fr *frame, a []Value) Value { return int64(mathFloat64bits(a[0].(float64))) })
	reg("math.Float64frombits", func(m *Machine, fr *frame, a []Value) Value { return mathFloat64frombits(uint64(a[0].(int64))) })
	reg("math.Float32bits", func(m *Machine, fr *frame, a []Value) Value { return int64(mathFloat32bits(float32(a[0].(float64)))) })
	reg("math.Float32frombits", func(m *Machine, fr *frame, a []Value) Value {
		return float64(mathFloat32frombits(uint32(a[0].(int64))))
	})
	_ = bytes.Equal
	_ = sha512.New
	_ = os.Stderr
	_ = big.NewInt
	_ = sort.Ints
	_ = types.Typ
}

func (m *Machine) lookupMethodByName(t types.Type, name string) *ssa.Function {
	ms := m.prog.MethodSets.MethodSet(t)
	for i := 0; i < ms.Len(); i++ {
		if ms.At(i).Obj().Name() == name {
			return m.prog.MethodValue(ms.At(i))
		}
	}
	return nil
}

func (m *Machine) intAdd(x, y Value, w int, signed bool) Value {
	xc, ok1 := x.(int64)
	yc, ok2 := y.(int64)
	if ok1 && ok2 {
		return canon(xc+yc, w, signed)
	}
	return simp(m.pool.BvBin("bvadd", m.toTerm(x, w), m.toTerm(y, w)), signed)
}

func (m *Machine) intSub(x, y Value, w int, signed bool) Value {
	xc, ok1 := x.(int64)
	yc, ok2 := y.(int64)
	if ok1 && ok2 {
		return canon(xc-yc, w, signed)
	}
	return simp(m.pool.BvBin("bvsub", m.toTerm(x, w), m.toTerm(y, w)), signed)
}

// bitsLen: number of bits needed to represent x (result as int, 64-bit).
func (m *Machine) bitsLen(x Value, w int) Value {
	if c, ok := x.(int64); ok {
		n := 0
		u := uint64(c)
		if w < 64 {
			u &= (1 << uint(w)) - 1
		}
		for u != 0 {
			n++
			u >>= 1
		}
		return int64(n)
	}
	t := x.(*Term)
	p := m.pool
	// ite chain from the top bit down
	res := p.ConstU(0, 64)
	for i := 0; i < w; i++ {
		bit := p.Eq(p.Extract(i, i, t), p.ConstU(1, 1))
		res = p.Ite(bit, p.ConstU(uint64(i+1), 64), res)
	}
	return simp(res, true)
}

func (m *Machine) bitsTZ(x Value, w int) Value {
	if c, ok := x.(int64); ok {
		u := uint64(c)
		if w < 64 {
			u &= (1 << uint(w)) - 1
		}
		if u == 0 {
			return int64(w)
		}
		n := 0
		for u&1 == 0 {
			n++
			u >>= 1
		}
		return int64(n)
	}
	t := x.(*Term)
	p := m.pool
	res := p.ConstU(uint64(w), 64)
	for i := w - 1; i >= 0; i-- {
		bit := p.Eq(p.Extract(i, i, t), p.ConstU(1, 1))
		res = p.Ite(bit, p.ConstU(uint64(i), 64), res)
	}
	return simp(res, true)
}

// sovIntrinsic models the generated protobuf helpers `func sovX(x uint64) int { return (bits.Len64(x|1) + 6) / 7 }`
// as a threshold chain (no division); the result is the varint size 1..10.
func sovIntrinsic(m *Machine, fr *frame, a []Value) Value {
	if c, ok := a[0].(int64); ok {
		n := int64(1)
		for u := uint64(c); u >= 0x80; u >>= 7 {
			n++
		}
		return n
	}
	t := a[0].(*Term)
	p := m.pool
	res := p.ConstU(1, 64)
	for k := 1; k <= 9; k++ {
		ge := p.BvCmp("bvuge", t, p.ConstBV(new(big.Int).Lsh(big.NewInt(1), uint(7*k)), 64))
		res = p.Ite(ge, p.ConstU(uint64(k+1), 64), res)
	}
	return simp(res, true)
}

func isSovFunc(fn *ssa.Function) bool {
	if !strings.HasPrefix(fn.Name(), "sov") || fn.Signature.Recv() != nil {
		return false
	}
	ps, rs := fn.Signature.Params(), fn.Signature.Results()
	if ps.Len() != 1 || rs.Len() != 1 {
		return false
	}
	pb, ok1 := ps.At(0).Type().(*types.Basic)
	rb, ok2 := rs.At(0).Type().(*types.Basic)
	return ok1 && ok2 && pb.Kind() == types.Uint64 && rb.Kind() == types.Int
}
