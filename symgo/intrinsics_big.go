package main

// math/big.Int modelled on a side table: concrete values as native *big.Int, symbolic ones as
// bigW-bit two's-complement terms (enough for sums/averages of int64 quantities; wider results are
// reported as unsupported rather than wrapped).

import (
	"math/big"
)

// bigW: width of symbolic big.Int values: sums/averages of up to 256 int64 quantities.
const bigW = 72

type bigVal struct {
	c *big.Int
	t *Term // W=bigW
}

func (m *Machine) bigGet(v Value) bigVal {
	p, ok := v.(*Value)
	if !ok || p == nil {
		panic(targetPanic{rt: "invalid memory address or nil pointer dereference (nil *big.Int)"})
	}
	if b, ok := m.side[bigKey{p}].(bigVal); ok {
		return b
	}
	return bigVal{c: new(big.Int)}
}

type bigKey struct{ p *Value }

func (m *Machine) bigSet(v Value, b bigVal) Value {
	p := v.(*Value)
	if b.t != nil && b.t.IsConst() {
		b = bigVal{c: toSigned(b.t.C, bigW)}
	}
	m.side[bigKey{p}] = b
	return p
}

func (m *Machine) bigNew(b bigVal) Value {
	bp := m.prog.ImportedPackage("math/big")
	cell := new(Value)
	*cell = zero(bp.Type("Int").Type())
	return m.bigSet(cell, b)
}

func (m *Machine) bigTerm(b bigVal) *Term {
	if b.t != nil {
		return b.t
	}
	if b.c.BitLen() > bigW-2 {
		panic(pathEnd{kind: "unsupported", msg: "math/big value wider than 70 bits mixed with symbolic operands"})
	}
	return m.pool.ConstBV(b.c, bigW)
}

func (m *Machine) bigBin(op string, x, y bigVal) bigVal {
	if x.t == nil && y.t == nil {
		r := new(big.Int)
		switch op {
		case "add":
			r.Add(x.c, y.c)
		case "sub":
			r.Sub(x.c, y.c)
		case "mul":
			r.Mul(x.c, y.c)
		case "div":
			if y.c.Sign() == 0 {
				panic(targetPanic{rt: "division by zero"})
			}
			r.Div(x.c, y.c)
		case "quo":
			if y.c.Sign() == 0 {
				panic(targetPanic{rt: "division by zero"})
			}
			r.Quo(x.c, y.c)
		case "mod":
			if y.c.Sign() == 0 {
				panic(targetPanic{rt: "division by zero"})
			}
			r.Mod(x.c, y.c)
		}
		return bigVal{c: r}
	}
	p := m.pool
	xt, yt := m.bigTerm(x), m.bigTerm(y)
	switch op {
	case "add":
		return bigVal{t: p.BvBin("bvadd", xt, yt)}
	case "sub":
		return bigVal{t: p.BvBin("bvsub", xt, yt)}
	case "mul":
		panic(pathEnd{kind: "unsupported", msg: "big.Int.Mul with symbolic operands"})
	case "quo":
		return bigVal{t: p.BvBin("bvsdiv", xt, yt)}
	case "div":
		// Euclidean division; only positive concrete divisors are supported symbolically
		if y.t != nil || y.c.Sign() <= 0 {
			panic(pathEnd{kind: "unsupported", msg: "big.Int.Div by a symbolic or non-positive divisor"})
		}
		q := p.BvBin("bvsdiv", xt, yt)
		r := p.BvBin("bvsrem", xt, yt)
		neg := p.BvCmp("bvslt", r, p.ConstU(0, bigW))
		return bigVal{t: p.Ite(neg, p.BvBin("bvsub", q, p.ConstU(1, bigW)), q)}
	}
	panic(pathEnd{kind: "unsupported", msg: "big.Int op " + op})
}

func init() {
	reg("math/big.NewInt", func(m *Machine, fr *frame, a []Value) Value {
		switch x := a[0].(type) {
		case int64:
			return m.bigNew(bigVal{c: big.NewInt(x)})
		case *Term:
			return m.bigNew(bigVal{t: m.pool.SignExt(x, bigW)})
		}
		panic("big.NewInt")
	})
	bin := func(op string) intrinsic {
		return func(m *Machine, fr *frame, a []Value) Value {
			return m.bigSet(a[0], m.bigBin(op, m.bigGet(a[1]), m.bigGet(a[2])))
		}
	}
	reg("(*math/big.Int).Add", bin("add"))
	reg("(*math/big.Int).Sub", bin("sub"))
	reg("(*math/big.Int).Mul", bin("mul"))
	reg("(*math/big.Int).Div", bin("div"))
	reg("(*math/big.Int).Quo", bin("quo"))
	reg("(*math/big.Int).Mod", bin("mod"))
	reg("(*math/big.Int).Set", func(m *Machine, fr *frame, a []Value) Value { return m.bigSet(a[0], m.bigGet(a[1])) })
	reg("(*math/big.Int).SetInt64", func(m *Machine, fr *frame, a []Value) Value {
		switch x := a[1].(type) {
		case int64:
			return m.bigSet(a[0], bigVal{c: big.NewInt(x)})
		case *Term:
			return m.bigSet(a[0], bigVal{t: m.pool.SignExt(x, bigW)})
		}
		panic("SetInt64")
	})
	reg("(*math/big.Int).SetUint64", func(m *Machine, fr *frame, a []Value) Value {
		switch x := a[1].(type) {
		case int64:
			return m.bigSet(a[0], bigVal{c: new(big.Int).SetUint64(uint64(x))})
		case *Term:
			return m.bigSet(a[0], bigVal{t: m.pool.ZeroExt(x, bigW)})
		}
		panic("SetUint64")
	})
	reg("(*math/big.Int).IsInt64", func(m *Machine, fr *frame, a []Value) Value {
		b := m.bigGet(a[0])
		if b.t == nil {
			return b.c.IsInt64()
		}
		p := m.pool
		return simp(p.Eq(p.SignExt(p.Extract(63, 0, b.t), bigW), b.t), false)
	})
	reg("(*math/big.Int).Int64", func(m *Machine, fr *frame, a []Value) Value {
		b := m.bigGet(a[0])
		if b.t == nil {
			return b.c.Int64()
		}
		return simp(m.pool.Extract(63, 0, b.t), true)
	})
	reg("(*math/big.Int).Uint64", func(m *Machine, fr *frame, a []Value) Value {
		b := m.bigGet(a[0])
		if b.t == nil {
			return int64(b.c.Uint64())
		}
		return simp(m.pool.Extract(63, 0, b.t), false)
	})
	reg("(*math/big.Int).Sign", func(m *Machine, fr *frame, a []Value) Value {
		b := m.bigGet(a[0])
		if b.t == nil {
			return int64(b.c.Sign())
		}
		p := m.pool
		z := p.ConstU(0, bigW)
		return simp(p.Ite(p.Eq(b.t, z), p.ConstU(0, 64), p.Ite(p.BvCmp("bvslt", b.t, z), p.ConstBV(big.NewInt(-1), 64), p.ConstU(1, 64))), true)
	})
	reg("(*math/big.Int).Cmp", func(m *Machine, fr *frame, a []Value) Value {
		x, y := m.bigGet(a[0]), m.bigGet(a[1])
		if x.t == nil && y.t == nil {
			return int64(x.c.Cmp(y.c))
		}
		p := m.pool
		xt, yt := m.bigTerm(x), m.bigTerm(y)
		return simp(p.Ite(p.Eq(xt, yt), p.ConstU(0, 64), p.Ite(p.BvCmp("bvslt", xt, yt), p.ConstBV(big.NewInt(-1), 64), p.ConstU(1, 64))), true)
	})
	reg("(*math/big.Int).String", func(m *Machine, fr *frame, a []Value) Value {
		b := m.bigGet(a[0])
		if b.t == nil {
			return b.c.String()
		}
		return &SymStr{Opaque: true}
	})
}
