package main

// Value model.  Concrete values use native Go representations; symbolic leaves are *Term.
//
//   bool                    bool | *Term(W=0)
//   all integer kinds       int64 (canonical: sign-/zero-extended per static type) | *Term(W=8..64)
//   float32/64              float64 (concrete only)
//   string                  string | *SymStr (concrete length, per-byte values)
//   pointer                 *Value (nil pointer = (*Value)(nil)); pointer-to-struct points at a Struct cell
//   struct / array          Struct / Array ([]Value), copied on load/store
//   slice                   Slice ([]Value); nil slice = Slice(nil)
//   map                     *Map (nil map = (*Map)(nil))
//   chan                    *Chan
//   func                    *ssa.Function | *Closure | *ssa.Builtin | *Native ; nil func = nil
//   interface               Iface{T,V}; nil interface = Iface{}
//   tuple                   Tuple

import (
	"fmt"
	"go/types"
	"strings"

	"golang.org/x/tools/go/ssa"
)

type Value interface{}

type Struct []Value
type Array []Value
type Slice []Value
type Tuple []Value

type SymStr struct {
	B      []Value // each int64 (0..255) or *Term(W=8)
	Opaque bool    // placeholder text produced by formatting symbolic operands; must not be inspected
}

type Iface struct {
	T types.Type
	V Value
}

type Closure struct {
	Fn  *ssa.Function
	Env []Value
}

// Native is an engine-implemented function value.
type Native struct {
	Name string
	Fn   func(fr *frame, args []Value) Value
}

type UnsafePtr struct {
	P *Value
	T types.Type // static type of the pointee when known
}

type mapEntry struct {
	k, v    Value
	ckey    string // canonical key when concrete
	conc    bool
	deleted bool
}

type Map struct {
	entries []*mapEntry
	index   map[string]*mapEntry // concrete keys
	nsym    int                  // number of live entries with symbolic keys
	live    int
	kt      types.Type
}

type bad struct{}

// ---------------------------------------------------------------- zero values

func zero(t types.Type) Value {
	switch t := t.(type) {
	case *types.Basic:
		if t.Kind() == types.UntypedNil {
			panic("untyped nil has no zero value")
		}
		if t.Info()&types.IsUntyped != 0 {
			t = types.Default(t).(*types.Basic)
		}
		switch {
		case t.Info()&types.IsBoolean != 0:
			return false
		case t.Info()&types.IsInteger != 0:
			return int64(0)
		case t.Info()&types.IsFloat != 0:
			return float64(0)
		case t.Info()&types.IsComplex != 0:
			return complex128(0)
		case t.Info()&types.IsString != 0:
			return ""
		case t.Kind() == types.UnsafePointer:
			return UnsafePtr{}
		}
		panic(fmt.Sprint("zero for unexpected basic type: ", t))
	case *types.Pointer:
		return (*Value)(nil)
	case *types.Array:
		a := make(Array, t.Len())
		for i := range a {
			a[i] = zero(t.Elem())
		}
		return a
	case *types.Named:
		return zero(t.Underlying())
	case *types.Alias:
		return zero(types.Unalias(t))
	case *types.Interface:
		return Iface{}
	case *types.Slice:
		return Slice(nil)
	case *types.Struct:
		s := make(Struct, t.NumFields())
		for i := range s {
			s[i] = zero(t.Field(i).Type())
		}
		return s
	case *types.Tuple:
		if t.Len() == 1 {
			return zero(t.At(0).Type())
		}
		s := make(Tuple, t.Len())
		for i := range s {
			s[i] = zero(t.At(i).Type())
		}
		return s
	case *types.Chan:
		return (*Chan)(nil)
	case *types.Map:
		return (*Map)(nil)
	case *types.Signature:
		return nil
	case *types.TypeParam:
		panic("zero of type parameter (generic body not instantiated)")
	}
	panic(fmt.Sprint("zero: unexpected ", t))
}

// copyVal returns a copy of v sharing no mutable aggregate cells with it (structs/arrays by value).
func copyVal(v Value) Value {
	switch v := v.(type) {
	case Struct:
		a := make(Struct, len(v))
		for i, e := range v {
			a[i] = copyVal(e)
		}
		return a
	case Array:
		a := make(Array, len(v))
		for i, e := range v {
			a[i] = copyVal(e)
		}
		return a
	case Tuple:
		a := make(Tuple, len(v))
		for i, e := range v {
			a[i] = copyVal(e)
		}
		return a
	}
	return v
}

func isSymbolic(v Value) bool {
	switch v := v.(type) {
	case *Term:
		return true
	case *SymStr:
		return true
	case Struct:
		for _, e := range v {
			if isSymbolic(e) {
				return true
			}
		}
	case Array:
		for _, e := range v {
			if isSymbolic(e) {
				return true
			}
		}
	case Iface:
		return isSymbolic(v.V)
	}
	return false
}

// ---------------------------------------------------------------- type helpers

func under(t types.Type) types.Type { return t.Underlying() }

func deref(t types.Type) types.Type {
	if p, ok := t.Underlying().(*types.Pointer); ok {
		return p.Elem()
	}
	panic(fmt.Sprint("deref: not a pointer: ", t))
}

// intInfo returns width and signedness for an integer (or bool: w=0) type.
func intInfo(t types.Type) (w int, signed bool, ok bool) {
	b, isb := t.Underlying().(*types.Basic)
	if !isb {
		return 0, false, false
	}
	switch b.Kind() {
	case types.Int8:
		return 8, true, true
	case types.Int16:
		return 16, true, true
	case types.Int32:
		return 32, true, true
	case types.Int, types.Int64, types.UntypedInt, types.UntypedRune:
		return 64, true, true
	case types.Uint8:
		return 8, false, true
	case types.Uint16:
		return 16, false, true
	case types.Uint32:
		return 32, false, true
	case types.Uint, types.Uint64, types.Uintptr:
		return 64, false, true
	}
	return 0, false, false
}

// canon normalises a concrete integer to the canonical int64 form of its type.
func canon(x int64, w int, signed bool) int64 {
	switch w {
	case 64:
		return x
	case 32:
		if signed {
			return int64(int32(x))
		}
		return int64(uint32(x))
	case 16:
		if signed {
			return int64(int16(x))
		}
		return int64(uint16(x))
	case 8:
		if signed {
			return int64(int8(x))
		}
		return int64(uint8(x))
	}
	panic("canon: bad width")
}

// ---------------------------------------------------------------- strings

func strLen(v Value) int {
	switch s := v.(type) {
	case string:
		return len(s)
	case *SymStr:
		return len(s.B)
	}
	panic(fmt.Sprintf("strLen: %T", v))
}

func strBytes(v Value) []Value {
	switch s := v.(type) {
	case string:
		b := make([]Value, len(s))
		for i := 0; i < len(s); i++ {
			b[i] = int64(s[i])
		}
		return b
	case *SymStr:
		if s.Opaque {
			panic(pathEnd{kind: "unsupported", msg: "inspection of text formatted from symbolic operands"})
		}
		return s.B
	}
	panic(fmt.Sprintf("strBytes: %T", v))
}

// mkStr builds a string value from bytes, concrete when possible.
func mkStr(b []Value) Value {
	conc := true
	for _, e := range b {
		if _, ok := e.(int64); !ok {
			conc = false
			break
		}
	}
	if conc {
		bs := make([]byte, len(b))
		for i, e := range b {
			bs[i] = byte(e.(int64))
		}
		return string(bs)
	}
	c := make([]Value, len(b))
	copy(c, b)
	return &SymStr{B: c}
}

func bytesOf(s []byte) Slice {
	r := make(Slice, len(s))
	for i, c := range s {
		r[i] = int64(c)
	}
	return r
}

// concBytes returns the concrete bytes of a byte slice/array/string value if fully concrete.
func concBytes(v Value) ([]byte, bool) {
	var el []Value
	switch x := v.(type) {
	case string:
		return []byte(x), true
	case *SymStr:
		el = x.B
	case Slice:
		el = x
	case Array:
		el = x
	default:
		return nil, false
	}
	r := make([]byte, len(el))
	for i, e := range el {
		c, ok := e.(int64)
		if !ok {
			return nil, false
		}
		r[i] = byte(c)
	}
	return r, true
}

// ---------------------------------------------------------------- debug printing

func valString(v Value) string {
	var sb strings.Builder
	writeVal(&sb, v, 0)
	return sb.String()
}

func writeVal(sb *strings.Builder, v Value, depth int) {
	if depth > 4 {
		sb.WriteString("…")
		return
	}
	switch v := v.(type) {
	case nil:
		sb.WriteString("nil")
	case *Term:
		if v.size < 12 {
			fmt.Fprintf(sb, "⟨%s⟩", termString(v))
		} else {
			fmt.Fprintf(sb, "⟨t%d:%d⟩", v.id, v.W)
		}
	case Struct:
		sb.WriteByte('{')
		for i, e := range v {
			if i > 0 {
				sb.WriteByte(' ')
			}
			writeVal(sb, e, depth+1)
		}
		sb.WriteByte('}')
	case Array:
		sb.WriteByte('[')
		for i, e := range v {
			if i > 0 {
				sb.WriteByte(' ')
			}
			if i > 16 {
				sb.WriteString("…")
				break
			}
			writeVal(sb, e, depth+1)
		}
		sb.WriteByte(']')
	case Slice:
		if v == nil {
			sb.WriteString("nil[]")
			return
		}
		sb.WriteString("[]{")
		for i, e := range v {
			if i > 0 {
				sb.WriteByte(' ')
			}
			if i > 16 {
				sb.WriteString("…")
				break
			}
			writeVal(sb, e, depth+1)
		}
		sb.WriteByte('}')
	case Tuple:
		sb.WriteByte('(')
		for i, e := range v {
			if i > 0 {
				sb.WriteString(", ")
			}
			writeVal(sb, e, depth+1)
		}
		sb.WriteByte(')')
	case Iface:
		if v.T == nil {
			sb.WriteString("nil-iface")
			return
		}
		fmt.Fprintf(sb, "%s(", types.TypeString(v.T, func(p *types.Package) string { return p.Name() }))
		writeVal(sb, v.V, depth+1)
		sb.WriteByte(')')
	case *Value:
		if v == nil {
			sb.WriteString("nil-ptr")
		} else {
			sb.WriteByte('&')
			writeVal(sb, *v, depth+1)
		}
	case *SymStr:
		sb.WriteString("symstr")
		writeVal(sb, Slice(v.B), depth+1)
	case string:
		fmt.Fprintf(sb, "%q", v)
	case *Map:
		if v == nil {
			sb.WriteString("nil-map")
		} else {
			fmt.Fprintf(sb, "map[%d]", v.live)
		}
	default:
		fmt.Fprintf(sb, "%v", v)
	}
}

func termString(t *Term) string {
	switch t.Op {
	case "const":
		return t.constStr()
	case "var":
		return t.Name
	}
	return t.body()
}
