#!/usr/bin/env python3
"""Sensitivity self-test (not a registered check): applies each seeded change under /verif/seeded/<id>/patch.diff
to /repo (git apply), runs the quick check of its property, records whether a replayed VIOLATION is raised,
and undoes the change (git checkout).  Usage: seedtest.py [seed-id ...]   Writes seeded/RESULTS.md."""
import json, os, subprocess, sys, time
VERIF = os.path.dirname(os.path.dirname(os.path.abspath(__file__)))
REPO = os.environ.get("VERIF_REPO", "/repo")  # a scratch worktree while /repo is in use by a long run
sys.path.insert(0, os.path.join(VERIF, "checks"))
from props import PROPS
seeds = sorted(d for d in os.listdir(os.path.join(VERIF, "seeded")) if os.path.isdir(os.path.join(VERIF, "seeded", d)))
if len(sys.argv) > 1:
    seeds = [s for s in seeds if s in sys.argv[1:]]
rows = []
for s in seeds:
    meta = json.load(open(os.path.join(VERIF, "seeded", s, "meta.json")))
    prop = meta["property"]
    if prop not in PROPS:
        rows.append((s, prop, "no check yet", "", 0))
        continue
    patch = os.path.join(VERIF, "seeded", s, "patch.diff")
    assert subprocess.run(["git", "-C", REPO, "status", "--porcelain"], capture_output=True, text=True).stdout.strip() == "", "/repo not clean"
    r = subprocess.run(["git", "-C", REPO, "apply", patch], capture_output=True, text=True)
    if r.returncode != 0:
        rows.append((s, prop, "patch does not apply", r.stderr[:200], 0))
        continue
    t0 = time.time()
    try:
        c = subprocess.run(["python3", os.path.join(VERIF, "checks", "check.py"), prop, "--tier", "quick"], capture_output=True, text=True, cwd=VERIF)
        viol = [l for l in c.stdout.splitlines() if l.startswith("VIOLATION")]
        det = [l.strip() for l in c.stdout.splitlines() if l.startswith("  harness=")]
        verdict = "CAUGHT" if c.returncode == 1 and viol else "missed"
        rows.append((s, prop, verdict, (det[0][:160] if det else ""), time.time() - t0))
    finally:
        subprocess.run(["git", "-C", REPO, "checkout", "--", "."])
    print(rows[-1], flush=True)
prev = {}
res = os.path.join(VERIF, "seeded", "RESULTS.md")
with open(res, "a") as f:
    f.write(f"\n## run {time.strftime('%Y-%m-%d %H:%M:%S')}\n\n| seed | property | verdict | first replayed violation | wall s |\n|---|---|---|---|---|\n")
    for r in rows:
        f.write(f"| {r[0]} | {r[1]} | {r[2]} | {r[3]} | {r[4]:.0f} |\n")
