#!/usr/bin/env python3
"""Regenerates /verif/MANIFEST.json from checks/props.py (claimed properties) and checks/not_applicable.json."""
import json, os, sys
VERIF = os.path.dirname(os.path.dirname(os.path.abspath(__file__)))
sys.path.insert(0, os.path.join(VERIF, "checks"))
from props import PROPS
props = [json.loads(l) for l in open(os.path.join(VERIF, "properties.jsonl"))]
na = json.load(open(os.path.join(VERIF, "checks", "not_applicable.json")))
checks = []
for p in props:
    pid = p["id"]
    if pid not in PROPS:
        continue
    c = PROPS[pid]
    checks.append({
        "property_id": pid,
        "quick_cmd": f"python3 checks/check.py {pid} --tier quick",
        "thorough_cmd": f"python3 checks/check.py {pid} --tier thorough",
        "evidence_file": f"/verif/evidence/{pid}.json",
        "replay_cmd_template": "python3 checks/check.py --replay {path}",
        "engine": "symgo",
        "level_claimed": {"category": "model_checking",
                          "text": c.get("level_text", "Bounded symbolic model checking of the real Go code (go/ssa of /repo's working tree executed symbolically, every branch and assertion decided by an SMT solver): the assertions hold for every input value, order and choice inside the stated bounds; nothing is claimed outside them."),
                          "design_ref": c.get("design_ref", "DESIGN.md §5 " + pid)},
        "level_note": c.get("level_note", "Trusted: go/ssa, the symgo interpreter and its intrinsic table, z3/cvc5, the ideal-crypto model (collision-free hashes, unforgeable signatures) and the stubs listed in the evidence; counterexamples are only reported after native replay against the compiled code."),
        "technique": c.get("technique", "bounded symbolic execution of go/ssa + SMT (z3/cvc5), counterexamples replayed natively"),
    })
claimed = {c["property_id"] for c in checks}
man = {
    "version": 1,
    "setup_cmd": "cd /verif/symgo && GOFLAGS=-mod=mod GOPROXY=off GOSUMDB=off GOTOOLCHAIN=local go build -o /verif/bin/symgo .",
    "hooks": {"guard": "verif", "enable": "harness files and the vp package are injected with go/packages Overlay / go test -overlay and build tag `verif`; nothing is written into /repo",
              "baseline_off_cmd": "cd /repo && go test -vet=off -count=1 -timeout 25m ./...",
              "source_commits": [], "add_only": True},
    "engines": [{"name": "symgo", "path": "/verif/symgo", "serves_properties": sorted(claimed),
                 "kind_free_text": "own bounded symbolic executor for Go: go/ssa of /repo's working tree -> SMT-LIB2 (QF_UFBV), re-execution DFS over decisions (branches, concretisations, map order, scheduler, crash points), z3 5.1 one-shot primary with z3 4.8.12/cvc5 fallback and cross-check, native replay of counterexamples"}],
    "checks": checks,
    "not_applicable": [x for x in na if x["property_id"] not in claimed],
    "notes": "Technique family: solver-based checking of the real code. See DESIGN.md. Fixes of genuine defects are `fix:` commits in /repo, listed in known_findings.json.",
}
json.dump(man, open(os.path.join(VERIF, "MANIFEST.json"), "w"), indent=1)
print("claimed:", sorted(claimed), "not_applicable:", [x["property_id"] for x in man["not_applicable"]])
