import json,sys
r=json.load(sys.stdin)
for x in r['results']:
    print(x['harness'], x['paths'], x['ends'], x.get('undischarged_msgs'), x['reached'])
    seen=set()
    for v in (x['violations'] or []):
        key=v['id']+v['msg'][:80]
        if key in seen: continue
        seen.add(key); print(' ', v['id'], v['msg'][:300], '\n     choices', v['choices'], {k:v for k,v in v['model'].items() if v!='0'})
