#!/usr/bin/env python3
"""Driver for the solver-based checks.

  check.py <PROPERTY> [--tier quick|thorough]      run the check, write evidence/<PROPERTY>.json
  check.py --replay <path>                         re-run one recorded counterexample natively

Exit 0: no (unlisted) violation found on everything explored.  Exit 1: a violation was found by the
solver AND reproduced against the natively compiled code (line `VIOLATION property=<id> replay=<path>`).
Undischarged obligations (solver unknown, unwinding failure, unsupported operation, vacuity) are printed
as INCONCLUSIVE lines and recorded in the evidence; they are never counted as verified and never raise
an alarm.
"""
import json, os, re, subprocess, sys, time, shutil, hashlib

VERIF = os.path.dirname(os.path.dirname(os.path.abspath(__file__)))
REPO = os.environ.get("VERIF_REPO", "/repo")
sys.path.insert(0, os.path.join(VERIF, "checks"))
from props import PROPS  # noqa: E402

ENV = dict(os.environ, GOFLAGS="-mod=mod", GOPROXY="off", GOSUMDB="off", GOTOOLCHAIN="local",
           CARGO_NET_OFFLINE="true", PIP_NO_INDEX="1")
MOD = "github.com/tendermint/tendermint"


def sh(cmd, **kw):
    return subprocess.run(cmd, env=ENV, text=True, capture_output=True, **kw)


def ensure_engine():
    binp = os.path.join(VERIF, "bin", "symgo")
    src = os.path.join(VERIF, "symgo")
    newest = max(os.path.getmtime(os.path.join(src, f)) for f in os.listdir(src))
    if not os.path.exists(binp) or os.path.getmtime(binp) < newest:
        os.makedirs(os.path.dirname(binp), exist_ok=True)
        r = sh(["go", "build", "-o", binp, "."], cwd=src)
        if r.returncode != 0:
            print(r.stdout + r.stderr, file=sys.stderr)
            print("ERROR: cannot build symgo", file=sys.stderr)
            sys.exit(2)
    return binp


def harness_files():
    out = {}
    root = os.path.join(VERIF, "harness")
    for d, _, fs in os.walk(root):
        for f in fs:
            if f.endswith(".go"):
                p = os.path.join(d, f)
                out[os.path.join(REPO, os.path.relpath(p, root))] = p
    out[os.path.join(REPO, "internal/verifvp/vp.go")] = os.path.join(VERIF, "vp", "vp.go")
    return out


def pkg_name(dirpath):
    root = os.path.join(VERIF, "harness", dirpath)
    for f in sorted(os.listdir(root)):
        if f.endswith(".go"):
            m = re.search(r"^package\s+(\w+)", open(os.path.join(root, f)).read(), re.M)
            if m:
                return m.group(1)
    raise SystemExit("no package clause under " + root)


def native_replay(outdir, dirpath, entry, replay_path):
    """Run entry natively under the recorded assignment. Returns (status, detail)."""
    os.makedirs(outdir, exist_ok=True)
    pname = pkg_name(dirpath)
    test_src = f'''//go:build verif

package {pname}

import (
	"fmt"
	"testing"

	vp "{MOD}/internal/verifvp"
)

func TestVPReplay(t *testing.T) {{
	defer func() {{
		r := recover()
		switch r := r.(type) {{
		case nil:
			fmt.Println("VP_RESULT pass")
		case vp.AssertFailure:
			fmt.Println("VP_RESULT violation id=" + r.ID)
		case vp.AssumeFailure:
			fmt.Println("VP_RESULT void")
		default:
			fmt.Printf("VP_RESULT panic %v\\n", r)
		}}
	}}()
	{entry}()
}}
'''
    tfile = os.path.join(outdir, f"replay_{entry}_test.go")
    open(tfile, "w").write(test_src)
    ov = {"Replace": dict(harness_files())}
    ov["Replace"][os.path.join(REPO, dirpath, "zz_verif_replay_test.go")] = tfile
    ovfile = os.path.join(outdir, f"overlay_{entry}.json")
    json.dump(ov, open(ovfile, "w"))
    env = dict(ENV, VP_REPLAY=replay_path)
    cmd = ["go", "test", "-tags", "verif", "-vet=off", "-count=1", "-v", "-timeout", "10m", "-overlay", ovfile,
           "-run", "^TestVPReplay$", "./" + dirpath + "/"]
    try:
        r = subprocess.run(cmd, cwd=REPO, env=env, text=True, capture_output=True, timeout=900)
    except subprocess.TimeoutExpired:
        return "error", "native replay timed out"
    out = r.stdout + r.stderr
    m = re.search(r"VP_RESULT (\w+)(.*)", out)
    if not m:
        return "error", out[-2000:]
    return m.group(1), m.group(2).strip()


NON_NATIVE = {"crash", "crash-partial", "crash-tail", "sched", "select", "preempt", "maporder", "rand", "ioerr"}


def engine_replay(outdir, dirpath, entry, replay_path, want_id, want_kind):
    """Re-run the entry inside the interpreter with all inputs fixed to the model and the recorded crash /
    scheduler / map-order decisions forced (these cannot be forced on the natively compiled code)."""
    binp = os.path.join(VERIF, "bin", "symgo")
    res = os.path.join(outdir, f"engine_replay_{entry}.json")
    cmd = [binp, "run", "-repo", REPO, "-harness", os.path.join(VERIF, "harness"), "-vp", os.path.join(VERIF, "vp", "vp.go"),
           "-entries", f"{dirpath}:{entry}", "-out", res, "-replay", replay_path, "-timeout", "300s"]
    r = subprocess.run(cmd, env=ENV, text=True, capture_output=True)
    if r.returncode != 0 or not os.path.exists(res):
        return False
    run = json.load(open(res))
    for x in run["results"]:
        for v in (x.get("violations") or []):
            if v["id"] == want_id or (want_kind == "panic" and v["kind"] == "panic"):
                return True
    return False


def realise(model, hashes):
    """Re-target a solver model at the real hash functions: the model assigns arbitrary values to the
    outputs of the ideal hash; wherever a group of symbolic input bytes carries such an output value it is
    replaced by the real digest of the (re-evaluated) hash input.  Returns a patched copy of the model."""
    if not hashes:
        return model
    model = dict(model)
    # group byte inputs: in_<name>.<i>_<k>
    groups = {}
    for name in model:
        m = re.match(r"^(in_.*)\.(\d+)_(\d+)$", name)
        if m:
            groups.setdefault((m.group(1), m.group(3)), {})[int(m.group(2))] = name
    real_out = {}
    for j, h in enumerate(hashes):
        kind = h["kind"]
        if kind not in ("sha256", "sha512"):
            continue
        buf = bytearray()
        for b in (h.get("in") or []):
            if "c" in b:
                buf.append(b["c"] & 0xff)
            elif "v" in b:
                buf.append(int(model.get(b["v"], "0")) & 0xff)
            elif "h" in b and b["h"] in real_out:
                buf.append(real_out[b["h"]][b["i"]])
            elif "h" in b:
                buf.append(hashes[b["h"]]["out"][b["i"]] & 0xff)
            else:
                buf.append(b["e"] & 0xff)
        digest = hashlib.sha256(bytes(buf)).digest() if kind == "sha256" else hashlib.sha512(bytes(buf)).digest()
        real_out[j] = digest
        old = [x & 0xff for x in h["out"]]
        if list(digest) == old:
            continue
        n = len(old)
        for (base, k), idx in groups.items():
            if len(idx) < n:
                continue
            # any aligned run of n bytes equal to the ideal output
            for start in range(0, len(idx) - n + 1):
                try:
                    vals = [int(model[idx[start + t]]) & 0xff for t in range(n)]
                except KeyError:
                    continue
                if vals == old:
                    for t in range(n):
                        model[idx[start + t]] = str(digest[t])
    return model


def file_blob(path):
    try:
        return subprocess.run(["git", "-C", REPO, "hash-object", path], text=True, capture_output=True).stdout.strip()[:12]
    except Exception:
        return ""


def load_known():
    p = os.path.join(VERIF, "known_findings.json")
    if os.path.exists(p):
        return json.load(open(p)).get("findings", [])
    return []


def run_check(prop, tier, seed):
    t0 = time.time()
    cfg = PROPS[prop]
    binp = ensure_engine()
    outdir = os.path.join(VERIF, "out", prop)
    shutil.rmtree(outdir, ignore_errors=True)
    os.makedirs(outdir, exist_ok=True)
    entries = []
    for g in cfg["groups"]:
        names = list(g.get("quick", []))
        if tier == "thorough":
            names += g.get("thorough", [])
        entries += [(g["dir"], n, g) for n in names]
    # VERIF_SEED only permutes the order in which harnesses are started
    if seed:
        import random
        random.Random(seed).shuffle(entries)
    tmo = cfg.get("timeout_" + tier, 600 if tier == "quick" else 3000)
    res_file = os.path.join(outdir, "result.json")
    cmd = [binp, "run", "-repo", REPO, "-harness", os.path.join(VERIF, "harness"), "-vp", os.path.join(VERIF, "vp", "vp.go"),
           "-entries", ",".join(f"{d}:{n}" for d, n, _ in entries), "-out", res_file,
           "-timeout", f"{tmo}s", "-known", os.path.join(VERIF, "known_findings.json"),
           "-j", str(cfg.get("jobs", 16))]
    if tier == "thorough":
        cmd += ["-cross", "25", "-qtimeout", "60000", "-ftimeout", "120000"]
    else:
        cmd += ["-qtimeout", "20000", "-ftimeout", "30000"]
    cmd += cfg.get("engine_flags", [])
    r = subprocess.run(cmd, env=ENV, text=True, capture_output=True)
    sys.stderr.write(r.stderr[-6000:])
    if r.returncode != 0 or not os.path.exists(res_file):
        print(f"ERROR property={prop}: engine failed (exit {r.returncode}); see stderr", file=sys.stderr)
        # a harness that no longer compiles against the tree is reported, never silently passed
        write_evidence(prop, tier, seed, cfg, None, [], [], time.time() - t0, error=(r.stderr[-3000:] or "engine failed"))
        print(f"INCONCLUSIVE property={prop} reason=engine-or-harness-build-failure")
        return 0
    run = json.load(open(res_file))
    known = [k for k in load_known() if k.get("property") == prop and k.get("status") == "open"]
    confirmed, inconclusive, replays = [], [], 0
    known_lines = []
    seen_v = set()
    for res in run["results"]:
        d, name = res["harness"].split(":")
        for aid, n in (res.get("known_hits") or {}).items():
            for k in known:
                if k["harness"] == name and k["assert_id"] == aid:
                    known_lines.append(f"KNOWN-FINDING: property={prop} {k['desc']} (harness {name}, assertion {aid}, {n} path(s))")
        for v in (res.get("violations") or []):
            if (name, v["id"]) in seen_v:
                continue
            seen_v.add((name, v["id"]))
            rp = os.path.join(outdir, f"{name}.{hashlib.sha1(v['id'].encode()).hexdigest()[:8]}.replay.json")
            full = dict(v.get("model") or {})
            for inp in (v.get("inputs") or []):
                full.setdefault(inp["Name"], "0")  # unconstrained inputs take 0, natively too: make that explicit for the realiser
            model = realise(full, (v.get("extra") or {}).get("hashes"))
            json.dump({"property": prop, "dir": d, "entry": name, "assert_id": v["id"], "kind": v["kind"], "msg": v.get("msg", ""),
                       "model": model, "solver_model": v.get("model") or {}, "choices": v.get("choices") or [], "decisions": v.get("decisions", ""),
                       "stack": v.get("stack") or []},
                      open(rp, "w"), indent=1)
            status, detail = native_replay(outdir, d, name, rp)
            replays += 1
            ok = (status == "violation" and detail == "id=" + v["id"]) or (v["kind"] == "panic" and status == "panic")
            how = "native"
            concurrent = ((v.get("extra") or {}).get("goroutines") or 0) > 1 and status in ("pass", "error")
            if not ok and (any(d["kind"] in NON_NATIVE for d in (v.get("stack") or [])) or "verifvp.Stub" in detail or concurrent):
                # crash points / scheduling cannot be forced natively: replay concretely in the interpreter
                ok = engine_replay(outdir, d, name, rp, v["id"], v["kind"])
                how = "interpreter (crash/scheduler decisions forced, functions intercepted, or several goroutines whose native interleaving differed; native run had " + status + ")"
            v["replayed"] = how
            if ok:
                confirmed.append((name, v, rp))
            else:
                inconclusive.append(f"harness={name} assertion={v['id']} solver=sat native-replay={status} {detail[:300]}")
        for kind, n in (res.get("undischarged") or {}).items():
            inconclusive.append(f"harness={name} reason={kind} count={n}")
        for lab in res.get("missing_reach") or []:
            inconclusive.append(f"harness={name} reason=vacuity witness-not-reached={lab}")
    # translator validation: a few *passing* paths (one per harness, at most 4 per property) are run
    # natively under the same inputs and decisions; the native run must pass too.  Only paths whose
    # decisions can be forced natively and that use no intercepted function and one goroutine qualify.
    validated, mismatches = 0, []
    tv_budget = 4
    for res in run["results"]:
        d, name = res["harness"].split(":")
        if tv_budget == 0:
            break
        for smp in ([res["native_sample"]] if res.get("native_sample") else []):
            rp = os.path.join(outdir, f"{name}.sample.replay.json")
            model = realise(smp.get("model") or {}, (smp.get("extra") or {}).get("hashes"))
            json.dump({"property": prop, "dir": d, "entry": name, "kind": "sample", "model": model, "solver_model": smp.get("model") or {},
                       "choices": smp.get("choices") or [], "decisions": smp.get("decisions", ""), "stack": smp.get("stack") or []}, open(rp, "w"), indent=1)
            status, detail = native_replay(outdir, d, name, rp)
            tv_budget -= 1
            if status == "pass":
                validated += 1
            elif "engine only" in detail or "verifvp.Stub" in detail:
                pass  # harness uses engine-only primitives: not comparable natively
            else:
                mismatches.append(f"harness={name} reason=translator-validation native-run-of-a-passing-path={status} {detail[:200]}")
            break
    replays += validated
    inconclusive.extend(mismatches)
    for line in sorted(set(known_lines)):
        print(line)
    for line in inconclusive:
        print(f"INCONCLUSIVE property={prop} {line}")
    write_evidence(prop, tier, seed, cfg, run, confirmed, inconclusive, time.time() - t0, replays=replays, entries=entries, known_lines=known_lines)
    if confirmed:
        for name, v, rp in confirmed:
            print(f"VIOLATION property={prop} replay={rp}")
            print(f"  harness={name} assertion={v['id']} replayed={v.get('replayed')} {v.get('msg','')[:300]} model={json.dumps(v.get('model'))[:600]}")
        return 1
    print(f"OK property={prop} tier={tier} harnesses={len(run['results'])} paths={sum(r['paths'] for r in run['results'])} "
          f"asserts_proved={sum(r['asserts_proved'] for r in run['results'])} undischarged={len(inconclusive)} wall={time.time()-t0:.1f}s")
    return 0


def write_evidence(prop, tier, seed, cfg, run, confirmed, inconclusive, wall, replays=0, entries=(), known_lines=(), error=None):
    ev = {
        "property_id": prop, "tier": tier, "seed": seed, "level": "model_checking", "wall_s": round(wall, 2),
        "violations": len(confirmed),
        "assumptions": cfg.get("assumptions", []) + [
            "ideal cryptography: SHA-256/SHA-512 are collision-free uninterpreted functions; ed25519 signatures verify only if produced by signing (EUF-CMA as an oracle)",
            "go/ssa construction and the symgo instruction semantics and intrinsic table are trusted (validated by native replay of every counterexample and by concrete differential rows)",
            "data-race freedom: goroutines are interleaved only at synchronisation operations",
        ],
    }
    cov = {"technique": "bounded symbolic execution of go/ssa of the working tree, SMT (z3 5.1 primary, z3 4.8.12 / cvc5 fallback and cross-check)",
           "bounds": cfg.get("bounds", {}), "outside_claim": cfg.get("outside", []), "stubs": cfg.get("stubs", []),
           "inconclusive": inconclusive, "known_findings_hit": sorted(set(known_lines))}
    if run is None:
        cov.update({"states": 1, "transitions": 1, "traces_validated_against_impl": 0,
                    "samples": [{"error": error}], "obligations": 1, "discharged": 0})
    else:
        rs = run["results"]
        funcs = sorted({f for r in rs for f in (r.get("functions_encoded") or [])})
        repo_funcs = [f for f in funcs if MOD in f and "internal/verifvp" not in f and ".VP_" not in f and ".vp" not in f.split("/")[-1][:40]]
        samples = []
        for r in rs:
            for s in (r.get("samples") or [])[:1]:
                samples.append({"harness": r["harness"], "decisions": s["decisions"], "end": s["end"], "path_condition_conjuncts": s["pc_conjuncts"], "witnesses": s.get("reached")})
        if not samples:
            samples = [{"harness": r["harness"], "paths": r["paths"]} for r in rs[:3]]
        obligations = sum(r["assert_checks"] for r in rs) + len(inconclusive)
        discharged = sum(r["asserts_proved"] + r["asserts_concrete"] for r in rs) - len(confirmed)
        sol = {k: sum(r["solver"][k] for r in rs) for k in ("Queries", "Sat", "Unsat", "Unknown", "Fallbacks", "CrossChecked", "Disagreements")}
        sol["Seconds"] = round(sum(r["solver"]["Seconds"] for r in rs), 2)
        sol["MaxQuerySec"] = round(max([r["solver"]["MaxQuerySec"] for r in rs] + [0]), 2)
        cov.update({
            "states": max(1, sum(r["paths"] for r in rs)),
            "transitions": max(1, sum(r["decisions"] for r in rs)),
            "traces_validated_against_impl": replays,
            "samples": samples[:12],
            "harnesses": [{"harness": r["harness"], "paths": r["paths"], "paths_completed": r["paths_done"], "assert_checks": r["assert_checks"],
                           "asserts_proved_by_solver": r["asserts_proved"], "asserts_concrete": r["asserts_concrete"],
                           "ends": r["ends"], "witnesses_reached": sorted((r.get("reached") or {}).keys()), "witnesses_missing": r.get("missing_reach") or [],
                           "undischarged": r.get("undischarged") or {}, "exhaustive_within_bounds": r["exhaustive_within_bounds"],
                           "ssa_instructions": r["ssa_instructions"], "wall_s": round(r["wall_s"], 2)} for r in rs],
            "obligations": obligations, "discharged": max(0, discharged),
            "exhaustive": all(r["exhaustive_within_bounds"] for r in rs),
            "functions_encoded": repo_funcs[:400],
            "functions_encoded_total": len(funcs),
            "source_blobs": {f: file_blob(os.path.join(REPO, f)) for f in cfg.get("files", [])},
            "intrinsics_used": sorted({k for r in rs for k in (r.get("intrinsics_used") or {}) if "verifvp" not in k}),
            "stubs_used": sorted({k for r in rs for k in (r.get("stubs_used") or {})}),
            "solver": sol,
            "solver_disagreements": sol["Disagreements"],
            "engine_load_s": round(run.get("load_s", 0), 2),
        })
    ev["coverage"] = cov
    os.makedirs(os.path.join(VERIF, "evidence"), exist_ok=True)
    json.dump(ev, open(os.path.join(VERIF, "evidence", prop + ".json"), "w"), indent=1)


def main():
    args = sys.argv[1:]
    if args and args[0] == "--replay":
        rp = os.path.abspath(args[1])
        j = json.load(open(rp))
        status, detail = native_replay(os.path.join(VERIF, "out", j["property"]), j["dir"], j["entry"], rp)
        print(f"replay {j['entry']}: {status} {detail}")
        aid = j.get("assert_id", "")
        ok = (status == "violation" and detail == "id=" + aid) or (j.get("kind") == "panic" and status == "panic")
        if not ok and aid:
            # decisions that cannot be forced on compiled code: replay concretely in the interpreter
            ensure_engine()
            ok = engine_replay(os.path.join(VERIF, "out", j["property"]), j["dir"], j["entry"], rp, aid, j.get("kind", "assert"))
            print(f"replay {j['entry']} in the interpreter: {'violation' if ok else 'not reproduced'}")
        if ok:
            print(f"VIOLATION property={j['property']} replay={rp}")
            sys.exit(1)
        sys.exit(0)
    prop = args[0]
    tier = os.environ.get("VERIF_TIER", "quick")
    if "--tier" in args:
        tier = args[args.index("--tier") + 1]
    seed = int(os.environ.get("VERIF_SEED", "0") or 0)
    sys.exit(run_check(prop, tier, seed))


if __name__ == "__main__":
    main()
