"""Per-property configuration of the solver-based checks: harness entry points per tier, stated bounds,
stubs and what lies outside the claim.  The harness source is under /verif/harness (overlaid into the repo)."""

PROPS = {}

PROPS["C10"] = {
    "files": ["types/part_set.go", "crypto/merkle/proof.go", "crypto/merkle/tree.go", "crypto/merkle/hash.go"],
    "groups": [
        {"dir": "crypto/merkle",
         "quick": ["VP_C10_SoundPath_n2", "VP_C10_SoundPath_n3", "VP_C10_Sound_n1", "VP_C10_Sound_n2", "VP_C10_Sound_n3", "VP_C10_Sound_n4", "VP_C10_Sound_n5",
                   "VP_C10_Genuine_n1", "VP_C10_Genuine_n2", "VP_C10_Genuine_n3", "VP_C10_Genuine_n4",
                   "VP_C10_SoundSymTotal_n2", "VP_C10_SoundSymTotal_n3"],
         "thorough": ["VP_C10_Sound_n6", "VP_C10_Sound_n7", "VP_C10_Sound_n8", "VP_C10_Genuine_n5",
                      "VP_C10_Sound2_n3"]},
        {"dir": "types",
         "quick": ["VP_C10_AddPartSym_L2_s1", "VP_C10_AddPartSym_L3_s2", "VP_C10_AddPartSym_L3_s1", "VP_C10_AddPartTamper_L2_s1", "VP_C10_AddPartTamper_L3_s1",
                   "VP_C10_AddPartTamper_L4_s2", "VP_C10_Complete_L3_s1", "VP_C10_Complete_L5_s2", "VP_C10_Complete_L6_s4", "VP_C10_ArbitraryCuts_L3_n3", "VP_C10_ArbitraryCuts_L4_n4"],
         "thorough": ["VP_C10_AddPartSym_L4_s1", "VP_C10_AddPartTamper_L5_s2", "VP_C10_AddPartTamper_L6_s4",
                      "VP_C10_Complete_L6_s1"]},
    ],
    "bounds": {
        "merkle": "trees of n = 1..5 leaves (thorough: ..8) of 1-byte symbolic items (one 2-byte configuration); proof fully symbolic: Index int64, leaf hash 32 bytes, 0..4 aunts of 32 symbolic bytes, leaf of 0..2 symbolic bytes; Total = n (two thorough configurations with symbolic Total)",
        "arbitrary cuts": "L = 3 / 4 symbolic bytes cut into 3 / 4 pieces at symbolic cut points (pieces of length zero in every position), genuine proofs over the pieces, delivered through the wire format in a rotated order: the completed set reassembles to exactly the original bytes",
        "part sets": "data of L = 2..6 symbolic bytes, part size 1/2/4; up to 3 adversarial AddPart calls, each a fully symbolic part (index, bytes, proof with <=2 aunts) or a genuine part with one field replaced / transplanted; genuine parts in every rotation with duplicates",
        "unwind": "64 symbolic iterations per branch instruction per frame; none reached",
    },
    "stubs": ["sha256 = ideal collision-free hash (domain-separation prefix bytes are part of the hashed input)"],
    "outside": ["more than 8 leaves / 6 data bytes / parts of 65536 bytes (the code is size-generic)", "SHA-256 collisions",
                "proof protobuf decoding (ProofFromProto only copies fields and calls ValidateBasic)"],
    "timeout_quick": 420, "timeout_thorough": 2400,
}

PROPS["C07"] = {
    "files": ["types/validator_set.go", "types/block.go", "types/vote.go", "types/canonical.go", "libs/math/fraction.go"],
    "groups": [
        {"dir": "types",
         "quick": ["VP_C07_DecodedSetTotal", "VP_C07_BlockIDEquality", "VP_C07_NilVotesCommitNothing", "VP_C07_Verify_n1", "VP_C07_Verify_n2", "VP_C07_Verify_n2_extra", "VP_C07_Trusting_n1_m1", "VP_C07_Trusting_n2_m1",
                   "VP_C07_TrustLevelGuards", "VP_C07_SignBytesInjective_small", "VP_C07_Repeat_n2_m2", "VP_C07_Repeat_n3_m2"],
         "thorough": ["VP_C07_Verify_n3", "VP_C07_Repeat_n4_m3", "VP_C07_Trusting_n2_m2", "VP_C07_Trusting_n3_m2"]},
    ],
    "bounds": {
        "block-id comparison": "BlockID.Equals (the only link between the block id the caller asks about and the one the signatures cover) on two ids whose hash and part-set hash are absent or 32 fully symbolic bytes and whose part count is a symbolic value below 2^14: equal exactly when every field is",
        "validators": "n = 1..2 (thorough 3) validators with fully symbolic 64-bit powers (1 <= p, sum <= MaxTotalVotingPower, so totals near 2^60 are inside); real ed25519 keys",
        "commit slots": "per slot: symbolic flag in {absent, commit, nil}; signature = genuine over the exact canonical precommit | genuine by another validator's key | junk | (one designated slot) genuine over a message differing in exactly one bound field: chain id, height, round, block hash, part-set header, vote type, timestamp, nil-vs-block",
        "arguments": "height / block id argument equal to or different from the commit's; commit one slot longer than the set",
        "trusting": "trusted set of m = 1..2 members, each one of the signers or a stranger, symbolic powers; slot addresses pointing at any member or a stranger (same signer in two slots included); trust levels 1/3, 2/3, 1/1, 1/2, 0/1; symbolic numerator <= 2^62 and denominator <= 8 for the guards",
        "sign bytes": "two votes with symbolic type, height, round, block hash bytes, part-set total, timestamp seconds < 2^35, chain id from 3 strings: equal sign bytes imply equal bound fields",
    },
    "stubs": ["ed25519 = ideal signature oracle keyed on the real sign bytes (natively: real ed25519)", "sha256 concrete (addresses)"],
    "outside": ["n > 3 validators / m > 2 trusted members", "arbitrary symbolic trust fractions beyond the guard harness (symbolic x symbolic multiply)", "batch verification (absent in this version)"],
    "engine_flags": ["-qtimeout", "2500"],
    "timeout_quick": 420, "timeout_thorough": 3000,
}

PROPS["C08"] = {
    "files": ["types/validator_set.go", "types/validator.go", "state/store.go"],
    "groups": [
        {"dir": "types",
         "quick": ["VP_C08_Update_n1_c1", "VP_C08_Update_n2_c1", "VP_C08_Update_n2_c2", "VP_C08_UpdatePriorities", "VP_C08_UpdateManyExtreme", "VP_C08_Rescale_n2", "VP_C08_Rotation_n2_T3", "VP_C08_Rotation_n2_T4", "VP_C08_Rotation_n3_T4"],
         "thorough": ["VP_C08_Update_n3_c2", "VP_C08_Rescale_n3", "VP_C08_Rotation_n3_T5", "VP_C08_Rotation_n3_T6", "VP_C08_Rotation_n2_big"]},
        {"dir": "state",
         "quick": ["VP_C08_History_n2_low", "VP_C08_History_n2_low_change", "VP_C08_History_n2_checkpoint", "VP_C08_History_n3_checkpoint", "VP_C08_History_n2_checkpoint_change"],
         "thorough": []},
    ],
    "bounds": {
        "over-limit batches": "2..33 newcomers within 2 of the maximum total power each (sums beyond 64 bits included): rejected, no panic, set untouched",
        "priorities after a batch": "3 validators of power 10 after 0..2 rounds; batches {newcomer}, {removal + newcomer} in both orders, {power change + newcomer + removal}, newcomer power 1/10/30: every priority equals the specified one (newcomer penalty on the total after updates before removals, window, centring)",
        "rescale": "RescalePriorities on 2 (thorough 3) validators with arbitrary priorities in [-24,24] and a window of 1..8 against the specified ceiling division",
        "update": "current set of n = 1..2 (thorough 3) validators (powers 5,3,3) built by the real NewValidatorSet; batch of c = 1..2 changes, each: address from a pool of n+2 (existing or fresh, duplicates possible), power = 0 | symbolic in [1,2^12] | symbolic negative or above the cap | symbolic within 16 of MaxTotalVotingPower; the reversed batch is applied to a copy",
        "rotation": "n = 2..3 validators with symbolic powers, total <= 3..6 (one configuration with total up to MaxTotalVotingPower), T = total steps of the real IncrementProposerPriority(1) against the specified algorithm (centre, add power, pick max with address tie-break, subtract total)",
        "history": "chain segments of 4..5 heights at heights 5.. and 99998..100002 (crossing the 100000 checkpoint), n = 2..3 validators, powers 1..4 and the change height / new power concretised (one branch per value), saved with the real saveValidatorsInfo on the real MemDB, every height looked up with LoadValidators",
    },
    "stubs": ["math/big on 72-bit two's-complement terms", "ed25519 key derivation concrete"],
    "outside": ["n > 3, batches > 2 (3 thorough)", "histories longer than 5 heights", "symbolic powers through the protobuf codec in the history harness (concretised instead)", "PruneStates interplay (see C18)"],
    "engine_flags": ["-qtimeout", "2500"],
    "timeout_quick": 500, "timeout_thorough": 3000,
}

PROPS["C01"] = {
    "files": ["types/vote_set.go", "types/vote.go", "types/validator_set.go", "state/validation.go"],
    "groups": [
        {"dir": "types",
         "quick": ["VP_C01_VoteSet_n2_k3", "VP_C01_VoteSet_n3_k2", "VP_C01_VoteSet_n2_k2_pv", "VP_C01_VoteSet_n2_k2_full", "VP_C01_VoteSet_n2_k5_conflict"],
         "thorough": ["VP_C01_VoteSet_n3_k3", "VP_C01_VoteSet_n3_k3_pv", "VP_C01_VoteSet_n2_k4", "VP_C01_VoteSet_n3_k3_full"]},
        {"dir": "consensus",
         "quick": ["VP_C02_Step_R1_vote_lockfocus", "VP_C02_Step_R2_vote_lockfocus_top", "VP_C02_Step_R1_part_lockfocus"],
         "thorough": ["VP_C02_Step_R1_part", "VP_C02_Step_R1_vote_locked"]},
        {"dir": "state",
         "quick": ["VP_C06_ValidateLastCommit"],
         "thorough": []},
        {"dir": "blockchain/v0",
         "quick": ["VP_C13_Accept"],
         "thorough": []},
    ],
    "bounds": {
        "commit rule and local voting rules (H2/H3)": "the inductive step of the real consensus.State (see C02): at every BlockStore.SaveBlock the saved block is the one with +2/3 precommits in the commit round, passed validation, its parts match the commit header, the seen commit is for it; ApplyBlock only after SaveBlock; nothing saved without deciding; lock rules L1-L5",
        "full validation of the last commit": "real state.validateBlock on block 2 of a 3-validator chain (powers 12, 11, 10) whose last commit has, per validator, a genuine for-block precommit, a genuine nil precommit, an absent slot, or a for-block / nil slot with a signature that does not verify (5^3 combinations, concrete): accepted exactly when every present signature verifies and the for-block power alone exceeds two thirds",
        "vote set (H1)": "n = 2..3 validators, symbolic powers (total <= 2^16; one configuration up to MaxTotalVotingPower), histories of k = 2..3 (thorough 4) operations from: a well-formed genuinely signed vote of validator i for block A/B/nil, a junk-signature vote, a vote malformed in exactly one respect (height, round, type, index out of range / negative / other validator's index, empty address) but genuinely signed as such, SetPeerMaj23 by one of two peers for A/B/nil; one entry with k = 5 over the alphabet {validator 0 votes A, validator 0 votes B, a peer claims a majority} (equivocation and re-delivery); quorum facts asserted after every operation; MakeCommit checked with the real VerifyCommit",
    },
    "stubs": ["ed25519 = ideal signature oracle (natively real)", "H2/H3: the stubs of the consensus step harness (see C02)"],
    "outside": ["the composition of the per-node rules into agreement between nodes (H4) is the standard quorum-intersection argument and is not decided here; its conclusions are assumed as global facts on the vote table", "H2/H3 slices as listed for C02"],
    "engine_flags": ["-qtimeout", "2500"],
    "timeout_quick": 500, "timeout_thorough": 3000,
}

PROPS["C04"] = {
    "files": ["privval/file.go", "libs/tempfile/tempfile.go", "consensus/wal.go"],
    "groups": [
        {"dir": "privval",
         "quick": ["VP_C04_Signer_k2", "VP_C04_Signer_k2_symts", "VP_C04_Signer_k2_crash1", "VP_C04_Signer_k2_ioerr"],
         "thorough": ["VP_C04_Signer_k3", "VP_C04_Signer_k2_crash1_symts", "VP_C04_Signer_k2_crash2"]},
        {"dir": "consensus",
         "quick": ["VP_C02_Step_R1_timeout_lockfocus", "VP_C15_WAL_k3", "VP_C15_WAL_k3_crash1", "VP_C15_Repair_1", "VP_C15_Repair_2"],
         "thorough": ["VP_C02_Step_R1_timeout", "VP_C15_WAL_k4"]},
    ],
    "bounds": {
        "the unfinished height is found again after a restart (H3)": "the WAL history harness of C15: k = 3 (thorough 4) operations from {write, synced write, end-of-height marker, rotation of the head, clean stop + restart, flush} with 0 or 1 crash at any file operation; afterwards every durably written end-height marker is found by the real SearchForEndHeight (so catch-up replay restores the node's own messages of the unfinished height), in whichever file of the group it sits",
        "signer (H1)": "real FilePV on the modelled file system; k = 2 (thorough 3, without crashes) arbitrary requests: prevote / precommit / proposal, height 1, round 0..1, block A/B/nil, two timestamps (or a symbolic timestamp travelling through the real sign-bytes codec), optional restart (LoadFilePV) after every request",
        "WAL before signing (H2)": "the consensus step harness (see C02) hands every input to a recording WAL unsynced, as the receive routine does; inside the signer, at every SignVote / SignProposal the WAL must have been flushed and synced (entries: timeouts; the proposer re-proposing its valid block is among them)",
        "write errors": "one write of the sign-state file fails with an error at any point (nothing reaches the file); the signer must not release a signature it could not record (it may die: the harness then restarts it from disk)",
        "crashes": "one (thorough two, k = 2) simulated crash at any file operation of the sign-state save (create, write with a torn prefix, rename, remove), surviving prefix of an unsynced tail chosen at reboot, then LoadFilePV on what survived",
    },
    "stubs": ["file system model (symgo/vfs.go): O_SYNC writes durable, rename/remove atomic and durable", "tmjson = identity on Go values with an opaque token (a torn token does not decode)", "ed25519 ideal when sign bytes are symbolic, real otherwise"],
    "outside": ["remote signers (privval/signer_*)", "directory-entry reordering across rename", "crash between signing and the WAL write of the own message followed by replay (covered only through the signer refusing conflicting requests)"],
    "timeout_quick": 420, "timeout_thorough": 3000,
}

PROPS["C15"] = {
    "files": ["consensus/wal.go", "libs/autofile/group.go", "libs/autofile/autofile.go", "consensus/state.go"],
    "groups": [
        {"dir": "consensus",
         "quick": ["VP_C15_Codec_k2", "VP_C15_Codec_k1_flip", "VP_C15_Arbitrary_L0", "VP_C15_Arbitrary_L3", "VP_C15_Arbitrary_L8", "VP_C15_Arbitrary_L10",
                   "VP_C15_WAL_k3", "VP_C15_WAL_k3_crash1", "VP_C15_Repair_1", "VP_C15_Repair_2", "VP_C15_RepairMidCorruption", "VP_C15_CatchupAtInitialHeight"],
         "thorough": ["VP_C15_Codec_k3", "VP_C15_Codec_k2_flip", "VP_C15_Arbitrary_L12", "VP_C15_WAL_k4", "VP_C15_WAL_k4_crash1"]},
        {"dir": "libs/autofile",
         "quick": ["VP_C15_Limits_k4", "VP_C15_ReopenAtIndex"],
         "thorough": ["VP_C15_Limits_k5"]},
    ],
    "bounds": {
        "codec": "k = 2 (thorough 3) messages (EndHeight / timeoutInfo from a fixed alphabet) framed by the real encoder, stream cut at a symbolic byte offset; one symbolic byte overwritten at a symbolic offset (k = 1, thorough 2); arbitrary buffers of L = 0,3,8,10 (thorough 12) fully symbolic bytes with the length field < 16",
        "repair over lifetimes": "1 and 2 process lifetimes that each append two synced records and die leaving 1, 5 or 9 bytes of a torn record at the end of the WAL; every restart runs the real State.OnStart (catch-up, backup, repairWalFile, reload); afterwards a reader returns every synced record of every lifetime in order",
        "catch-up at the first height": "a chain with initial height 1, 2 or 10 that crashed in its first height with one logged timeout: the real catchupReplay replays it",
        "repair of damage in the middle": "the start-up marker and four synced records; one byte of the checksum or of the payload of one of the first three records flipped (length field intact); real State.OnStart (catch-up, backup, repairWalFile, reload): a reader afterwards gets exactly the records before the damaged one",
        "rotation + reopen at any index width": "a group directory whose rotated files start at index 0, 8, 98, 997..1000, 9998 or 99998 (the decimal-width boundaries of the %03d suffix; concrete, one path each) is opened by the real OpenGroup, read, written, rotated and reopened: indices recomputed from the directory, every record read back once in order",
        "size limits": "real autofile.Group on the modelled file system with head-size limit 200..600 and total-size limit 300..900 bytes; k = 4 (thorough 5) operations from {synced write of a 100/300/700-byte record, checkHeadSizeLimit, checkTotalSizeLimit}; a later reader must get a suffix that starts at a file boundary and contains everything written since the last rotation",
        "wal": "real BaseWAL + autofile.Group on the modelled file system; histories of k = 3 (thorough 4) operations from {Write, WriteSync, end-of-height (synced), RotateFile, Stop+Start, FlushAndSync}; one simulated crash at any file operation (torn write prefixes, surviving prefix of the unsynced tail chosen at reboot), then reopen with the repair sequence of State.OnStart (backup, repairWalFile, reopen); audit with a fresh group reader and SearchForEndHeight for every height",
    },
    "stubs": ["file system model (symgo/vfs.go)", "crc32 = uninterpreted function that is functional and detects differences confined to a 4-byte window (true of CRC-32C); concrete inputs use the real CRC", "virtual time: tickers only fire when every goroutine is blocked"],
    "outside": ["1 MB-scale messages and length fields >= 16 in the arbitrary-buffer harness", "the periodic flush ticker and the size-limit ticker (RotateFile / FlushAndSync are invoked directly)", "checkTotalSizeLimit deletion of oldest files", "catch-up replay into consensus.State (H4: with the consensus step harness)"],
    "timeout_quick": 420, "timeout_thorough": 3000,
}

PROPS["C12"] = {
    "files": ["mempool/v0/clist_mempool.go", "mempool/v1/mempool.go", "mempool/cache.go", "libs/clist/clist.go"],
    "groups": [
        {"dir": "mempool/v0",
         "quick": ["VP_C12_V0_k3_sync", "VP_C12_V0_k3_smallcache", "VP_C12_V0_k3_async", "VP_C12_V0_k3_async_size1", "VP_C12_V0_Reap_n2", "VP_C12_V0_Reap_n3", "VP_C12_V0_ReapSizes"],
         "thorough": ["VP_C12_V0_k4_sync", "VP_C12_V0_k4_async", "VP_C12_V0_k4_smallcache", "VP_C12_V0_k3_3tx"]},
        {"dir": "mempool/v1",
         "quick": ["VP_C12_V1_k3", "VP_C12_V1_k3_smallcache", "VP_C12_V1_k2_reap", "VP_C12_V1_Concurrent", "VP_C12_V1_ReapOrder"],
         "thorough": ["VP_C12_V1_k4", "VP_C12_V1_k4_smallcache", "VP_C12_V1_k3_reap"]},
        {"dir": "state",
         "quick": ["VP_C05_Quiesce_0", "VP_C05_Quiesce_1_concurrent"],
         "thorough": []},
    ],
    "bounds": {
        "histories": "real CListMempool (v0) and TxMempool (v1); k = 3 (thorough 4) operations from {CheckTx of one of 2 (one configuration 3) transactions, delivery of one pending response (v0 async connection), block commit with a symbolic subset of the transactions, symbolic DeliverTx codes, then recheck}; the application's verdict per transaction is a symbolic code that changes at every block; v1 priorities 0/1",
        "configuration": "Size 1..2, CacheSize 1..2 (including cache smaller than pool), MaxTxsBytes symbolic in [3,6], MaxTxBytes 3, KeepInvalidTxsInCache symbolic, Recheck on/off",
        "reap order (v1)": "13..16 transactions with priorities from {3,5,7,9} arriving one millisecond apart: ReapMaxTxs(-1) and ReapMaxBytesMaxGas(-1,-1) return them by priority, then arrival",
        "concurrent submissions (v1)": "three goroutines submit A, B and A again (two orders) to the v1 mempool with a cache of one transaction while the application's answers are held back and then released one by one",
        "update lock": "the commit-time discipline the cache/pool consistency relies on (C05's quiescence entries): real BlockExecutor.Commit with the v0 mempool on a queued connection and one concurrent CheckTx with up to 3 preemptions",
        "reaping at length-prefix boundaries (v0)": "three transactions with lengths from {1,127,128,200,255,256,16383,16384}, ReapMaxBytesMaxGas with a symbolic byte limit in [-1, 2^17]: the encoded size of the result (tag + uvarint(len) + payload, computed by the harness) is within the limit and the prefix is maximal",
        "reaping": "pool of 2..3 admitted transactions, ReapMaxTxs(max) for max in [-1,3], ReapMaxBytesMaxGas with symbolic limits in [-1,16]: prefix of the order, within the limits, maximal",
    },
    "stubs": ["mempool ABCI connection = harness object answering in request order (sync like the local client, or queued like the socket client)", "sha256 concrete (transaction keys)"],
    "outside": ["concurrent submissions from several goroutines beyond the one racing CheckTx of the update-lock entries", "gossip", "more than 3 transactions / 4 operations", "TTL-based expiry in v1"],
    "timeout_quick": 600, "timeout_thorough": 3000,
}

PROPS["C11"] = {
    "files": ["evidence/pool.go", "evidence/verify.go", "types/evidence.go"],
    "groups": [
        {"dir": "evidence",
         "quick": ["VP_C11_DuplicateVote", "VP_C11_LightClientAttack", "VP_C11_ExpiryNeedsBothLimits", "VP_C11_Lifecycle_k3", "VP_C11_Lifecycle_k2_lca"],
         "thorough": ["VP_C11_Lifecycle_k4", "VP_C11_Lifecycle_k3_lca"]},
    ],
    "bounds": {
        "verification": "Pool.verify on duplicate-vote evidence built from really signed votes against a 2-validator chain: each bound field genuine or perturbed (height, round, type, same block, vote by another validator, vote signed by a stranger in the validator's name, evidence power / total (symbolic), evidence time), evidence height 5..9 under state height 10, MaxAgeNumBlocks 2..4, MaxAgeDuration 2/4 minutes: accepted exactly when genuine and not expired by both limits",
        "light-client-attack verification": "Pool.verify on really signed equivocation evidence in which both validators are culprits: genuine, or perturbed in one respect (a culprit listed twice with the other left out, either way; non-canonical order; truncated / extended list; a stranger listed; a symbolic wrong listed power; a symbolic wrong total power; timestamp shifted): accepted exactly when genuine",
        "lifecycle": "real Pool on the real MemDB with harness state/block stores; k = 3 (thorough 4) operations from {AddEvidence, CheckEvidence of a symbolic sub-list (optionally with a repeated item), Update with a symbolic subset committed, ReportConflictingVotes, restart (NewPool on the same DB)} over 2 duplicate-vote items (+ one genuine light-client-attack item, k = 2, thorough 3)",
    },
    "stubs": ["state store / block store = harness objects serving a concrete 2-validator chain", "ed25519 and sha256 concrete (real)"],
    "outside": ["VerifyLightClientAttack field perturbations (only a genuine equivocation item is used)", "reactor gossip", "more than 3 evidence items"],
    "timeout_quick": 420, "timeout_thorough": 3000,
}

PROPS["C19"] = {
    "files": ["libs/pubsub/pubsub.go", "libs/pubsub/subscription.go", "libs/pubsub/query/query.go", "state/txindex/kv/kv.go", "state/txindex/indexer_service.go", "state/indexer/block/kv/kv.go"],
    "groups": [
        {"dir": "libs/pubsub",
         "quick": ["VP_C19_Pubsub_n2_k2", "VP_C19_Pubsub_n2_k3", "VP_C19_Pubsub_n2_k3_shared", "VP_C19_Pubsub_n2_k4_shared"],
         "thorough": ["VP_C19_Pubsub_n3_k2", "VP_C19_Pubsub_n3_k3_shared"]},
        {"dir": "libs/pubsub/query",
         "quick": ["VP_C19_QueryTimeOperands"],
         "thorough": []},
        {"dir": "types",
         "quick": ["VP_C19_EventBusAttributes"],
         "thorough": []},
        {"dir": "state/indexer/block/kv",
         "quick": ["VP_C19_BlockSearch"],
         "thorough": []},
        {"dir": "state/txindex/kv",
         "quick": ["VP_C19_Search_n3", "VP_C19_IndexerService"],
         "thorough": ["VP_C19_Search_n4"]},
    ],
    "bounds": {
        "delivery (H1)": "real pubsub.Server (its loop goroutine scheduled by the engine), n = 2 (thorough 3) subscribers with own or shared queries, buffered with capacity 1, each fast (drains after every publication) or slow (never reads); k = 2..3 (thorough 4) operations from {publish, unsubscribe}; each query's verdict on each publication symbolic in {no match, match, error}; every map-iteration order of the subscription tables",
        "event bus": "real EventBus on a real pubsub server with the real query parser and matcher: one transaction result with an event of three attributes whose keys come from {empty, sender, recipient} and values from {bob, eve} (and an event with an empty type): the subscriber of transfer.recipient = 'bob' gets the transaction exactly when an attribute says so",
        "time operands of a subscriber's query": "real query.New + Query.Matches (reflect.Value modelled as a box around the operand): operand TIME 2013-05-03T14:45:05Z under each of =, <, <=, >, >=; the event value has a symbolic seconds digit and is written in Z, +00:00, +02:00 or -02:30 form; the verdict must be the comparison of instants",
        "block search (H2b)": "real block indexer (state/indexer/block/kv) on a MemDB: three blocks with a begin-block attribute in {A,B} and an end-block attribute from {2,9,10,100}; five query shapes combining a (possibly empty) range, an equality and a height bound, real parser; reference computed from the values",
        "indexer service (H3)": "real txindex.IndexerService on a real EventBus and kv.TxIndex: two blocks of 0..2 transactions published as the node does; indexing of a block's own events fails or not (arbitrary per block); every committed transaction must be retrievable under its height and position",
        "transaction search (H2)": "real kv.TxIndex on a MemDB: 3 (thorough 4) transactions at heights 1..2 carrying account.number drawn from {1,2,9,10,15,100} (different digit counts), indexed by the real Index; one query of 5 shapes (closed range, upper bound only, open range, equality, height AND upper bound) with bounds from {2,10,15,50}, parsed by the real query parser; the reference answer is computed from the values; concrete values, every combination enumerated by the engine",
    },
    "stubs": ["Query = harness object with symbolic verdicts (the query language is not executed) in the pubsub entries; real parser in the search entries", "goroutines interleaved at channel operations; map iteration order is a decision"],
    "outside": ["query-language matching against events (Query.Matches: reflect / regexp / float and time parsing over strings) and string, time and float operands in searches", "unbuffered subscriptions"],
    "timeout_quick": 300, "timeout_thorough": 3000,
}

PROPS["C18"] = {
    "files": ["store/store.go", "state/store.go"],
    "groups": [
        {"dir": "store",
         "quick": ["VP_C18_Save_n3", "VP_C18_Save_n3_crash", "VP_C18_Prune_n4", "VP_C18_Prune_n4_crash", "VP_C18_Prune_n4_parts", "VP_C18_PruneBatchBoundary"],
         "thorough": ["VP_C18_Prune_n6_crash"]},
        {"dir": "state",
         "quick": ["VP_C18_StatePrune_low", "VP_C18_StatePrune_low_crash", "VP_C18_StatePrune_checkpoint"],
         "thorough": ["VP_C18_StatePrune_checkpoint_crash"]},
        {"dir": "consensus",
         "quick": ["VP_C05_Pipeline_n4_prune", "VP_C05_Pipeline_n4_prune_crash1"],
         "thorough": []},
    ],
    "bounds": {
        "block store": "real BlockStore on the real MemDB behind a crash-injecting wrapper; chains of 3..4 (thorough 6) blocks with 2 transactions, single-part or multi-part (part size 64), really marshalled; SaveBlock of every block, then PruneBlocks to a symbolic retain height in [1, n]; one simulated crash before any single write / batch write; reopen (NewBlockStore on what is on disk) and audit of [base, height]: meta, block (hash equals id), every part, hash index, commit (seen commit at the tip)",
        "state store": "real state store (validator-set and consensus-parameter records as State.Save writes them) over 5 heights starting at 3 or at 99998 (across the validator-set checkpoint at 100000); the validator set and the parameters each change at one arbitrary height or never; up to two PruneStates with arbitrary retain heights, a crash before any write of the first (then audit and re-run); afterwards every height from the retain height up loads the set / parameters in force, pruned heights are gone",
        "pruning inside the commit pipeline": "C05's pipeline entries with an application that asks for pruning from height 2 on (4 blocks, one crash at any write or application call): after every restart each height between the block store's base and height has its block, its validator set and its parameters",
        "batch boundary (thorough)": "1003 blocks, PruneBlocks(1002) with a crash at each of its writes (the 1000-height intermediate flush)",
    },
    "stubs": ["database = real tm-db MemDB; batch writes atomic (goleveldb contract), single writes atomic"],
    "outside": ["ABCI responses pruning; more than one change of the set in the window", "two crashes in one scenario", "commit signature verification of stored commits (C07)"],
    "timeout_quick": 600, "timeout_thorough": 3000,
}

PROPS["C06"] = {
    "files": ["state/validation.go", "state/state.go", "types/block.go", "types/time/time.go"],
    "groups": [
        {"dir": "state",
         "quick": ["VP_C06_Validate", "VP_C06_ValidateInitial", "VP_C06_Transition", "VP_C06_ValidateLastCommit"],
         "thorough": []},
    ],
    "bounds": {
        "transition (H2)": "blocks 2..4 of a 3-validator chain built by State.MakeBlock with genuine commits and applied by the real updateState; the application answers block 2 with one of {no change, power change, removal, newcomer, removal+newcomer in either order}, an optional block-size parameter change and symbolic result codes; each block must validate against the state it extends; each transition is computed twice under arbitrary map orders and must give byte-identical states",
        "last commit (H1)": "block 2 whose last commit has, per validator, a genuine for-block precommit, a genuine nil precommit, an absent slot, or a for-block / nil slot with a signature that does not verify (5^3 combinations, concrete): accepted exactly when every present signature verifies and the for-block power alone exceeds two thirds",
        "validation (H1/H2)": "a 3-validator chain (powers 10,11,12) after block 1; block 2 built by the real State.MakeBlock from a commit whose three precommit timestamps are symbolic whole seconds in [-2,+5] around block 1's time; then exactly one header/content field replaced (version app/block, chain id, height, last block id, app / consensus / results / validators / next-validators hash, proposer, data hash, data content via the wire format, time shifted by a symbolic -3..+3 s, last commit reduced below two thirds) or none; accepted exactly when untouched and the weighted median (independent counting reference) is later than block 1's time; the first block at initial height 1..3: time = genesis time, empty last commit",
    },
    "stubs": ["ed25519 ideal for the symbolic-timestamp sign bytes (natively real)", "sha256 concrete except where timestamps are symbolic"],
    "outside": ["H3 (bit-identical state transition on two replicas) is not built", "size-budget arithmetic of MaxDataBytes", "evidence admissibility inside the block (C11)", "sub-second timestamps"],
    "timeout_quick": 420, "timeout_thorough": 1200,
}

PROPS["C09"] = {
    "files": ["light/verifier.go", "light/client.go", "light/detector.go", "types/validator_set.go"],
    "groups": [
        {"dir": "light",
         "quick": ["VP_C09_Verify_adjacent", "VP_C09_Verify_nonadjacent", "VP_C09_TrustingAdversarial_m4_n3", "VP_C09_TrustingAdversarial_m7_n3",
                   "VP_C09_Detector_w1", "VP_C09_Detector_w2", "VP_C09_Detector_w3", "VP_C09_Backwards", "VP_C09_ForwardFaultyPrimary", "VP_C09_LaggingWitness"],
         "thorough": ["VP_C09_TrustingAdversarial_m7_n4"]},
    ],
    "bounds": {
        "lagging witness (H3b)": "the real compareNewHeaderWithWitness against a witness without the target height whose latest blocks (heights 3, then 4 after the wait) carry times at arbitrary offsets -3..3 s from the primary header's time: conflict exactly when one of them is not before it",
        "forward with a faulty primary (H4)": "real Client.VerifyLightBlockAtHeight in skipping mode from trusted height 1 to height 3 across a complete validator-set replacement (pivot 2 needed); the primary's first three answers each genuine / forged (well-formed, signed by a made-up set) / future-dated / no response; two honest witnesses; what is returned and what enters the trusted store must be the genuine blocks",
        "verifier (H1)": "light.Verify on really signed headers of a 3-validator chain: trusted header at height 2, new header adjacent or two heights later, its time one of {before, equal, +1 s, +50 s} relative to the trusted one, `now` symbolic over 600 s, trusting period 100/300 s, clock drift 0/10 s, new validator set equal to / sharing 2 / sharing 1 member with the trusted set, one perturbation (chain id, validators hash, exactly-2/3 commit, 1/3 commit, height not later, two of three validators genuinely precommitting nil, two for the block plus one nil precommit) or none: accepted exactly when the rule of the statement holds",
        "adversarial trusting step": "trusted set of m = 4/7 equal validators, forged light block whose validator list is any n = 3 (thorough 4) entries from the trusted members or strangers (repetitions included), all genuinely signing: accepted only with more than 1/3 of *distinct* trusted members",
        "detector (H3)": "detectDivergence with w = 1..3 witnesses, each answering {identical block, a different block it cannot back, no response, not found, malformed}, under every goroutine schedule: confirmation only with an identical header; no goroutine left blocked",
        "backwards (H2)": "client trusting height 3 asked for height 1 (sequential backwards verification), primary answering any of its first 4 requests with a forged self-signed block: whatever is stored at height 1 is the header linked by hash to the trusted one",
    },
    "stubs": ["providers = harness objects", "trusted store = real light/store/db on MemDB", "ed25519/sha256 concrete (real); `now` symbolic"],
    "outside": ["bisection (verifySkipping) beyond single steps", "the HTTP provider", "evidence construction in handleConflictingHeaders beyond the cannot-back case", "symbolic header times (they are hashed and signed: concrete here)"],
    "timeout_quick": 420, "timeout_thorough": 2400,
}

PROPS["C20"] = {
    "files": ["light/rpc/client.go", "types/tx.go", "types/results.go", "state/store.go"],
    "groups": [
        {"dir": "rpc/core",
         "quick": ["VP_C20_CoreTx"],
         "thorough": []},
        {"dir": "light/rpc",
         "quick": ["VP_C20_Block", "VP_C20_BlockByHash", "VP_C20_BlockResults", "VP_C20_Tx", "VP_C20_CommitVals", "VP_C20_ABCIQuery"],
         "thorough": []},
    ],
    "bounds": {
        "full-node side": "the real rpc/core Tx handler over a real kv transaction index and a block of three transactions drawn from two values (duplicates possible): the served proof validates against the data hash, proves the returned bytes and sits at the returned index",
        "verifying client": "a concrete 3-block chain (2, 3, 0 transactions) whose header hashes are the genuine functions of the content (data hash by the real Txs.Hash, LastResultsHash by the real state.ABCIResponsesResultsHash of the previous block's DeliverTx results); light client = the C09 contract (returns the verified light block of a height); backend honest or falsifying one thing: block body under the verified header (via the wire format), a self-consistent other block, a DeliverTx result's code / data / gas used / gas wanted (symbolic wrong value), results withheld, repeated or reordered, the returned transaction bytes, a valid proof of another transaction, the index, the proof's own data; heights 1..2, both transactions; every proof the full-node side builds (Txs.Proof) validates against the data hash; proven application query: a two-pair store whose simple-Merkle root of ValueOp leaves is the app hash of every header, answered through the real ABCIQueryWithOptions / ProofRuntime.VerifyValue / ProofOperators.Verify / KeyPath URL encoding, honest or falsifying the value (symbolic wrong byte), presenting the genuine proof under another key (one symbolic ASCII letter, so case-variants are the solver's choice) or renaming key and operator key together",
    },
    "stubs": ["rpcclient.Client backend and LightClient = harness objects", "sha256 concrete"],
    "outside": ["ABCIQueryWithOptions / proof runtime (IAVL-style ops)", "ConsensusParams, BlockchainInfo, websocket subscriptions", "symbolic transaction bytes (concrete here)"],
    "timeout_quick": 300, "timeout_thorough": 600,
}

PROPS["C13"] = {
    "files": ["blockchain/v0/reactor.go", "blockchain/v0/pool.go", "types/block.go", "types/validator_set.go", "consensus/reactor.go", "consensus/state.go"],
    "groups": [
        {"dir": "blockchain/v0",
         "quick": ["VP_C13_Accept", "VP_C13_AddBlock"],
         "thorough": []},
        {"dir": "consensus",
         "quick": ["VP_C13_Handover_n0", "VP_C13_Handover_n1", "VP_C13_Handover_n2", "VP_C13_Handover_n2_setchange"],
         "thorough": []},
    ],
    "bounds": {
        "who may fill a request (H2, part)": "the real BlockPool.AddBlock / bpRequester.setBlock on a requester that is unassigned, assigned to p1, or already filled, with a block sent by p1, by another known peer or by a stranger: taken only as the assigned peer's first answer, every other sender reported",
        "hand-over (H3)": "0, 1 or 2 blocks stored (block store with seen commits, state store) through the real commit pipeline of a 1-validator chain (one entry with a second, heavier validator joining, so that the set that signed the last stored block differs from the set of the height consensus starts at); then a consensus State built from the start-up state and the real Reactor.SwitchToConsensus (service start stubbed): no panic, next height, last commit rebuilt with +2/3",
        "acceptance step (H1)": "the real BlockchainReactor.poolRoutine (its goroutines and tickers scheduled by the engine on virtual time) with two blocks already received from two peers; 4 validators of power 10, a different validator set from height 2 on; `first` canonical or another well-formed block; second.LastCommit for the canonical block or for `first`, each of its 4 slots one of {genuine, junk signature, absent, genuine signature under another validator's address, a genuine precommit for nil}; real block store (MemDB) and real ValidateBlock; after the step: what was saved, executed, which peers were dropped, and whether types.CommitToVoteSet on the stored seen commit (what consensus does when it takes over) succeeds",
    },
    "stubs": ["p2p.Switch methods (Peers, StopPeerForError, Reactor, NumPeers) and BlockExecutor.ApplyBlock replaced by recorders (engine-level function interception): counterexamples are replayed in the interpreter", "requester goroutines emulated (a redo clears the requester's block)", "ed25519/sha256 concrete (real)"],
    "outside": ["v1/v2 reactors", "pool bookkeeping (AddBlock / peer ranges / timeouts): H2 is not built", "reaching the tip over several blocks"],
    "timeout_quick": 300, "timeout_thorough": 600,
}

PROPS["C16"] = {
    "files": ["p2p/conn/secret_connection.go", "p2p/transport.go"],
    "groups": [
        {"dir": "p2p",
         "quick": ["VP_C16_Upgrade"],
         "thorough": []},
        {"dir": "p2p/conn",
         "quick": ["VP_C16_IncrNonce", "VP_C16_Frames_w1_d2", "VP_C16_Frames_w2_d2", "VP_C16_KeccakMatchesNative", "VP_C16_HandshakeHonest", "VP_C16_HandshakeMITM"],
         "thorough": ["VP_C16_Frames_w2_d3"]},
    ],
    "bounds": {
        "frame layer (H1)": "the real SecretConnection.Write and Read on two connection structs sharing a key, linked by an adversarial pipe: 1 write of arbitrary bytes of length in {1,1023,1024,1025,2049} or 2 writes of length in {1,1024,1025}, any one link write may fail; then 2 (thorough 3) deliveries of any stored frame (in order, out of order, replayed, skipped), untouched / one byte at offset {0,3,4,500,len-17,len-1} (two writes: {0,4,len-17}) xor an arbitrary non-zero mask / last byte cut; the reader is asked again after every failure; read buffers of {1,7,1024,4096} (two writes: {7,4096}) bytes; a wrapper around the sending AEAD records every nonce",
        "nonce counter": "incrNonce on an arbitrary 12-byte nonce (all 2^96 values, decided per byte pattern by the solver)",
        "transport upgrade (H3)": "the real MultiplexTransport.upgrade (secret connection, NodeInfo exchange, validation) against a remote party that proves key X: incoming or outgoing, dialed id X or Y, NodeInfo claiming id X or Y; admitted only as X and only if X was dialed",
        "handshake (H2)": "the real MakeSecretConnection run by the honest parties as goroutines over in-memory links: two honest parties (authenticate each other's key, 5 arbitrary bytes travel); and party B against a man in the middle who completes the ephemeral exchange with its own key and then (0) presents its own identity, (1) relays A's key and A's signature obtained on a parallel leg with A, (2) replays A's signature from another session, (3) A's key with its own signature, (4) A's key with 64 arbitrary signature bytes, (5) presents each of the 7 low-order points as ephemeral key, (6) reflects B's own messages: B may accept only in case 0",
    },
    "stubs": ["chacha20poly1305 Seal/Open idealised: Open succeeds only on exactly a ciphertext Seal produced under the same key, nonce and additional data (the AEAD's INT-CTXT assumption); natively the real cipher runs",
              "X25519 and ephemeral key generation computed by crypto/ecdh on concrete bytes (deterministic ephemeral keys); keccak-f of the merlin transcript by the engine's own implementation, checked against the native value by VP_C16_KeccakMatchesNative; HKDF/HMAC/SHA-256 and ed25519 real on concrete bytes; ed25519 verification of symbolic signature bytes by the ideal-signature oracle"],
    "outside": ["adversaries other than the seven scripted strategies; an adversary that adapts to a changed protocol", "frames longer than 3 per write, more than 2 writes, more than 3 deliveries"],
    "timeout_quick": 300, "timeout_thorough": 900,
}

PROPS["C17"] = {
    "files": ["p2p/conn/connection.go", "consensus/state.go", "consensus/msgs.go", "blockchain/v0/pool.go"],
    "groups": [
        {"dir": "p2p/conn",
         "quick": ["VP_C17_Deliver_2x9", "VP_C17_HostilePackets_2"],
         "thorough": ["VP_C17_Deliver_3x9", "VP_C17_HostilePackets_3"]},
        {"dir": "consensus",
         "quick": ["VP_C17_CoreSurvivesVote", "VP_C17_CoreSurvivesProposal", "VP_C17_CoreSurvivesBlockPart", "VP_C17_ReactorStateMessages"],
         "thorough": []},
        {"dir": "statesync",
         "quick": ["VP_C17_StateSyncHostileMessage"],
         "thorough": []},
        {"dir": "blockchain/v0",
         "quick": ["VP_C13_AddBlock"],
         "thorough": []},
    ],
    "bounds": {
        "block sync pool (H2, partly)": "real BlockPool.AddBlock / bpRequester.setBlock with the requester of a height unassigned, assigned to p1, or already filled, and a block sent by the assigned peer, another known peer or a stranger: only the asked peer's first answer is taken; every other sender is reported and nobody else is",
        "delivery (H1)": "real MConnection pair over an in-memory link, packet payload size 4: the real send side (Channel queues, sendPacketMsg channel selection by priority/recently-sent ratio, nextPacketMsg, protoio framing, flush) called step by step, the real receive routine running as a goroutine under the engine scheduler; 2 channels of different priority; 2 (thorough 3) messages of arbitrary bytes, each of any length 0..9 on either channel, with 0-2 packets sent between two sends",
        "hostile packets (H1b)": "2 (thorough 3) packets written to the real receive routine: PacketMsg with arbitrary int32 channel id, arbitrary EOF flag, arbitrary data of length {0,4,7} against a message capacity of 6; ping; pong; empty Packet",
        "state sync reactor (H2, partly)": "an invalid ChunkResponse / SnapshotsResponse through the real statesync Reactor.ReceiveEnvelope concurrently with Reactor.Sync (which takes the reactor's lock for writing), the switch's StopPeerForError calling back into RemovePeer; up to 3 pre-emptions at lock operations; RWMutex modelled with Go's writer precedence; both activities must finish",
        "consensus reactor, state channel (H2, partly)": "one NewRoundStep / HasVote / VoteSetMaj23 / ProposalPOL message with arbitrary height 0..3, round -1..2, step 0..9, last-commit round -2..2, index -1..5 through the real Reactor.ReceiveEnvelope; afterwards the consensus-state lock and the peer-state lock can be taken (no wedge), whether the call returned or panicked",
        "consensus core (H3)": "through ValidateBasic and the real handleMsg of a real consensus.State at the initial height: one signed vote message of arbitrary height 0..3, round 0..2, type, validator; one proposal signed by the round's proposer with height H-1..H+1, round 0..2, POL round -1..3, part-set total in {1, max, max+1, 65536}; two block-part messages for an accepted 2-part proposal, each a part of the proposed or of another block with index / proof index / proof total / bytes tampered, any round, height H or H+1",
    },
    "stubs": ["in-memory net.Conn", "nop logger", "timers on the engine's virtual clock (fire only when every goroutine is blocked)"],
    "outside": ["reactor Receive methods for hostile well-formed messages (H2) other than the consensus vote path: not built", "switch/peer lifecycle", "flow-rate limiting delays", "messages longer than 9 bytes / payload sizes other than 4"],
    "timeout_quick": 400, "timeout_thorough": 1800,
}

PROPS["C05"] = {
    "files": ["consensus/replay.go", "consensus/state.go", "state/execution.go", "mempool/v0/clist_mempool.go", "store/store.go", "state/store.go"],
    "groups": [
        {"dir": "state",
         "quick": ["VP_C05_Quiesce_0", "VP_C05_Quiesce_1", "VP_C05_Quiesce_2", "VP_C05_Quiesce_1_concurrent", "VP_C05_Quiesce_v1_concurrent"],
         "thorough": ["VP_C05_Quiesce_2_concurrent"]},
        {"dir": "consensus",
         "quick": ["VP_C05_Pipeline_n3", "VP_C05_Pipeline_n2_crash1", "VP_C05_Pipeline_n3_crash1", "VP_C05_Pipeline_n4_prune", "VP_C05_Pipeline_n4_prune_crash1"],
         "thorough": ["VP_C05_Pipeline_n2_crash2", "VP_C05_Pipeline_n3_crash2"]},
    ],
    "bounds": {
        "commit pipeline and recovery (H1/H2)": "1-validator chain of 2-3 blocks (0-2 transactions each; in the n3 crash entries the application changes the validator's power and the block size limit at height 1) committed by the real State.finalizeCommit (after every boot the state must carry the validator and parameter updates the application returned for block 1, whether the block was applied normally or re-applied by the handshake; real block store, state store, BlockExecutor, local ABCI client) on a recording application that keeps height and hash across crashes; 1 (thorough 2) crashes at any database write (single write or atomic batch) or application call, also during recovery; every restart runs the real state load + Handshaker.Handshake + NewState",
        "mempool quiescence (H3)": "real BlockExecutor.Commit with the real v0 mempool on an asynchronous mempool connection (answers arrive only when flushed or delivered): 0-2 transactions of arbitrary bytes submitted before the commit, each answered or still in flight; the block contains the first one or not; one further CheckTx running concurrently with up to 3 preemptions at synchronisation points; the same race against the v1 (priority) mempool with an empty block",
    },
    "stubs": ["pubsub publishing stubbed", "nil WAL (the #ENDHEIGHT marker and WAL catch-up are C15's subject)", "crash = abandon execution at the crash point, keep database contents and the application's committed height/hash"],
    "outside": ["WAL catch-up replay after the handshake", "applications that are ahead of the block store by more than the in-flight block", "socket/grpc ABCI clients (modelled by the queued connection)", "chains longer than 3 blocks, more than 2 crashes"],
    "timeout_quick": 400, "timeout_thorough": 1800,
}

_STEP_STUBS = ["vote sets of the height summarised by a symbolic table (majority / +2/3-any / all per round and type) constrained by the VoteSet contract that C01's vote-set check proves on the real types.VoteSet; AddVote answers are arbitrary within that contract",
               "global facts assumed on the table (consequences of <1/3 faulty power: one precommit-majority block per height, no polka for another block in or after a round with a precommit majority, a majority block was validated by a correct validator)",
               "BlockExecutor.ValidateBlock/CreateProposalBlock/ApplyBlock, pubsub publishing, prevote-delay metrics and RoundStepType.String replaced by summaries (engine-level interception: counterexamples are replayed in the interpreter)",
               "signer = recording FilePV-like key; proposal signatures ideal"]
_STEP_OUT = ["the induction is over one height; the next height starts from NewState-like values (base case checked)", "rounds beyond R+1", "more than three candidate blocks; multi-part blocks", "a node that is not a validator", "reactor gossip"]

PROPS["C02"] = {
    "files": ["consensus/state.go", "consensus/types/height_vote_set.go", "types/vote_set.go"],
    "groups": [
        {"dir": "types",
         "quick": ["VP_C01_VoteSet_n2_k2_pv", "VP_C01_VoteSet_n2_k3", "VP_C01_VoteSet_n2_k5_conflict"],
         "thorough": []},
        {"dir": "privval",
         "quick": ["VP_C04_Signer_k2"],
         "thorough": ["VP_C04_Signer_k3"]},
        {"dir": "consensus",
         "quick": ["VP_C02_Base", "VP_C02_Step_R1_vote_lockfocus", "VP_C02_Step_R1_vote_polproposal", "VP_C02_Step_R2_vote_lockfocus_top", "VP_C02_Step_R1_timeout_lockfocus", "VP_C02_Step_R2_timeout_lockedvsproposal", "VP_C02_Step_R1_part_lockfocus", "VP_C02_Step_R1_txs"],
         "thorough": ["VP_C02_Step_R1_vote_locked", "VP_C02_Step_R1_vote_unlocked", "VP_C02_Step_R1_timeout", "VP_C02_Step_R1_proposal", "VP_C02_Step_R1_part", "VP_C02_Step_R2_vote_lockfocus"]},
    ],
    "bounds": {
        "inductive step of the real consensus.State": "one arbitrary event (vote of any type/round/block; timeout; proposal; block part; txs-available) applied by the real handleMsg/handleTimeout/handleTxsAvailable to a state whose Round (0..R), Step (all 8), LockedRound, ValidRound, CommitRound, TriggeredTimeoutPrecommit, vote-set summary for rounds 0..R+1 and signing ghost are symbolic and constrained only by the invariant INV; INV is asserted again afterwards and on the NewState state (base), so every reachable state of a height is covered for rounds <= R; R=1 (thorough: also R=2 for votes); obligations L1-L5 asserted inside the signer at every signature",
        "signer": "the last line of defence named by the property's anchors, FilePV's height/round/step regression check: C04's signer entry (k arbitrary requests with restarts) is run here too",
        "vote-set contract": "the quorum facts the step harness assumes about TwoThirdsMajority / HasTwoThirdsAny are those C01's vote-set entries decide on the real types.VoteSet with symbolic powers (two of them are run here too)",
        "slices": "quick entries cover the pre-state slice 'locked on A, valid block A, proposal block none/A, no proposal message, votes of the current height for nil/A/B' for votes (R=1, and R=2 with the node in round 2; plus the slice 'not locked, complete proposal block A with a proposal message of any POL round'), timeouts and parts, the slice 'locked on A and holding a complete proposal for another block B with a proposal message of any POL round' for timeouts at R=2, and every shape for txs-available; thorough entries cover every shape for timeouts, proposals and parts, both vote slices at R=1 ('locked on A, valid A/B, proposal block none/A/B' and 'not locked, any valid block, proposal block none/A/B/C'; together every shape, for votes of the current height for nil/A/B), and the lock-focus slice at R=2 for every round",
    },
    "stubs": _STEP_STUBS,
    "outside": _STEP_OUT + ["votes of the previous / next height and votes for our own proposal block C in the vote slices (covered only by the unsliced entry VP_C02_Step_R1_vote, > 250k paths, not registered)"],
    "timeout_quick": 900, "timeout_thorough": 7200,
}

PROPS["C03"] = {
    "files": ["consensus/state.go", "config/config.go", "types/validator_set.go", "consensus/types/height_vote_set.go"],
    "groups": [
        {"dir": "consensus",
         "quick": ["VP_C03_TimeoutsGrow", "VP_C03_RotationFair", "VP_C03_CommitWaitsForBlock", "VP_C02_Step_R2_vote_lockfocus_top", "VP_C05_Pipeline_n3"],
         "thorough": ["VP_C02_Step_R1_vote_locked", "VP_C02_Step_R1_timeout", "VP_C02_Step_R1_proposal"]},
        {"dir": "consensus/types",
         "quick": ["VP_C03_ClaimedMajorityAdmitsConflictingVote"],
         "thorough": []},
    ],
    "bounds": {
        "T5b a lagging node can complete a decision that rests on an equivocator's vote": "real HeightVoteSet, 4 validators, node in round 0..3, a prevote or precommit round r <= the node's round: the node saw the equivocator's other vote (nil or block A) first; the conflicting vote for B is refused, a peer's +2/3 claim for B in round r is taken, the vote is then admitted and two more votes complete the majority (concrete, 40 combinations)",
        "T7 the next height can be proposed": "the commit pipeline harness of C05 with the decision of round 0 completing while the node is in round 0 or 1: the next height starts with the +2/3 precommits of the deciding round as its last commit",
        "T1 timeouts grow": "config.ConsensusConfig.Propose/Prevote/Precommit for every round in [0, 65536), default configuration and configurations with arbitrary deltas in [1 ms, 10 s]",
        "T2 rotation": "3 validators with powers in 1..3 each, starting 0..3 rounds into the rotation: over (total power) rounds each proposes exactly (power) times",
        "T6 precommit-wait flag": "invariant of the step harness: TriggeredTimeoutPrecommit is set only for the round whose precommit-wait timeout was scheduled (otherwise the node would wait in that round's precommit step for ever)",
        "T3/T4 round skipping, re-proposal, unlock": "the step harness of C02 (lock-focus slice, R=2, node in round 2): T4a asserted at every SignProposal, T4b (a later polka for something else releases the lock) after every vote",
        "T5 commit waits for the block": "real consensus.State with real vote sets, 4 validators: decision seen without the block, then one of {nothing, round-1 prevotes for the block, round-1 prevotes for nil, round-1 precommits for nil, a signed proposal for another block in the node's round}, then all parts (round 0 and 1), all votes again and all scheduled timeouts, twice",
    },
    "stubs": _STEP_STUBS,
    "outside": _STEP_OUT + ["end-to-end termination (an unbounded multi-node schedule suffix) is not decided: only the anchored mechanisms are, as bounded lemmas"],
    "timeout_quick": 600, "timeout_thorough": 3600,
}

PROPS["C14"] = {
    "files": ["statesync/syncer.go", "statesync/snapshots.go", "statesync/chunks.go", "statesync/stateprovider.go"],
    "groups": [
        {"dir": "statesync",
         "quick": ["VP_C14_Sync_b0", "VP_C14_Sync_b1", "VP_C14_Sync_b2", "VP_C14_Sync_b3", "VP_C14_StateProvider", "VP_C14_PoolRejectedSender_k3"],
         "thorough": ["VP_C14_Sync_b4", "VP_C14_PoolRejectedSender_k4"]},
    ],
    "bounds": {
        "rejected senders (H1b)": "real snapshotPool, two peers, two snapshots, k = 3 (thorough 4) operations from {advertise, RejectPeer, RemovePeer (disconnect)}: a peer once rejected stays rejected, is never offered as a source and its later advertisements are not taken, reconnects included",
        "state provider (H2)": "the real lightClientStateProvider (AppHash, State) on a real light.Client over a genuinely signed 7-block chain whose validator set changes at an arbitrary height 2..7, snapshot height 2..4; consensus parameters served by a stubbed RPC client and checked by the real light/rpc client: the state's three validator sets, app hash and results hash are those of the verified headers; then the real state store is bootstrapped from that state (as node.startStateSync does) and must serve exactly the verified validator sets of H, H+1, H+2 and the verified parameters",
        "restore (H1)": "the real syncer.SyncAny with its fetcher goroutine, snapshot pool and chunk queue (chunk files on the modelled file system, timers on the virtual clock) against a recording application and three peers; advertised sets: {S1 from two peers + S2 from one}, {a snapshot for a height the light client cannot verify + S1}, {a higher snapshot + S1 + S2}; up to 3 (thorough 4) adversarial actions per run drawn from: OfferSnapshot verdict reject / reject-format / reject-sender / abort; ApplySnapshotChunk verdict retry / retry-snapshot / reject-snapshot / abort / refetch+retry / reject-sender+refetch+retry; the restored application reporting a wrong hash, height or version; a peer staying silent, an outsider's chunk arriving first, a wrong-index chunk, a duplicate with other bytes; the peer asked is an arbitrary one of the snapshot's peers",
    },
    "stubs": ["StateProvider (the light client, C09's subject) replaced by a table of verified heights", "p2p peers and ABCI connections are harness objects", "math/rand.Intn = arbitrary choice"],
    "outside": ["the reactor's message validation and snapshot serving side", "more than 2 chunks per snapshot, more than 4 adversarial actions", "several fetchers racing (chunk_fetchers = 1)"],
    "timeout_quick": 300, "timeout_thorough": 1800,
}
