"""Per-property configuration of the solver-based checks: harness entry points per tier, stated bounds,
stubs and what lies outside the claim.  The harness source is under /verif/harness (overlaid into the repo)."""

PROPS = {}

PROPS["C10"] = {
    "files": ["types/part_set.go", "crypto/merkle/proof.go", "crypto/merkle/tree.go", "crypto/merkle/hash.go"],
    "groups": [
        {"dir": "crypto/merkle",
         "quick": ["VP_C10_Sound_n1", "VP_C10_Sound_n2", "VP_C10_Sound_n3", "VP_C10_Sound_n4", "VP_C10_Sound_n5",
                   "VP_C10_Genuine_n1", "VP_C10_Genuine_n2", "VP_C10_Genuine_n3", "VP_C10_Genuine_n4"],
         "thorough": ["VP_C10_Sound_n6", "VP_C10_Sound_n7", "VP_C10_Sound_n8", "VP_C10_Genuine_n5",
                      "VP_C10_SoundSymTotal_n2", "VP_C10_SoundSymTotal_n3", "VP_C10_Sound2_n3"]},
        {"dir": "types",
         "quick": ["VP_C10_AddPartSym_L2_s1", "VP_C10_AddPartSym_L3_s2", "VP_C10_AddPartTamper_L2_s1", "VP_C10_AddPartTamper_L3_s1",
                   "VP_C10_AddPartTamper_L4_s2", "VP_C10_Complete_L3_s1", "VP_C10_Complete_L5_s2", "VP_C10_Complete_L6_s4"],
         "thorough": ["VP_C10_AddPartSym_L3_s1", "VP_C10_AddPartSym_L4_s1", "VP_C10_AddPartTamper_L5_s2", "VP_C10_AddPartTamper_L6_s4",
                      "VP_C10_Complete_L6_s1"]},
    ],
    "bounds": {
        "merkle": "trees of n = 1..5 leaves (thorough: ..8) of 1-byte symbolic items (one 2-byte configuration); proof fully symbolic: Index int64, leaf hash 32 bytes, 0..4 aunts of 32 symbolic bytes, leaf of 0..2 symbolic bytes; Total = n (two thorough configurations with symbolic Total)",
        "part sets": "data of L = 2..6 symbolic bytes, part size 1/2/4; up to 3 adversarial AddPart calls, each a fully symbolic part (index, bytes, proof with <=2 aunts) or a genuine part with one field replaced / transplanted; genuine parts in every rotation with duplicates",
        "unwind": "64 symbolic iterations per branch instruction per frame; none reached",
    },
    "stubs": ["sha256 = ideal collision-free hash (domain-separation prefix bytes are part of the hashed input)"],
    "outside": ["more than 8 leaves / 6 data bytes / parts of 65536 bytes (the code is size-generic)", "SHA-256 collisions",
                "proof protobuf decoding (ProofFromProto only copies fields and calls ValidateBasic)"],
    "timeout_quick": 420, "timeout_thorough": 2400,
}

PROPS["C07"] = {
    "files": ["types/validator_set.go", "types/block.go", "types/vote.go", "types/canonical.go", "libs/math/fraction.go"],
    "groups": [
        {"dir": "types",
         "quick": ["VP_C07_Verify_n1", "VP_C07_Verify_n2", "VP_C07_Verify_n2_extra", "VP_C07_Trusting_n1_m1", "VP_C07_Trusting_n2_m1",
                   "VP_C07_TrustLevelGuards", "VP_C07_SignBytesInjective_small"],
         "thorough": ["VP_C07_Verify_n3", "VP_C07_Trusting_n2_m2", "VP_C07_Trusting_n3_m2", "VP_C07_SignBytesInjective_full"]},
    ],
    "bounds": {
        "validators": "n = 1..2 (thorough 3) validators with fully symbolic 64-bit powers (1 <= p, sum <= MaxTotalVotingPower, so totals near 2^60 are inside); real ed25519 keys",
        "commit slots": "per slot: symbolic flag in {absent, commit, nil}; signature = genuine over the exact canonical precommit | genuine by another validator's key | junk | (one designated slot) genuine over a message differing in exactly one bound field: chain id, height, round, block hash, part-set header, vote type, timestamp, nil-vs-block",
        "arguments": "height / block id argument equal to or different from the commit's; commit one slot longer than the set",
        "trusting": "trusted set of m = 1..2 members, each one of the signers or a stranger, symbolic powers; slot addresses pointing at any member or a stranger (same signer in two slots included); trust levels 1/3, 2/3, 1/1, 1/2, 0/1; symbolic numerator <= 2^62 and denominator <= 8 for the guards",
        "sign bytes": "two votes with symbolic type, height, round, block hash bytes, part-set total, timestamp seconds < 2^35, chain id from 3 strings: equal sign bytes imply equal bound fields",
    },
    "stubs": ["ed25519 = ideal signature oracle keyed on the real sign bytes (natively: real ed25519)", "sha256 concrete (addresses)"],
    "outside": ["n > 3 validators / m > 2 trusted members", "arbitrary symbolic trust fractions beyond the guard harness (symbolic x symbolic multiply)", "batch verification (absent in this version)"],
    "engine_flags": ["-qtimeout", "2500"],
    "timeout_quick": 420, "timeout_thorough": 3000,
}
