#!/bin/bash
# usage: run_all.sh quick|thorough [ids...]   runs the registered checks one after the other, logs to out/run_all_<tier>.log
tier=${1:-quick}; shift
ids=${@:-C01 C02 C03 C04 C05 C06 C07 C08 C09 C10 C11 C12 C13 C14 C15 C16 C17 C18 C19 C20}
cd "$(dirname "$0")/.."
mkdir -p out
log=out/run_all_$tier.log; : > $log
for p in $ids; do
  s=$(date +%s)
  python3 checks/check.py $p --tier $tier > out/run_$p.$tier.txt 2>&1; rc=$?
  e=$(( $(date +%s) - s ))
  echo "$p rc=$rc ${e}s $(grep -E '^(OK|VIOLATION)' out/run_$p.$tier.txt | head -1) inconclusive=$(grep -c '^INCONCLUSIVE' out/run_$p.$tier.txt) known=$(grep -c '^KNOWN-FINDING' out/run_$p.$tier.txt)" >> $log
done
echo DONE >> $log
