//go:build verif

package store

import (
	"bytes"
	"time"

	dbm "github.com/tendermint/tm-db"

	"github.com/tendermint/tendermint/crypto/tmhash"
	vp "github.com/tendermint/tendermint/internal/verifvp"
	tmversion "github.com/tendermint/tendermint/proto/tendermint/version"
	"github.com/tendermint/tendermint/types"
	"github.com/tendermint/tendermint/version"
)

// vpCrashDB wraps the real MemDB: every write (single Set/Delete, or a whole batch: goleveldb applies
// a batch atomically) is preceded by a crash point; a crash aborts before the write is applied.
type vpCrashDB struct{ dbm.DB }

func (d vpCrashDB) Set(k, v []byte) error     { vp.CrashNow("db.Set"); return d.DB.Set(k, v) }
func (d vpCrashDB) SetSync(k, v []byte) error { vp.CrashNow("db.SetSync"); return d.DB.SetSync(k, v) }
func (d vpCrashDB) Delete(k []byte) error     { vp.CrashNow("db.Delete"); return d.DB.Delete(k) }
func (d vpCrashDB) DeleteSync(k []byte) error { vp.CrashNow("db.DeleteSync"); return d.DB.DeleteSync(k) }
func (d vpCrashDB) NewBatch() dbm.Batch       { return &vpCrashBatch{Batch: d.DB.NewBatch()} }

type vpCrashBatch struct{ dbm.Batch }

func (b *vpCrashBatch) Write() error     { vp.CrashNow("batch.Write"); return b.Batch.Write() }
func (b *vpCrashBatch) WriteSync() error { vp.CrashNow("batch.WriteSync"); return b.Batch.WriteSync() }

const vpChain = "vp-chain"

func vpMakeChain(n int, partSize uint32) ([]*types.Block, []*types.PartSet, []*types.Commit) {
	blocks := make([]*types.Block, n+1)
	parts := make([]*types.PartSet, n+1)
	seen := make([]*types.Commit, n+1)
	lastCommit := types.NewCommit(0, 0, types.BlockID{}, nil)
	var lastID types.BlockID
	for h := 1; h <= n; h++ {
		b := types.MakeBlock(int64(h), []types.Tx{{byte(h)}, {byte(h), 0xFF}}, lastCommit, nil)
		b.Header.Version = tmversion.Consensus{Block: version.BlockProtocol}
		b.Header.ChainID = vpChain
		b.Header.Time = time.Date(2022, 1, 1, 0, 0, h, 0, time.UTC)
		b.Header.LastBlockID = lastID
		b.Header.ValidatorsHash = tmhash.Sum([]byte("vals"))
		b.Header.NextValidatorsHash = tmhash.Sum([]byte("vals"))
		b.Header.ConsensusHash = tmhash.Sum([]byte("params"))
		b.Header.ProposerAddress = tmhash.SumTruncated([]byte("proposer"))
		ps := b.MakePartSet(partSize)
		id := types.BlockID{Hash: b.Hash(), PartSetHeader: ps.Header()}
		sig := types.CommitSig{BlockIDFlag: types.BlockIDFlagCommit, ValidatorAddress: b.Header.ProposerAddress, Timestamp: b.Header.Time, Signature: []byte("sig")}
		c := types.NewCommit(int64(h), 0, id, []types.CommitSig{sig})
		blocks[h], parts[h], seen[h] = b, ps, c
		lastCommit, lastID = c, id
	}
	return blocks, parts, seen
}

// vpAudit: every height in [base, height] is completely and consistently loadable.
func vpAudit(bs *BlockStore, blocks []*types.Block) {
	base, height := bs.Base(), bs.Height()
	vp.Assert(base <= height && (base == 0) == (height == 0), "C18.store.range-descriptor-well-formed")
	for h := base; h <= height && h > 0; h++ {
		meta := bs.LoadBlockMeta(h)
		vp.Assert(meta != nil, "C18.store.meta-present-between-base-and-height")
		if meta == nil {
			return
		}
		blk := bs.LoadBlock(h)
		vp.Assert(blk != nil && bytes.Equal(blk.Hash(), meta.BlockID.Hash) && bytes.Equal(blk.Hash(), blocks[h].Hash()), "C18.store.block-loads-and-hashes-to-its-id")
		for p := 0; p < int(meta.BlockID.PartSetHeader.Total); p++ {
			vp.Assert(bs.LoadBlockPart(h, p) != nil, "C18.store.all-parts-present")
		}
		byHash := bs.LoadBlockByHash(meta.BlockID.Hash)
		vp.Assert(byHash != nil && byHash.Height == h, "C18.store.hash-index-entry-present")
		if h < height {
			c := bs.LoadBlockCommit(h)
			vp.Assert(c != nil && c.Height == h && c.BlockID.Equals(meta.BlockID), "C18.store.commit-for-the-block-present")
		} else {
			c := bs.LoadSeenCommit(h)
			vp.Assert(c != nil && c.Height == h && c.BlockID.Equals(meta.BlockID), "C18.store.seen-commit-at-the-tip-present")
		}
	}
}

// C18: save n blocks, prune to a symbolic retain height, with one crash at any write; reopen; audit.
func vpC18(n int, partSize uint32, crashes int, prune bool) {
	mem := dbm.NewMemDB()
	db := vpCrashDB{mem}
	blocks, parts, seen := vpMakeChain(n, partSize)
	bs := NewBlockStore(db)
	vp.CrashPoints(crashes)
	retain := int64(0)
	completed := false
	func() {
		defer func() {
			if rec := recover(); rec != nil && !vp.Crashed() {
				panic(rec)
			}
		}()
		for h := 1; h <= n; h++ {
			bs.SaveBlock(blocks[h], parts[h], seen[h])
		}
		if prune {
			retain = int64(vp.Range("retain", 1, n))
			pruned, err := bs.PruneBlocks(retain)
			if err != nil {
				panic(err)
			}
			vp.Assert(pruned == uint64(retain-1), "C18.prune.removes-exactly-the-heights-below-the-retain-height")
		}
		completed = true
	}()
	vp.CrashPoints(0)
	if vp.Crashed() {
		vp.Reach("crashed?")
		vp.Reboot()
	}
	// reopen on what is on disk
	bs2 := NewBlockStore(db)
	vpAudit(bs2, blocks)
	vp.Reach("audited")
	if completed {
		vp.Assert(bs2.Height() == int64(n), "C18.store.all-saved-blocks-present")
		if prune {
			vp.Assert(bs2.Base() == retain, "C18.prune.base-is-the-retain-height")
			for h := int64(1); h < retain; h++ {
				vp.Assert(bs2.LoadBlockMeta(h) == nil && bs2.LoadBlockPart(h, 0) == nil && bs2.LoadBlockCommit(h) == nil, "C18.prune.heights-below-the-retain-height-are-gone")
			}
		}
	}
}

func VP_C18_Save_n3()         { vpC18(3, 65536, 0, false) }
func VP_C18_Save_n3_crash()   { vpC18(3, 65536, 1, false) }
func VP_C18_Prune_n4()        { vpC18(4, 65536, 0, true) }
func VP_C18_Prune_n4_crash()  { vpC18(4, 65536, 1, true) }
func VP_C18_Prune_n4_parts()  { vpC18(4, 64, 1, true) }
func VP_C18_Prune_n6_crash()  { vpC18(6, 65536, 1, true) }

// The batch boundary of PruneBlocks (a flush every 1000 pruned heights): a crash between the
// intermediate flush and the final one.
func VP_C18_PruneBatchBoundary() {
	vp.Opt("steps", 2000000000)
	const n = 1003
	mem := dbm.NewMemDB()
	db := vpCrashDB{mem}
	blocks, parts, seen := vpMakeChain(n, 65536)
	bs := NewBlockStore(db)
	for h := 1; h <= n; h++ {
		bs.SaveBlock(blocks[h], parts[h], seen[h])
	}
	vp.CrashPoints(1)
	func() {
		defer func() {
			if rec := recover(); rec != nil && !vp.Crashed() {
				panic(rec)
			}
		}()
		if _, err := bs.PruneBlocks(n - 1); err != nil {
			panic(err)
		}
	}()
	vp.CrashPoints(0)
	if vp.Crashed() {
		vp.Reach("crashed?")
		vp.Reboot()
	}
	bs2 := NewBlockStore(db)
	vpAudit(bs2, blocks)
	vp.Reach("audited")
}
