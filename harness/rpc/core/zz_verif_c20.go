//go:build verif

package core

import (
	"bytes"

	dbm "github.com/tendermint/tm-db"

	abci "github.com/tendermint/tendermint/abci/types"
	vp "github.com/tendermint/tendermint/internal/verifvp"
	"github.com/tendermint/tendermint/libs/log"
	sm "github.com/tendermint/tendermint/state"
	"github.com/tendermint/tendermint/state/txindex/kv"
	"github.com/tendermint/tendermint/types"
)

type vpBlocks struct {
	sm.BlockStore
	blocks map[int64]*types.Block
}

func (b *vpBlocks) LoadBlock(h int64) *types.Block { return b.blocks[h] }
func (b *vpBlocks) Height() int64                   { return int64(len(b.blocks)) }
func (b *vpBlocks) Base() int64                     { return 1 }

// C20 (full-node side): what the real /tx handler serves for a committed transaction is consistent:
// the proof is valid for the block's data hash, proves exactly the returned bytes, and sits at the
// returned index: this is what the verifying client checks before it relays the answer.  The block
// holds three transactions drawn from two values, so the same transaction may occur twice.
func VP_C20_CoreTx() {
	vals := []types.Tx{{0x6b, 0x3d, 0x76}, {0x61, 0x3d, 0x62}}
	var txs types.Txs
	for i := 0; i < 3; i++ {
		txs = append(txs, vals[vp.Choice("tx", 2)])
	}
	block := &types.Block{Header: types.Header{Height: 7}, Data: types.Data{Txs: txs}}
	block.DataHash = block.Data.Hash()
	idx := kv.NewTxIndex(dbm.NewMemDB())
	for i, tx := range txs {
		if err := idx.Index(&abci.TxResult{Height: 7, Index: uint32(i), Tx: tx, Result: abci.ResponseDeliverTx{Code: 0}}); err != nil {
			panic(err)
		}
	}
	env = &Environment{TxIndexer: idx, BlockStore: &vpBlocks{blocks: map[int64]*types.Block{7: block}}, Logger: log.NewNopLogger()}
	want := txs[vp.Choice("asked-for", 3)]
	res, err := Tx(nil, want.Hash(), true)
	vp.Assert(err == nil, "C20.node.committed-transaction-is-found")
	vp.Assert(bytes.Equal(res.Tx, want) && res.Height == 7, "C20.node.answer-is-the-transaction-asked-for")
	vp.Assert(res.Proof.Validate(block.DataHash) == nil, "C20.node.served-proof-is-valid-for-the-block's-data-hash")
	vp.Assert(bytes.Equal(res.Proof.Data, res.Tx), "C20.node.served-proof-proves-the-returned-bytes")
	vp.Assert(int64(res.Index) == res.Proof.Proof.Index, "C20.node.served-proof-sits-at-the-returned-index")
	vp.Assert(int(res.Index) < len(txs) && bytes.Equal(txs[res.Index], want), "C20.node.returned-index-holds-that-transaction")
	vp.Reach("served")
}
