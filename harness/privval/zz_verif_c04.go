//go:build verif

package privval

import (
	"bytes"
	"time"

	"github.com/tendermint/tendermint/crypto/ed25519"
	vp "github.com/tendermint/tendermint/internal/verifvp"
	tmproto "github.com/tendermint/tendermint/proto/tendermint/types"
	"github.com/tendermint/tendermint/types"
)

const vpChain = "vp-chain"

type vpRelease struct {
	h     int64
	r     int32
	step  int8
	block int // 0 = A, 1 = B, 2 = nil
	sig   []byte
	ts    time.Time
}

func vpBlockID(tag int) types.BlockID {
	if tag == 2 {
		return types.BlockID{}
	}
	h := make([]byte, 32)
	h[0] = byte(0xA0 + tag)
	ph := make([]byte, 32)
	ph[0] = byte(0xB0 + tag)
	return types.BlockID{Hash: h, PartSetHeader: types.PartSetHeader{Total: 1, Hash: ph}}
}

func vpBlockIDProto(tag int) tmproto.BlockID {
	b := vpBlockID(tag)
	return b.ToProto()
}

func vpCheckRelease(rels []vpRelease, n vpRelease) {
	for _, o := range rels {
		if o.h == n.h && o.r == n.r && o.step == n.step {
			vp.Reach("same-hrs-released-twice")
			vp.Assert(o.block == n.block, "C04.signer.same-hrs-same-block")
			vp.Assert(bytes.Equal(o.sig, n.sig), "C04.signer.same-hrs-earlier-signature-reused")
			vp.Assert(o.ts.Equal(n.ts), "C04.signer.same-hrs-earlier-timestamp-reused")
		}
	}
	// nothing is released below the highest (h, r, step) released before
	for _, o := range rels {
		below := n.h < o.h || (n.h == o.h && (n.r < o.r || (n.r == o.r && n.step < o.step)))
		vp.Assert(!below, "C04.signer.no-release-below-last-hrs")
	}
}

// C04-H1: k arbitrary signing requests against the real FilePV, with restarts between requests and
// (engine) crashes at every file operation inside the sign-state save.
func vpC04Signer(k int, crashes int, maxH int, withProposals bool, symTime bool) {
	vpC04SignerOpt(k, crashes, 0, maxH, withProposals, symTime)
}

// ioFaults > 0: up to that many writes of the sign-state file fail with an error (disk full, I/O
// error); the signer is expected to die rather than release a signature it could not record, and the
// process is then restarted from what is on disk.
func vpC04SignerOpt(k int, crashes int, ioFaults int, maxH int, withProposals bool, symTime bool) {
	dir := vp.TempDir()
	keyF, stateF := dir+"/priv_validator_key.json", dir+"/priv_validator_state.json"
	priv := ed25519.GenPrivKeyFromSecret([]byte("vp-c04"))
	pv := NewFilePV(priv, keyF, stateF)
	pv.Save()
	pub := priv.PubKey()
	var rels []vpRelease
	vp.CrashPoints(crashes)
	vp.IOFaults(ioFaults)
	for q := 0; q < k; q++ {
		h := int64(vp.Range("height", 1, maxH))
		r := int32(vp.Range("round", 0, 1))
		block := vp.Choice("block", 3)
		var ts time.Time
		if symTime {
			sec := vp.Int64("ts.sec") // symbolic timestamp: travels through the real sign-bytes codec
			vp.Assume(sec >= 1<<30 && sec < 1<<30+4096)
			ts = time.Unix(sec, 0).UTC()
		} else {
			ts = time.Unix(1000+int64(vp.Choice("ts", 2)), 0).UTC()
		}
		kinds := 2
		if withProposals {
			kinds = 3
		}
		kind := vp.Choice("kind", kinds)
		died := false
		func() {
			defer func() {
				if rec := recover(); rec != nil && !vp.Crashed() {
					if ioFaults == 0 {
						panic(rec)
					}
					died = true // the signer gave up (it panics when it cannot save its state)
					vp.Reach("died-on-write-error?")
				}
			}()
			switch kind {
			case 0, 1:
				typ := tmproto.PrevoteType
				step := stepPrevote
				if kind == 1 {
					typ, step = tmproto.PrecommitType, stepPrecommit
				}
				v := &tmproto.Vote{Type: typ, Height: h, Round: r, BlockID: vpBlockIDProto(block), Timestamp: ts}
				if err := pv.SignVote(vpChain, v); err == nil {
					vp.Reach("vote-released")
					vp.Assert(pub.VerifySignature(types.VoteSignBytes(vpChain, v), v.Signature), "C04.signer.released-signature-verifies-for-released-vote")
					n := vpRelease{h, r, step, block, v.Signature, v.Timestamp}
					vpCheckRelease(rels, n)
					rels = append(rels, n)
				}
			case 2:
				if block == 2 {
					block = 0
				}
				p := &tmproto.Proposal{Type: tmproto.ProposalType, Height: h, Round: r, PolRound: -1, BlockID: vpBlockIDProto(block), Timestamp: ts}
				if err := pv.SignProposal(vpChain, p); err == nil {
					vp.Reach("proposal-released?")
					vp.Assert(pub.VerifySignature(types.ProposalSignBytes(vpChain, p), p.Signature), "C04.signer.released-signature-verifies-for-released-proposal")
					n := vpRelease{h, r, stepPropose, block, p.Signature, p.Timestamp}
					vpCheckRelease(rels, n)
					rels = append(rels, n)
				}
			}
		}()
		restart := vp.Crashed()
		if restart {
			vp.Reach("crashed?")
			vp.Reboot()
		} else if died {
			restart = true
		} else {
			// whatever was released is already durable: a fresh load sees the same last-sign state
			disk := LoadFilePV(keyF, stateF)
			a, b := pv.LastSignState, disk.LastSignState
			vp.Assert(a.Height == b.Height && a.Round == b.Round && a.Step == b.Step &&
				bytes.Equal(a.Signature, b.Signature) && bytes.Equal(a.SignBytes, b.SignBytes), "C04.signer.sign-state-durable-before-release")
			restart = vp.Choice("restart", 2) == 1
		}
		if restart {
			pv = LoadFilePV(keyF, stateF) // exits the process on a torn / unreadable file
		}
	}
}

func VP_C04_Signer_k2()              { vpC04Signer(2, 0, 1, true, false) }
func VP_C04_Signer_k3()              { vpC04Signer(3, 0, 1, true, false) }
func VP_C04_Signer_k3_h2()           { vpC04Signer(3, 0, 2, true, false) }
func VP_C04_Signer_k2_crash1()       { vpC04Signer(2, 1, 1, true, false) }
func VP_C04_Signer_k3_crash1()       { vpC04Signer(3, 1, 1, true, false) }
func VP_C04_Signer_k3_crash2()       { vpC04Signer(3, 2, 1, false, false) }
func VP_C04_Signer_k2_crash2()       { vpC04Signer(2, 2, 1, true, false) }
func VP_C04_Signer_k2_ioerr()        { vpC04SignerOpt(2, 0, 1, 1, true, false) }
func VP_C04_Signer_k3_ioerr()        { vpC04SignerOpt(3, 0, 1, 1, true, false) }
func VP_C04_Signer_k2_symts()        { vpC04Signer(2, 0, 1, true, true) }
func VP_C04_Signer_k2_crash1_symts() { vpC04Signer(2, 1, 1, false, true) }
