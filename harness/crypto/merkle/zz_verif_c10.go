//go:build verif

package merkle

import (
	"bytes"
	"math/bits"

	vp "github.com/tendermint/tendermint/internal/verifvp"
)

// vpItems returns n symbolic items of itemLen bytes each.
func vpItems(n, itemLen int) [][]byte {
	items := make([][]byte, n)
	for i := range items {
		items[i] = vp.Bytes("item", itemLen)
	}
	return items
}

// vpSymProof returns a fully symbolic proof with `aunts` aunts.
func vpSymProof(aunts int, total int64) *Proof {
	p := &Proof{
		Total:    total,
		Index:    vp.Int64("proof.Index"),
		LeafHash: vp.Bytes("proof.LeafHash", 32),
	}
	for i := 0; i < aunts; i++ {
		p.Aunts = append(p.Aunts, vp.Bytes("proof.Aunt", 32))
	}
	return p
}

// C10-H1a: soundness of Proof.Verify against the root of the real tree over n symbolic items,
// for an arbitrary (fully symbolic) proof and leaf, when the verifier knows the true leaf count.
func vpC10Sound(n, itemLen int, symTotal bool) {
	items := vpItems(n, itemLen)
	root := HashFromByteSlices(items)
	aunts := vp.Range("aunts", 0, 4)
	total := int64(n) // the verifier knows the leaf count (PartSetHeader.Total, len(txs), ...)
	if symTotal {
		total = vp.Int64("proof.Total")
	}
	proof := vpSymProof(aunts, total)
	leaf := vp.Bytes("leaf", vp.Range("leafLen", 0, itemLen+1))
	err := proof.Verify(root, leaf)
	if err != nil {
		vp.Reach("rejected")
		return
	}
	if proof.Total != int64(n) {
		// the root alone does not commit to the leaf count (callers bind Total, see AddPart), but an
		// accepted proof must still walk, under its own (index, total), the same left/right turns as
		// the path of a real position of the n-leaf tree, and carry the item of that position
		vp.Reach("accepted-with-other-total?")
		turns, ok := vpTurns(proof.Index, proof.Total, aunts)
		vp.Assert(ok, "C10.verify.stated-index-and-total-describe-a-leaf-at-the-depth-of-the-path")
		found := false
		for i := 0; i < n; i++ {
			t, ok2 := vpTurns(int64(i), int64(n), aunts)
			if ok2 && t == turns {
				found = true
				vp.Assert(bytes.Equal(leaf, items[i]), "C10.verify.leaf-is-the-item-whose-path-has-the-stated-shape")
			}
		}
		vp.Assert(found, "C10.verify.stated-(index,total)-has-the-shape-of-a-real-position")
		return
	}
	vp.Reach("accepted")
	vp.Assert(proof.Index >= 0 && proof.Index < int64(n), "C10.verify.index-in-range")
	idx := int(proof.Index)
	vp.Assert(bytes.Equal(leaf, items[idx]), "C10.verify.leaf-is-item-at-index")
}

func VP_C10_Sound_n1() { vpC10Sound(1, 1, false) }
func VP_C10_Sound_n2() { vpC10Sound(2, 1, false) }
func VP_C10_Sound_n3() { vpC10Sound(3, 1, false) }
func VP_C10_Sound_n4() { vpC10Sound(4, 1, false) }
func VP_C10_Sound_n5() { vpC10Sound(5, 1, false) }
func VP_C10_Sound_n6() { vpC10Sound(6, 1, false) }
func VP_C10_Sound_n7() { vpC10Sound(7, 1, false) }
func VP_C10_Sound_n8() { vpC10Sound(8, 1, false) }

// symbolic Total as well (the assertion still only speaks about Total == n)
func VP_C10_SoundSymTotal_n2() { vpC10Sound(2, 1, true) }
func VP_C10_SoundSymTotal_n3() { vpC10Sound(3, 1, true) }
// two-byte items
func VP_C10_Sound2_n3() { vpC10Sound(3, 2, false) }

// C10-H1b: completeness and position binding of genuine proofs: proofs[i] verifies items[i];
// presented for another index j or another item it never verifies a different item.
func vpC10Genuine(n int) {
	items := vpItems(n, 1)
	root, proofs := ProofsFromByteSlices(items)
	vp.Assert(bytes.Equal(root, HashFromByteSlices(items)), "C10.genuine.root-agrees")
	i := vp.Range("i", 0, n-1)
	p := proofs[i]
	vp.Assert(p.Verify(root, items[i]) == nil, "C10.genuine.verifies")
	vp.Assert(p.Total == int64(n) && p.Index == int64(i), "C10.genuine.index-total")
	// transplant: same path, claimed at another index, for any leaf
	j := vp.Range("j", 0, n-1)
	q := &Proof{Total: p.Total, Index: int64(j), LeafHash: p.LeafHash, Aunts: p.Aunts}
	leaf := vp.Bytes("leaf", 1)
	q.LeafHash = vp.Bytes("lh", 32)
	if q.Verify(root, leaf) == nil {
		vp.Reach("transplant-accepted")
		vp.Assert(bytes.Equal(leaf, items[j]), "C10.genuine.transplant-proves-only-item-j")
	}
}

func VP_C10_Genuine_n1() { vpC10Genuine(1) }
func VP_C10_Genuine_n2() { vpC10Genuine(2) }
func VP_C10_Genuine_n3() { vpC10Genuine(3) }
func VP_C10_Genuine_n4() { vpC10Genuine(4) }
func VP_C10_Genuine_n5() { vpC10Genuine(5) }

// C10-H1c: the path is bound too: a proof that verifies against the root carries exactly the aunts of
// the genuine proof for its index (same number, same bytes, same lengths).  The candidate proof has
// arbitrary 32-byte aunts, one of which may be longer than a hash.
func vpC10SoundPath(n int) {
	items := vpItems(n, 1)
	root, genuine := ProofsFromByteSlices(items)
	aunts := vp.Range("aunts", 0, 3)
	proof := &Proof{Total: int64(n), Index: vp.Int64("proof.Index"), LeafHash: vp.Bytes("proof.LeafHash", 32)}
	long := vp.Range("long-aunt", 0, 3) // the aunt with trailing bytes (3 = none)
	for i := 0; i < aunts; i++ {
		a := vp.Bytes("proof.Aunt", 32)
		if i == long {
			a = append(a, vp.Bytes("aunt-tail", 5)...)
		}
		proof.Aunts = append(proof.Aunts, a)
	}
	leaf := vp.Bytes("leaf", 1)
	if proof.Verify(root, leaf) != nil {
		vp.Reach("rejected")
		return
	}
	vp.Reach("accepted")
	vp.Assert(proof.Index >= 0 && proof.Index < int64(n), "C10.verify.index-in-range")
	g := genuine[int(proof.Index)]
	vp.Assert(len(proof.Aunts) == len(g.Aunts), "C10.verify.accepted-path-has-the-genuine-length")
	for i := range proof.Aunts {
		if i < len(g.Aunts) {
			vp.Assert(bytes.Equal(proof.Aunts[i], g.Aunts[i]), "C10.verify.accepted-path-is-the-genuine-path")
		}
	}
}

func VP_C10_SoundPath_n2() { vpC10SoundPath(2) }
func VP_C10_SoundPath_n3() { vpC10SoundPath(3) }
func VP_C10_SoundPath_n4() { vpC10SoundPath(4) }

// vpTurns: the left/right turns (root first, 1 = right, with a leading 1 marker) from the root to leaf
// `index` of a tree of `total` leaves under the split rule of the specification (largest power of two
// strictly less than the size), written independently of tree.go; ok=false unless the leaf sits at
// exactly `depth`.
func vpTurns(index, total int64, depth int) (uint32, bool) {
	if total < 1 || index < 0 || index >= total {
		return 0, false
	}
	turns := uint32(1)
	for d := 0; d < depth; d++ {
		if total == 1 {
			return 0, false
		}
		k := int64(1) << uint(bits.Len64(uint64(total-1))-1)
		turns <<= 1
		if index < k {
			total = k
		} else {
			turns |= 1
			index -= k
			total -= k
		}
	}
	return turns, total == 1
}
