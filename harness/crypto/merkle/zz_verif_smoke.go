//go:build verif

package merkle

import (
	vp "github.com/tendermint/tendermint/internal/verifvp"
)

// VP_Smoke: engine self-check (arith, branch, slices, hash model).
func VP_Smoke() {
	x := vp.Int64("x")
	y := vp.Int64("y")
	vp.Assume(x > 0 && x < 100 && y > 0 && y < 100)
	s := x + y
	vp.Assert(s > x, "sum-gt")
	if x > 50 {
		vp.Reach("big")
		vp.Assert(s > 51, "sum-gt-51")
	} else {
		vp.Reach("small")
	}
	b := vp.Bytes("b", 2)
	h1 := leafHash(b)
	h2 := leafHash([]byte{1, 2})
	if string(h1) == string(h2) {
		vp.Reach("hash-eq")
		vp.Assert(b[0] == 1 && b[1] == 2, "hash-injective")
	}
}

func VP_SmokeFail() {
	x := vp.Int64("x")
	vp.Assume(x > 0)
	vp.Assert(x+1 > 0, "overflow") // fails for MaxInt64
}
