//go:build verif

package v0

import (
	"bytes"
	"net"
	"time"

	dbm "github.com/tendermint/tm-db"

	"github.com/tendermint/tendermint/crypto/ed25519"
	vp "github.com/tendermint/tendermint/internal/verifvp"
	"github.com/tendermint/tendermint/libs/log"
	mpmock "github.com/tendermint/tendermint/mempool/mock"
	"github.com/tendermint/tendermint/p2p"
	tmproto "github.com/tendermint/tendermint/proto/tendermint/types"
	sm "github.com/tendermint/tendermint/state"
	"github.com/tendermint/tendermint/store"
	"github.com/tendermint/tendermint/types"
)

const vpChain = "vp-chain"

type vpPeer struct {
	p2p.Peer
	id p2p.ID
}

func (p *vpPeer) ID() p2p.ID { return p.id }

type vpPeerSet struct{ peers map[p2p.ID]*vpPeer }

func (s *vpPeerSet) Has(k p2p.ID) bool   { _, ok := s.peers[k]; return ok }
func (s *vpPeerSet) HasIP(ip net.IP) bool { return false }
func (s *vpPeerSet) Get(k p2p.ID) p2p.Peer {
	if p, ok := s.peers[k]; ok {
		return p
	}
	return nil
}
func (s *vpPeerSet) List() []p2p.Peer { return nil }
func (s *vpPeerSet) Size() int        { return len(s.peers) }

type vpConsensus struct {
	switched chan struct{}
	state    *sm.State
}

func (c *vpConsensus) SwitchToConsensus(state sm.State, skipWAL bool) {
	c.state = &state
	close(c.switched)
}

func vpCommitFor(keys []ed25519.PrivKey, vals *types.ValidatorSet, b *types.Block, kinds []int) *types.Commit {
	ps := b.MakePartSet(types.BlockPartSizeBytes)
	bid := types.BlockID{Hash: b.Hash(), PartSetHeader: ps.Header()}
	sigs := make([]types.CommitSig, len(vals.Validators))
	for i, v := range vals.Validators {
		var key ed25519.PrivKey
		for _, k := range keys {
			if bytes.Equal(k.PubKey().Address(), v.Address) {
				key = k
			}
		}
		ts := b.Time.Add(time.Second)
		vote := &types.Vote{Type: tmproto.PrecommitType, Height: b.Height, Round: 0, BlockID: bid, Timestamp: ts, ValidatorAddress: v.Address, ValidatorIndex: int32(i)}
		sig, err := key.Sign(types.VoteSignBytes(vpChain, vote.ToProto()))
		if err != nil {
			panic(err)
		}
		cs := types.CommitSig{BlockIDFlag: types.BlockIDFlagCommit, ValidatorAddress: v.Address, Timestamp: ts, Signature: sig}
		switch kinds[i] {
		case 1: // junk signature
			cs.Signature = bytes.Repeat([]byte{0x5a}, 64)
		case 2:
			cs = types.NewCommitSigAbsent()
		case 3: // genuine signature, but the slot names another validator (the sign bytes do not cover the address)
			cs.ValidatorAddress = vals.Validators[(i+1)%len(vals.Validators)].Address
		case 4: // the validator genuinely precommitted nil in that round
			vote.BlockID = types.BlockID{}
			nsig, err := key.Sign(types.VoteSignBytes(vpChain, vote.ToProto()))
			if err != nil {
				panic(err)
			}
			cs = types.CommitSig{BlockIDFlag: types.BlockIDFlagNil, ValidatorAddress: v.Address, Timestamp: ts, Signature: nsig}
		}
		sigs[i] = cs
	}
	return types.NewCommit(b.Height, 0, bid, sigs)
}

// C13-H1: the acceptance step of the real poolRoutine on two blocks received from peers.
func vpC13Accept() {
	vp.Opt("timerfires", 400)
	vp.Opt("switches", 4000)
	var keys []ed25519.PrivKey
	var gvals []types.GenesisValidator
	for i := 0; i < 4; i++ {
		k := ed25519.GenPrivKeyFromSecret([]byte{'b', 's', byte(i)})
		keys = append(keys, k)
		gvals = append(gvals, types.GenesisValidator{Address: k.PubKey().Address(), PubKey: k.PubKey(), Power: 10, Name: "v"})
	}
	gen := &types.GenesisDoc{GenesisTime: time.Date(2022, 1, 1, 0, 0, 0, 0, time.UTC), ChainID: vpChain, InitialHeight: 1, ConsensusParams: types.DefaultConsensusParams(), Validators: gvals}
	state, err := sm.MakeGenesisState(gen)
	if err != nil {
		panic(err)
	}
	// the validator set changes at the next height (a newcomer with most of the power): the commit for
	// height 1 must be checked against the validators of height 1, not against the next set
	newcomer := ed25519.GenPrivKeyFromSecret([]byte("newcomer"))
	nv := state.NextValidators.Copy()
	if err := nv.UpdateWithChangeSet([]*types.Validator{types.NewValidator(newcomer.PubKey(), 100)}); err != nil {
		panic(err)
	}
	state.NextValidators = nv
	stateStore := sm.NewStore(dbm.NewMemDB(), sm.StoreOptions{})
	if err := stateStore.Save(state); err != nil {
		panic(err)
	}
	blockStore := store.NewBlockStore(dbm.NewMemDB())
	blockExec := sm.NewBlockExecutor(stateStore, log.NewNopLogger(), nil, mpmock.Mempool{}, sm.EmptyEvidencePool{})
	// the canonical block 1 and what peers send
	proposer := state.Validators.GetProposer().Address
	canon1, _ := state.MakeBlock(1, []types.Tx{{1}}, types.NewCommit(0, 0, types.BlockID{}, nil), nil, proposer)
	first := canon1
	firstCanonical := vp.Choice("first-is-canonical", 2) == 0
	if !firstCanonical {
		first, _ = state.MakeBlock(1, []types.Tx{{0x66}}, types.NewCommit(0, 0, types.BlockID{}, nil), nil, proposer)
	}
	kinds := make([]int, 4)
	for i := range kinds {
		kinds[i] = vp.Choice("commit-slot", 5)
	}
	commitFor := canon1
	if vp.Choice("commit-is-for", 2) == 1 {
		commitFor = first
	}
	lastCommit := vpCommitFor(keys, state.Validators, commitFor, kinds)
	st2 := state.Copy()
	st2.LastBlockHeight = 1
	second, _ := st2.MakeBlock(2, []types.Tx{{2}}, lastCommit, nil, proposer)

	// reference: valid for-block power for exactly the block that is saved
	good := 0
	for i := range kinds {
		if kinds[i] == 0 || kinds[i] == 3 { // a slot naming another validator still carries validator i's genuine signature
			good++
		}
	}

	// the early-exit rule: signatures are checked in slot order until +2/3 is reached; an invalid one before that point refuses the commit
	lightAccepts, tally := false, 0
	for i := range kinds {
		if kinds[i] == 2 || kinds[i] == 4 { // absent, or a precommit for nil: neither is looked at
			continue
		}
		if kinds[i] == 1 {
			break
		}
		tally += 10
		if 3*tally > 2*40 {
			lightAccepts = true
			break
		}
	}

	bcR := NewBlockchainReactor(state.Copy(), blockExec, blockStore, true)
	peers := &vpPeerSet{peers: map[p2p.ID]*vpPeer{"p1": {id: "p1"}, "p2": {id: "p2"}}}
	var r1, r2 *bpRequester
	var stopped []p2p.ID
	refused := make(chan struct{})
	cons := &vpConsensus{switched: make(chan struct{})}
	const sp = "(*github.com/tendermint/tendermint/p2p.Switch)."
	vp.Stub(sp+"Peers", func(sw *p2p.Switch) p2p.IPeerSet { return peers })
	vp.Stub(sp+"NumPeers", func(sw *p2p.Switch) (int, int, int) { return 2, 0, 0 })
	vp.Stub(sp+"StopPeerForError", func(sw *p2p.Switch, peer p2p.Peer, reason interface{}) {
		stopped = append(stopped, peer.ID())
		delete(peers.peers, peer.ID())
		// what the requester goroutines (not started here) do on a redo: forget the block and ask again
		for _, r := range []*bpRequester{r1, r2} {
			select {
			case id := <-r.redoCh:
				if id == r.peerID {
					r.reset()
				}
			default:
			}
		}
		if len(stopped) == 2 {
			close(refused)
		}
	})
	vp.Stub(sp+"Reactor", func(sw *p2p.Switch, name string) p2p.Reactor { return vpConsReactor{cons} })
	vp.Stub(sp+"Broadcast", func(sw *p2p.Switch) chan bool { return nil })
	vp.Stub("(*github.com/tendermint/tendermint/blockchain/v0.BlockchainReactor).BroadcastStatusRequest", func(r *BlockchainReactor) error { return nil })
	applied := 0
	vp.Stub("(*github.com/tendermint/tendermint/state.BlockExecutor).ApplyBlock", func(be *sm.BlockExecutor, st sm.State, id types.BlockID, b *types.Block) (sm.State, int64, error) {
		applied++
		st.LastBlockHeight = b.Height
		st.LastBlockID = id
		st.LastBlockTime = b.Time
		st.LastValidators = st.Validators.Copy()
		return st, 0, nil
	})
	// the pool holds the two blocks as received from p1 and p2
	pool := bcR.pool
	pool.height = 1
	pool.startTime = time.Now()
	pool.maxPeerHeight = 2
	pool.peers["p1"] = &bpPeer{pool: pool, id: "p1", height: 2, base: 1, logger: log.NewNopLogger()}
	pool.peers["p2"] = &bpPeer{pool: pool, id: "p2", height: 2, base: 1, logger: log.NewNopLogger()}
	r1, r2 = newBPRequester(pool, 1), newBPRequester(pool, 2)
	r1.peerID, r1.block = "p1", first
	r2.peerID, r2.block = "p2", second
	pool.requesters[1], pool.requesters[2] = r1, r2

	go bcR.poolRoutine(false)
	select {
	case <-cons.switched:
	case <-refused:
	case <-time.After(1500 * time.Millisecond):
	}
	saved := blockStore.LoadBlock(1)
	if saved != nil {
		vp.Reach("block-saved")
		vp.Assert(bytes.Equal(saved.Hash(), canon1.Hash()) == firstCanonical, "C13.sync.saved-block-is-what-was-verified")
		vp.Assert(commitFor == first, "C13.sync.block-saved-only-with-a-commit-for-exactly-that-block")
		vp.Assert(3*good > 2*4, "C13.sync.block-saved-only-with-more-than-two-thirds-valid-signatures")
		vp.Assert(applied == 1, "C13.sync.saved-block-is-executed-once")
		// what consensus will do with the stored seen commit when it takes over
		seen := blockStore.LoadSeenCommit(1)
		ok := true
		func() {
			defer func() {
				if recover() != nil {
					ok = false
				}
			}()
			vs := types.CommitToVoteSet(vpChain, seen, state.Validators)
			ok = vs.HasTwoThirdsMajority()
		}()
		junk, misnamed := 0, 0
		for i := range kinds {
			if kinds[i] == 1 {
				junk++
			}
			if kinds[i] == 3 {
				misnamed++
			}
		}
		switch {
		case junk > 0:
			vp.Assert(ok, "C13.sync.stored-seen-commit-lets-consensus-start/junk-signature-behind-the-two-thirds-point")
		case misnamed > 0:
			vp.Assert(ok, "C13.sync.stored-seen-commit-lets-consensus-start/slot-names-another-validator")
		default:
			vp.Assert(ok, "C13.sync.stored-seen-commit-lets-consensus-start")
		}
	} else {
		vp.Reach("block-refused")
		vp.Assert(!(commitFor == first && lightAccepts), "C13.sync.block-with-a-two-thirds-commit-of-its-height's-validators-is-accepted")
		vp.Assert(applied == 0, "C13.sync.refused-block-is-not-executed")
		vp.Assert(len(stopped) == 2, "C13.sync.on-refusal-both-peers-are-dropped")
	}
}

type vpConsReactor struct{ c *vpConsensus }

func (r vpConsReactor) SwitchToConsensus(state sm.State, skipWAL bool) { r.c.SwitchToConsensus(state, skipWAL) }
func (r vpConsReactor) SetSwitch(*p2p.Switch)                           {}
func (r vpConsReactor) GetChannels() []*p2p.ChannelDescriptor           { return nil }
func (r vpConsReactor) InitPeer(peer p2p.Peer) p2p.Peer                 { return peer }
func (r vpConsReactor) AddPeer(peer p2p.Peer)                           {}
func (r vpConsReactor) RemovePeer(peer p2p.Peer, reason interface{})    {}
func (r vpConsReactor) Receive(chID byte, peer p2p.Peer, msgBytes []byte) {}
func (r vpConsReactor) Start() error                                    { return nil }
func (r vpConsReactor) OnStart() error                                  { return nil }
func (r vpConsReactor) Stop() error                                     { return nil }
func (r vpConsReactor) OnStop()                                         {}
func (r vpConsReactor) Reset() error                                    { return nil }
func (r vpConsReactor) OnReset() error                                  { return nil }
func (r vpConsReactor) IsRunning() bool                                 { return true }
func (r vpConsReactor) Quit() <-chan struct{}                           { return nil }
func (r vpConsReactor) String() string                                  { return "cons" }
func (r vpConsReactor) SetLogger(log.Logger)                            {}

func VP_C13_Accept() { vpC13Accept() }

// ---------------------------------------------------------------- C13-H2 (part): who may fill a request

// A block for height h is taken only from the peer that was asked for h.  The real BlockPool.AddBlock
// and bpRequester.setBlock are run on requesters in each of their states (no peer assigned yet /
// assigned to p1 / already filled); the sender is the assigned peer, another known peer, or a peer
// the pool has never heard of; anything else than the assigned peer's first answer must be refused and
// reported.
func VP_C13_AddBlock() {
	requests := make(chan BlockRequest, 16)
	errs := make(chan peerError, 16)
	pool := NewBlockPool(5, requests, errs)
	pool.SetLogger(log.NewNopLogger())
	vp.Stub("(*github.com/tendermint/tendermint/libs/service.BaseService).IsRunning", func() bool { return true })
	pool.SetPeerRange("p1", 1, 20)
	pool.SetPeerRange("p2", 1, 20)
	req := newBPRequester(pool, 5)
	pool.requesters[5] = req
	pool.numPending = 1
	state := vp.Choice("requester-state", 3) // 0 unassigned, 1 assigned to p1, 2 assigned to p1 and already filled
	held := &types.Block{Header: types.Header{Height: 5, ChainID: "first"}}
	if state >= 1 {
		req.peerID = "p1"
		pool.peers["p1"].incrPending() // as the requester does when it picks the peer
	}
	if state == 2 {
		req.block = held
	}
	sender := []p2p.ID{"p1", "p2", "stranger"}[vp.Choice("sender", 3)]
	blk := &types.Block{Header: types.Header{Height: 5, ChainID: "sent"}}
	pool.AddBlock(sender, blk, 100)
	shouldTake := state == 1 && sender == "p1"
	if shouldTake {
		vp.Reach("taken")
		vp.Assert(req.getBlock() == blk, "C13.pool.the-asked-peer's-answer-is-taken")
		vp.Assert(len(errs) == 0, "C13.pool.the-asked-peer-is-not-reported")
	} else {
		vp.Reach("refused")
		want := (*types.Block)(nil)
		if state == 2 {
			want = held
		}
		vp.Assert(req.getBlock() == want, "C13.pool.a-block-is-taken-only-from-the-peer-that-was-asked-for-it")
		vp.Assert(len(errs) == 1, "C13.pool.a-peer-answering-a-request-it-was-not-given-is-reported")
	}
}
