//go:build verif

package light

import (
	tmmath "github.com/tendermint/tendermint/libs/math"
	"bytes"
	"context"
	"errors"
	"time"

	"github.com/tendermint/tendermint/crypto"
	"github.com/tendermint/tendermint/crypto/ed25519"
	"github.com/tendermint/tendermint/crypto/tmhash"
	vp "github.com/tendermint/tendermint/internal/verifvp"
	"github.com/tendermint/tendermint/libs/log"
	"github.com/tendermint/tendermint/light/provider"
	dbs "github.com/tendermint/tendermint/light/store/db"
	dbm "github.com/tendermint/tm-db"
	tmproto "github.com/tendermint/tendermint/proto/tendermint/types"
	tmversion "github.com/tendermint/tendermint/proto/tendermint/version"
	"github.com/tendermint/tendermint/types"
	"github.com/tendermint/tendermint/version"
)

const vpChain = "vp-chain"

func vpKey(i int) ed25519.PrivKey { return ed25519.GenPrivKeyFromSecret([]byte{'l', 'c', byte(i)}) }

func vpSign(priv crypto.PrivKey, msg []byte) []byte {
	if vp.Symbolic() {
		return vp.IdealSig(priv.PubKey().Bytes(), msg, true)
	}
	sig, err := priv.Sign(msg)
	if err != nil {
		panic(err)
	}
	return sig
}

func vpValSet(idx []int, power int64) *types.ValidatorSet {
	vals := make([]*types.Validator, len(idx))
	for i, k := range idx {
		vals[i] = types.NewValidator(vpKey(k).PubKey(), power)
	}
	return &types.ValidatorSet{Validators: vals} // raw: duplicates are possible, as an adversary can send them
}

// vpValSetPw: as vpValSet with one power per position.
func vpValSetPw(idx []int, pw []int64) *types.ValidatorSet {
	vals := make([]*types.Validator, len(idx))
	for i, k := range idx {
		vals[i] = types.NewValidator(vpKey(k).PubKey(), pw[i])
	}
	return &types.ValidatorSet{Validators: vals}
}

func vpHeader(chain string, h int64, t time.Time, vals, next *types.ValidatorSet) *types.Header {
	return &types.Header{
		Version: tmversion.Consensus{Block: version.BlockProtocol}, ChainID: chain, Height: h, Time: t,
		LastBlockID:    types.BlockID{Hash: tmhash.Sum([]byte("prev")), PartSetHeader: types.PartSetHeader{Total: 1, Hash: tmhash.Sum([]byte("pp"))}},
		LastCommitHash: tmhash.Sum([]byte("lc")), DataHash: tmhash.Sum([]byte("d")), ValidatorsHash: vals.Hash(), NextValidatorsHash: next.Hash(),
		ConsensusHash: tmhash.Sum([]byte("c")), AppHash: []byte("app"), LastResultsHash: tmhash.Sum([]byte("r")), EvidenceHash: tmhash.Sum([]byte("e")),
		ProposerAddress: vals.Validators[0].Address,
	}
}

// vpCommit: every listed signer (index into vals, by position) signs for the header.
func vpCommit(chain string, hd *types.Header, vals *types.ValidatorSet, keyIdx []int, signers []bool) *types.Commit {
	return vpCommitNil(chain, hd, vals, keyIdx, signers, nil)
}

// vpCommitNil: as vpCommit, but the signers listed in nils genuinely precommitted nil in that round.
func vpCommitNil(chain string, hd *types.Header, vals *types.ValidatorSet, keyIdx []int, signers []bool, nils []bool) *types.Commit {
	bid := types.BlockID{Hash: hd.Hash(), PartSetHeader: types.PartSetHeader{Total: 1, Hash: tmhash.Sum([]byte("parts"))}}
	sigs := make([]types.CommitSig, len(vals.Validators))
	for i, v := range vals.Validators {
		if !signers[i] {
			sigs[i] = types.NewCommitSigAbsent()
			continue
		}
		vote := &types.Vote{Type: tmproto.PrecommitType, Height: hd.Height, Round: 0, BlockID: bid, Timestamp: hd.Time, ValidatorAddress: v.Address, ValidatorIndex: int32(i)}
		key := vpKey(keyIdx[i])
		if !bytes.Equal(key.PubKey().Address(), v.Address) { // the set was re-ordered (NewValidatorSet): find the key by address
			for k := 0; k < 30; k++ {
				if bytes.Equal(vpKey(k).PubKey().Address(), v.Address) {
					key = vpKey(k)
				}
			}
		}
		flag := types.BlockIDFlagCommit
		if nils != nil && nils[i] {
			vote.BlockID = types.BlockID{}
			flag = types.BlockIDFlagNil
		}
		sigs[i] = types.CommitSig{BlockIDFlag: flag, ValidatorAddress: v.Address, Timestamp: hd.Time,
			Signature: vpSign(key, types.VoteSignBytes(chain, vote.ToProto()))}
	}
	return types.NewCommit(hd.Height, 0, bid, sigs)
}

// C09-H1: light.Verify against the rule of the specification, for adjacent and non-adjacent steps.
func vpC09Verify(adjacent bool) {
	base := int64(1700000000)
	// header times are concrete (they are hashed and signed); "now" is symbolic
	tOld := base + 100
	tNew := []int64{base + 50, base + 100, base + 101, base + 150}[vp.Choice("untrusted.time", 4)]
	now := vp.Int64("now")
	vp.Assume(vp.And(now >= base, now <= base+600))
	period := []time.Duration{100 * time.Second, 300 * time.Second}[vp.Choice("trusting-period", 2)]
	drift := []time.Duration{0, 10 * time.Second}[vp.Choice("clock-drift", 2)]
	trustedIdx := []int{0, 1, 2}
	// equal powers, or one validator holding half (so that two signers can hold exactly 3/4)
	pw := [][]int64{{10, 10, 10}, {50, 25, 25}}[vp.Choice("powers", 2)]
	trustedVals := vpValSetPw(trustedIdx, pw)
	// the new header's validator set: the same set, or one sharing 1 or 2 members with the trusted one
	newIdx := [][]int{{0, 1, 2}, {0, 1, 5}, {0, 4, 5}}[vp.Choice("new-validators", 3)]
	newVals := vpValSetPw(newIdx, pw)
	hOld := int64(2)
	hNew := hOld + 1
	if !adjacent {
		hNew = hOld + 2
	}
	nextOfOld := trustedVals
	oldHeader := vpHeader(vpChain, hOld, time.Unix(tOld, 0).UTC(), trustedVals, nextOfOld)
	trusted := &types.SignedHeader{Header: oldHeader, Commit: vpCommit(vpChain, oldHeader, trustedVals, trustedIdx, []bool{true, true, true})}
	chainNew := vpChain
	valsForHeader := newVals
	signers := []bool{true, true, true}
	hdrHeight := hNew
	var nils []bool
	switch vp.Choice("perturb", 8) {
	case 6:
		nils = []bool{false, true, true} // two of the three precommitted nil: nil precommits commit nothing
	case 7:
		nils = []bool{false, false, true} // exactly two thirds for the block plus a nil precommit
	case 1:
		chainNew = "other-chain"
	case 2:
		valsForHeader = vpValSet([]int{7, 8, 9}, 10) // header's validators hash does not match the supplied set
	case 3:
		signers = []bool{true, true, false} // exactly two thirds: not enough
	case 4:
		signers = []bool{true, false, false}
	case 5:
		hdrHeight = hOld // not later in height
	}
	newHeader := vpHeader(chainNew, hdrHeight, time.Unix(tNew, 0).UTC(), valsForHeader, valsForHeader)
	untrusted := &types.SignedHeader{Header: newHeader, Commit: vpCommitNil(chainNew, newHeader, newVals, newIdx, signers, nils)}
	// the operator's trust level: the default 1/3, or a stricter one above the 2/3 commit threshold
	level := []tmmath.Fraction{DefaultTrustLevel, {Numerator: 3, Denominator: 4}}[vp.Choice("trust-level", 2)]
	err := Verify(trusted, trustedVals, untrusted, newVals, period, time.Unix(now, 0).UTC(), drift, level)

	// ---- reference
	var nSigned, nSignedTrusted, total int64 // voting power
	for i := range signers {
		total += pw[i]
		if signers[i] && (nils == nil || !nils[i]) {
			nSigned += pw[i]
			if newIdx[i] <= 2 {
				nSignedTrusted += pw[newIdx[i]] // counted with the power the trusted set gives that validator
			}
		}
	}
	wellFormed := chainNew == vpChain && bytes.Equal(valsForHeader.Hash(), newVals.Hash())
	later := hdrHeight > hOld && tNew > tOld
	notFuture := tNew < now+int64(drift/time.Second)
	notExpired := tOld+int64(period/time.Second) > now
	twoThirds := 3*nSigned > 2*total
	var link bool
	if hdrHeight == hOld+1 {
		link = bytes.Equal(newHeader.ValidatorsHash, oldHeader.NextValidatorsHash)
	} else {
		link = nSignedTrusted*int64(level.Denominator) > int64(level.Numerator)*total // strictly more than the trust level of the trusted set's power
	}
	want := wellFormed && later && notFuture && notExpired && twoThirds && link
	if err == nil {
		vp.Reach("accepted")
	} else {
		vp.Reach("rejected")
	}
	vp.Assert((err == nil) == want, "C09.verify.header-accepted-exactly-when-the-verification-rule-holds")
}

func VP_C09_Verify_adjacent()    { vpC09Verify(true) }
func VP_C09_Verify_nonadjacent() { vpC09Verify(false) }

// C09-H1b: the trusting step under an adversarial light block: the new "validator set" is any list of
// entries taken from the trusted members or strangers (repetitions included), all genuinely signing;
// accepted only if distinct trusted members holding more than 1/3 of the trusted power signed.
func vpC09TrustingAdversarial(m int, n int) {
	base := int64(1700000000)
	trustedIdx := make([]int, m)
	for i := range trustedIdx {
		trustedIdx[i] = i
	}
	trustedVals := vpValSet(trustedIdx, 10)
	oldHeader := vpHeader(vpChain, 2, time.Unix(base, 0).UTC(), trustedVals, trustedVals)
	allTrue := make([]bool, m)
	for i := range allTrue {
		allTrue[i] = true
	}
	trusted := &types.SignedHeader{Header: oldHeader, Commit: vpCommit(vpChain, oldHeader, trustedVals, trustedIdx, allTrue)}
	newIdx := make([]int, n)
	signers := make([]bool, n)
	for i := range newIdx {
		newIdx[i] = vp.Choice("entry", m+1) // m = a stranger
		if newIdx[i] == m {
			newIdx[i] = 20 + i
		}
		signers[i] = true
	}
	newVals := vpValSet(newIdx, 10)
	newHeader := vpHeader(vpChain, 4, time.Unix(base+10, 0).UTC(), newVals, newVals)
	untrusted := &types.SignedHeader{Header: newHeader, Commit: vpCommit(vpChain, newHeader, newVals, newIdx, signers)}
	err := Verify(trusted, trustedVals, untrusted, newVals, time.Hour, time.Unix(base+20, 0).UTC(), 10*time.Second, DefaultTrustLevel)
	if err != nil {
		vp.Reach("rejected")
		return
	}
	vp.Reach("accepted")
	distinct := map[int]bool{}
	for _, k := range newIdx {
		if k < m {
			distinct[k] = true
		}
	}
	vp.Assert(3*len(distinct) > m, "C09.verify.trusting-step-needs-more-than-the-trust-level-of-distinct-trusted-members")
}

func VP_C09_TrustingAdversarial_m4_n3() { vpC09TrustingAdversarial(4, 3) }
func VP_C09_TrustingAdversarial_m7_n3() { vpC09TrustingAdversarial(7, 3) }
func VP_C09_TrustingAdversarial_m7_n4() { vpC09TrustingAdversarial(7, 4) }

// ---------------------------------------------------------------- C09-H3: witness cross-check

// vpWitness answers a request for the target height in one of several ways; any other request fails.
type vpWitness struct {
	kind   int // 0 identical block, 1 a different block it cannot back, 2 no response, 3 block not found, 4 malformed / unreliable
	same   *types.LightBlock
	other  *types.LightBlock
	target int64
	asked  int
}

func (w *vpWitness) ChainID() string { return vpChain }
func (w *vpWitness) ReportEvidence(ctx context.Context, ev types.Evidence) error { return nil }
func (w *vpWitness) LightBlock(ctx context.Context, height int64) (*types.LightBlock, error) {
	w.asked++
	if height != w.target {
		return nil, provider.ErrNoResponse // cannot back anything with a trace
	}
	switch w.kind {
	case 0:
		return w.same, nil
	case 1:
		return w.other, nil
	case 2:
		return nil, provider.ErrNoResponse
	case 3:
		return nil, provider.ErrLightBlockNotFound
	}
	return nil, provider.ErrBadLightBlock{Reason: errors.New("malformed")}
}

// detectDivergence with nW witnesses of symbolic behaviour under every goroutine schedule:
// the verified header is confirmed only if some witness returned the identical header.
func vpC09Detector(nW int) {
	vp.Opt("sched", 1)
	base := int64(1700000000)
	vals := vpValSet([]int{0, 1, 2}, 10)
	h1 := vpHeader(vpChain, 1, time.Unix(base, 0).UTC(), vals, vals)
	h2 := vpHeader(vpChain, 2, time.Unix(base+10, 0).UTC(), vals, vals)
	h2b := vpHeader(vpChain, 2, time.Unix(base+10, 0).UTC(), vals, vals)
	h2b.DataHash = tmhash.Sum([]byte("a different block"))
	all := []bool{true, true, true}
	idx := []int{0, 1, 2}
	lb := func(h *types.Header) *types.LightBlock {
		return &types.LightBlock{SignedHeader: &types.SignedHeader{Header: h, Commit: vpCommit(vpChain, h, vals, idx, all)}, ValidatorSet: vals}
	}
	b1, b2, b2other := lb(h1), lb(h2), lb(h2b)
	witnesses := make([]provider.Provider, nW)
	ws := make([]*vpWitness, nW)
	for i := range witnesses {
		ws[i] = &vpWitness{kind: vp.Choice("witness-behaviour", 5), same: b2, other: b2other, target: 2}
		witnesses[i] = ws[i]
	}
	c := &Client{chainID: vpChain, trustingPeriod: time.Hour, trustLevel: DefaultTrustLevel, maxClockDrift: 10 * time.Second, maxBlockLag: 10 * time.Second,
		primary: &vpWitness{kind: 0, same: b2, target: 2}, witnesses: witnesses, logger: log.NewNopLogger(), confirmationFn: func(string) bool { return true }, quit: make(chan struct{})}
	err := c.detectDivergence(context.Background(), []*types.LightBlock{b1, b2}, time.Unix(base+20, 0).UTC())
	confirmed := false
	for _, w := range ws {
		if w.kind == 0 {
			confirmed = true
		}
	}
	if err == nil {
		vp.Reach("confirmed")
		vp.Assert(confirmed, "C09.detector.header-is-confirmed-only-if-a-witness-returned-the-identical-header")
	} else {
		vp.Reach("not-confirmed")
	}
	vp.Settle()
	vp.Assert(vp.Blocked() == 0, "C09.detector.no-witness-goroutine-is-left-blocked")
}

func VP_C09_Detector_w1() { vpC09Detector(1) }
func VP_C09_Detector_w2() { vpC09Detector(2) }
func VP_C09_Detector_w3() { vpC09Detector(3) }

// ---------------------------------------------------------------- C09-H2: backwards verification stores only what it verified

// vpPrimary serves a genuine chain or, on requests the harness picks, a forged block for the height.
type vpPrimary struct {
	genuine map[int64]*types.LightBlock
	forged  map[int64]*types.LightBlock
	forgeOn []bool // forgeOn[k]: the k-th request is answered with the forged block
	n       int
}

func (p *vpPrimary) ChainID() string { return vpChain }
func (p *vpPrimary) ReportEvidence(ctx context.Context, ev types.Evidence) error { return nil }
func (p *vpPrimary) LightBlock(ctx context.Context, height int64) (*types.LightBlock, error) {
	k := p.n
	p.n++
	if k < len(p.forgeOn) && p.forgeOn[k] {
		if b, ok := p.forged[height]; ok {
			return b, nil
		}
	}
	if b, ok := p.genuine[height]; ok {
		return b, nil
	}
	return nil, provider.ErrLightBlockNotFound
}

// the light client trusts height 3 and is asked for height 1; the primary may answer any request
// with a forged (validly self-signed, but not part of the hash chain) block.
func VP_C09_Backwards() {
	base := int64(1700000000)
	vals := types.NewValidatorSet(vpValSet([]int{0, 1, 2}, 10).Validators)
	all, idx := []bool{true, true, true}, []int{0, 1, 2}
	mk := func(h int64, prev *types.Header, tag string) *types.LightBlock {
		hd := vpHeader(vpChain, h, time.Unix(base+10*h, 0).UTC(), vals, vals)
		hd.DataHash = tmhash.Sum([]byte(tag))
		if prev != nil {
			hd.LastBlockID = types.BlockID{Hash: prev.Hash(), PartSetHeader: types.PartSetHeader{Total: 1, Hash: tmhash.Sum([]byte("parts"))}}
		}
		return &types.LightBlock{SignedHeader: &types.SignedHeader{Header: hd, Commit: vpCommit(vpChain, hd, vals, idx, all)}, ValidatorSet: vals}
	}
	g1 := mk(1, nil, "g1")
	g2 := mk(2, g1.Header, "g2")
	g3 := mk(3, g2.Header, "g3")
	f1 := mk(1, nil, "forged-1")
	f2 := mk(2, f1.Header, "forged-2")
	prim := &vpPrimary{genuine: map[int64]*types.LightBlock{1: g1, 2: g2, 3: g3}, forged: map[int64]*types.LightBlock{1: f1, 2: f2}}
	for k := 0; k < 4; k++ {
		prim.forgeOn = append(prim.forgeOn, vp.Choice("forge-this-answer", 2) == 1)
	}
	store := dbs.New(dbm.NewMemDB(), vpChain)
	if err := store.SaveLightBlock(g3); err != nil {
		panic(err)
	}
	c := &Client{chainID: vpChain, trustingPeriod: time.Hour, verificationMode: sequential, trustLevel: DefaultTrustLevel, maxClockDrift: 10 * time.Second,
		maxBlockLag: 10 * time.Second, primary: prim, witnesses: []provider.Provider{&vpWitness{kind: 2}}, trustedStore: store, latestTrustedBlock: g3,
		logger: log.NewNopLogger(), confirmationFn: func(string) bool { return true }, quit: make(chan struct{})}
	_, err := c.VerifyLightBlockAtHeight(context.Background(), 1, time.Unix(base+100, 0).UTC())
	stored, serr := store.LightBlock(1)
	if err == nil {
		vp.Reach("verified")
	} else {
		vp.Reach("refused")
	}
	if serr == nil {
		vp.Reach("stored")
		vp.Assert(bytes.Equal(stored.Hash(), g2.LastBlockID.Hash), "C09.client.stored-header-is-the-one-linked-by-hash-to-the-trusted-header")
	}
}

// ---------------------------------------------------------------- C09-H4: forward skipping verification with a faulty primary

// vpScripted answers the k-th request according to the harness' choice.
type vpScripted struct {
	genuine map[int64]*types.LightBlock
	forged  map[int64]*types.LightBlock // well-formed blocks signed by a made-up validator set
	future  map[int64]*types.LightBlock // headers with a time from the future
	script  []int                       // per request: 0 genuine, 1 forged, 2 future-dated, 3 no response
	n       int
}

func (p *vpScripted) ChainID() string { return vpChain }
func (p *vpScripted) ReportEvidence(ctx context.Context, ev types.Evidence) error { return nil }
func (p *vpScripted) LightBlock(ctx context.Context, height int64) (*types.LightBlock, error) {
	k := p.n
	p.n++
	kind := 0
	if k < len(p.script) {
		kind = p.script[k]
	}
	src := p.genuine
	switch kind {
	case 1:
		src = p.forged
	case 2:
		src = p.future
	case 3:
		return nil, provider.ErrNoResponse
	}
	if b, ok := src[height]; ok {
		return b, nil
	}
	if b, ok := p.genuine[height]; ok {
		return b, nil
	}
	return nil, provider.ErrLightBlockNotFound
}

// The client trusts height 1; the validator set is replaced completely between heights 2 and 3, so
// height 3 needs the pivot 2. The primary answers each of its first requests genuinely, with a forged
// block, with a future-dated header or not at all; two honest witnesses serve the genuine chain.
// Whatever happens, only genuine blocks end up trusted.
func VP_C09_ForwardFaultyPrimary() {
	vp.Opt("sched", 0)
	base := int64(1700000000)
	nv := func(idx []int) *types.ValidatorSet { return types.NewValidatorSet(vpValSet(idx, 10).Validators) }
	v1, v2, fake := nv([]int{0, 1, 2}), nv([]int{3, 4, 5}), nv([]int{6, 7, 8})
	all := []bool{true, true, true}
	mk := func(h int64, t int64, vals, next *types.ValidatorSet, keys []int, prev *types.Header, tag string) *types.LightBlock {
		hd := vpHeader(vpChain, h, time.Unix(t, 0).UTC(), vals, next)
		hd.DataHash = tmhash.Sum([]byte(tag))
		if prev != nil {
			hd.LastBlockID = types.BlockID{Hash: prev.Hash(), PartSetHeader: types.PartSetHeader{Total: 1, Hash: tmhash.Sum([]byte("parts"))}}
		}
		return &types.LightBlock{SignedHeader: &types.SignedHeader{Header: hd, Commit: vpCommit(vpChain, hd, vals, keys, all)}, ValidatorSet: vals}
	}
	g1 := mk(1, base+10, v1, v1, []int{0, 1, 2}, nil, "g1")
	g2 := mk(2, base+20, v1, v2, []int{0, 1, 2}, g1.Header, "g2")
	g3 := mk(3, base+30, v2, v2, []int{3, 4, 5}, g2.Header, "g3")
	genuine := map[int64]*types.LightBlock{1: g1, 2: g2, 3: g3}
	forged := map[int64]*types.LightBlock{2: mk(2, base+20, fake, fake, []int{6, 7, 8}, g1.Header, "f2"), 3: mk(3, base+30, fake, fake, []int{6, 7, 8}, g2.Header, "f3")}
	future := map[int64]*types.LightBlock{2: mk(2, base+100000, fake, fake, []int{6, 7, 8}, g1.Header, "late2"), 3: mk(3, base+100000, fake, fake, []int{6, 7, 8}, g2.Header, "late3")}
	prim := &vpScripted{genuine: genuine, forged: forged, future: future}
	for k := 0; k < 3; k++ {
		prim.script = append(prim.script, vp.Choice("primary-answer", 4))
	}
	store := dbs.New(dbm.NewMemDB(), vpChain)
	if err := store.SaveLightBlock(g1); err != nil {
		panic(err)
	}
	w1, w2 := &vpScripted{genuine: genuine}, &vpScripted{genuine: genuine}
	c := &Client{chainID: vpChain, trustingPeriod: time.Hour, verificationMode: skipping, trustLevel: DefaultTrustLevel, maxClockDrift: 10 * time.Second,
		maxBlockLag: 10 * time.Second, maxRetryAttempts: 1, pruningSize: 1000, primary: prim, witnesses: []provider.Provider{w1, w2}, trustedStore: store, latestTrustedBlock: g1,
		logger: log.NewNopLogger(), confirmationFn: func(string) bool { return true }, quit: make(chan struct{})}
	got, err := c.VerifyLightBlockAtHeight(context.Background(), 3, time.Unix(base+60, 0).UTC())
	if err == nil {
		vp.Reach("verified")
		vp.Assert(bytes.Equal(got.Hash(), g3.Hash()), "C09.forward.block-returned-as-verified-is-the-genuine-one")
	} else {
		vp.Reach("refused?")
	}
	for h := int64(2); h <= 3; h++ {
		if b, serr := store.LightBlock(h); serr == nil {
			vp.Assert(bytes.Equal(b.Hash(), genuine[h].Hash()), "C09.forward.only-verified-blocks-enter-the-trusted-store")
		}
	}
	vp.Settle()
}

// ---------------------------------------------------------------- C09-H3b: a witness that is behind the primary

type vpLagging struct {
	first, second *types.LightBlock // its latest block when asked the first / the second time
	n             int
}

func (w *vpLagging) ChainID() string { return vpChain }
func (w *vpLagging) ReportEvidence(ctx context.Context, ev types.Evidence) error { return nil }
func (w *vpLagging) LightBlock(ctx context.Context, height int64) (*types.LightBlock, error) {
	if height != 0 {
		return nil, provider.ErrHeightTooHigh
	}
	w.n++
	if w.n == 1 {
		return w.first, nil
	}
	return w.second, nil
}

// The witness does not have the primary's height yet.  Block time grows strictly with height, so a
// witness block *below* that height whose time is not before the primary header's time proves the
// primary's header cannot be on the witness's chain: that must be reported as a conflict, at the first
// look or after the wait; otherwise the witness is merely too far behind.
func VP_C09_LaggingWitness() {
	base := int64(1700000000)
	vals := types.NewValidatorSet(vpValSet([]int{0, 1, 2}, 10).Validators)
	all, idx := []bool{true, true, true}, []int{0, 1, 2}
	mk := func(h int64, t time.Time) *types.LightBlock {
		hd := vpHeader(vpChain, h, t, vals, vals)
		return &types.LightBlock{SignedHeader: &types.SignedHeader{Header: hd, Commit: vpCommit(vpChain, hd, vals, idx, all)}, ValidatorSet: vals}
	}
	target := mk(5, time.Unix(base+50, 0).UTC())
	d1, d2 := vp.Int64("first-latest-time-offset"), vp.Int64("second-latest-time-offset")
	vp.Assume(vp.And(d1 >= -3, d1 <= 3, d2 >= d1, d2 <= 3))
	w := &vpLagging{first: mk(3, time.Unix(base+50+d1, 0).UTC()), second: mk(4, time.Unix(base+50+d2, 0).UTC())}
	c := &Client{chainID: vpChain, trustingPeriod: time.Hour, trustLevel: DefaultTrustLevel, maxClockDrift: time.Second, maxBlockLag: time.Second,
		logger: log.NewNopLogger(), confirmationFn: func(string) bool { return true }, quit: make(chan struct{})}
	errc := make(chan error, 1)
	c.compareNewHeaderWithWitness(context.Background(), errc, target.SignedHeader, w, 0)
	err := <-errc
	_, conflict := err.(errConflictingHeaders)
	vp.Assert(conflict == (d1 >= 0 || d2 >= 0), "C09.detector.lower-witness-block-with-a-time-not-before-the-primary's-is-a-conflict")
	if !conflict {
		vp.Reach("too-far-behind")
		vp.Assert(err == provider.ErrNoResponse, "C09.detector.a-witness-merely-behind-is-no-confirmation")
	} else {
		vp.Reach("conflict")
	}
}
