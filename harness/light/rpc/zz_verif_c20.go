//go:build verif

package rpc

import (
	"bytes"
	"context"
	"errors"
	"time"

	abci "github.com/tendermint/tendermint/abci/types"
	"github.com/tendermint/tendermint/crypto/ed25519"
	"github.com/tendermint/tendermint/crypto/merkle"
	tmbytes "github.com/tendermint/tendermint/libs/bytes"
	tmcrypto "github.com/tendermint/tendermint/proto/tendermint/crypto"
	"github.com/tendermint/tendermint/crypto/tmhash"
	vp "github.com/tendermint/tendermint/internal/verifvp"
	tmversion "github.com/tendermint/tendermint/proto/tendermint/version"
	rpcclient "github.com/tendermint/tendermint/rpc/client"
	ctypes "github.com/tendermint/tendermint/rpc/core/types"
	sm "github.com/tendermint/tendermint/state"
	tmstate "github.com/tendermint/tendermint/proto/tendermint/state"
	"github.com/tendermint/tendermint/types"
	"github.com/tendermint/tendermint/version"
)

const vpChain = "vp-chain"

// vpChainData: a little chain whose header hashes are the genuine functions of its content.
type vpChainData struct {
	vals    *types.ValidatorSet
	blocks  map[int64]*types.Block
	ids     map[int64]types.BlockID
	results map[int64][]*abci.ResponseDeliverTx
	light   map[int64]*types.LightBlock
}

func vpMakeChain() *vpChainData {
	k := ed25519.GenPrivKeyFromSecret([]byte("c20"))
	vals := types.NewValidatorSet([]*types.Validator{types.NewValidator(k.PubKey(), 10)})
	c := &vpChainData{vals: vals, blocks: map[int64]*types.Block{}, ids: map[int64]types.BlockID{}, results: map[int64][]*abci.ResponseDeliverTx{}, light: map[int64]*types.LightBlock{}}
	lastCommit := types.NewCommit(0, 0, types.BlockID{}, nil)
	var lastID types.BlockID
	lastResults := []byte(nil)
	txsAt := map[int64][]types.Tx{1: {{0x11}, {0x12, 0x13}}, 2: {{0x21}, {0x22}, {0x23}}, 3: {}}
	for h := int64(1); h <= 3; h++ {
		b := types.MakeBlock(h, txsAt[h], lastCommit, nil)
		b.Header.Version = tmversion.Consensus{Block: version.BlockProtocol}
		b.Header.ChainID = vpChain
		b.Header.Time = time.Date(2022, 1, 1, 0, 0, int(h), 0, time.UTC)
		b.Header.LastBlockID = lastID
		b.Header.ValidatorsHash, b.Header.NextValidatorsHash = vals.Hash(), vals.Hash()
		b.Header.ConsensusHash = types.HashConsensusParams(*types.DefaultConsensusParams())
		b.Header.LastResultsHash = lastResults
		b.Header.AppHash = vpAppRoot()
		b.Header.ProposerAddress = vals.Validators[0].Address
		ps := b.MakePartSet(65536)
		id := types.BlockID{Hash: b.Hash(), PartSetHeader: ps.Header()}
		sig := types.CommitSig{BlockIDFlag: types.BlockIDFlagCommit, ValidatorAddress: vals.Validators[0].Address, Timestamp: b.Header.Time, Signature: []byte("sig")}
		commit := types.NewCommit(h, 0, id, []types.CommitSig{sig})
		var res []*abci.ResponseDeliverTx
		for i := range txsAt[h] {
			res = append(res, &abci.ResponseDeliverTx{Code: uint32(i % 2), Data: []byte{byte(h), byte(i)}, GasWanted: 1, GasUsed: 1})
		}
		// the chain commits to the DeliverTx results of block h in the header of block h+1, exactly as the node does
		lastResults = sm.ABCIResponsesResultsHash(&tmstate.ABCIResponses{DeliverTxs: res})
		c.blocks[h], c.ids[h], c.results[h] = b, id, res
		c.light[h] = &types.LightBlock{SignedHeader: &types.SignedHeader{Header: &b.Header, Commit: commit}, ValidatorSet: vals}
		lastCommit, lastID = commit, id
	}
	return c
}

// vpLC is the light client: it returns *the* verified light block of the requested height (C09 contract).
type vpLC struct{ c *vpChainData }

func (l vpLC) ChainID() string { return vpChain }
func (l vpLC) Update(ctx context.Context, now time.Time) (*types.LightBlock, error) {
	return l.c.light[3], nil
}
func (l vpLC) VerifyLightBlockAtHeight(ctx context.Context, h int64, now time.Time) (*types.LightBlock, error) {
	if b, ok := l.c.light[h]; ok {
		return b, nil
	}
	return nil, errors.New("no such height")
}
func (l vpLC) TrustedLightBlock(h int64) (*types.LightBlock, error) {
	return l.VerifyLightBlockAtHeight(context.Background(), h, time.Time{})
}

// vpNext is the full node behind the verifying client; `tamper` selects what it falsifies.
type vpNext struct {
	rpcclient.Client
	c      *vpChainData
	tamper int
	sub    int
}

func (n *vpNext) Block(ctx context.Context, height *int64) (*ctypes.ResultBlock, error) {
	h := *height
	b, id := n.c.blocks[h], n.c.ids[h]
	switch n.tamper {
	case 1: // another block's body under this block's header (through the wire format)
		pb, _ := b.ToProto()
		var txs types.Txs
		switch n.sub {
		case 0: // other transactions
			txs = types.Txs{{0x66}}
		case 1: // every transaction withheld
			txs = nil
		case 2: // the last transaction withheld
			txs = append(types.Txs{}, b.Data.Txs[:len(b.Data.Txs)-1]...)
		case 3: // one more transaction
			txs = append(append(types.Txs{}, b.Data.Txs...), types.Tx{0x66})
		}
		pb.Data.Txs = nil
		for _, tx := range txs {
			pb.Data.Txs = append(pb.Data.Txs, tx)
		}
		nb, err := types.BlockFromProto(pb)
		if err != nil {
			nb = &types.Block{Header: b.Header, Data: types.Data{Txs: txs}, LastCommit: b.LastCommit}
		}
		return &ctypes.ResultBlock{BlockID: id, Block: nb}, nil
	case 2: // a self-consistent block that is not the verified one
		o := *b
		o.Header.AppHash = []byte("forged")
		ob := &types.Block{Header: o.Header, Data: b.Data, Evidence: b.Evidence, LastCommit: b.LastCommit}
		return &ctypes.ResultBlock{BlockID: types.BlockID{Hash: ob.Hash(), PartSetHeader: id.PartSetHeader}, Block: ob}, nil
	}
	return &ctypes.ResultBlock{BlockID: id, Block: b}, nil
}
func (n *vpNext) BlockByHash(ctx context.Context, hash []byte) (*ctypes.ResultBlock, error) {
	for h, id := range n.c.ids {
		if bytes.Equal(id.Hash, hash) {
			return n.Block(ctx, &h)
		}
	}
	return nil, errors.New("not found")
}
func (n *vpNext) BlockResults(ctx context.Context, height *int64) (*ctypes.ResultBlockResults, error) {
	h := *height
	res := n.c.results[h]
	if n.tamper == 3 && len(res) > 0 {
		switch n.sub {
		case 0: // one result's code changed to anything else
			cp := *res[0]
			cp.Code = vp.Uint32("forged-code")
			vp.Assume(cp.Code != res[0].Code)
			res = append([]*abci.ResponseDeliverTx{&cp}, res[1:]...)
		case 1: // every result withheld
			res = nil
		case 2: // the last result withheld
			res = res[:len(res)-1]
		case 3: // one result twice
			res = append(append([]*abci.ResponseDeliverTx{}, res...), res[len(res)-1])
		case 4: // results in another order (when they differ)
			if len(res) >= 2 {
				res = append([]*abci.ResponseDeliverTx{res[1], res[0]}, res[2:]...)
			} else {
				res = nil
			}
		case 5: // one result's data changed
			cp := *res[0]
			cp.Data = append(append([]byte{}, cp.Data...), vp.Byte("forged-data"))
			res = append([]*abci.ResponseDeliverTx{&cp}, res[1:]...)
		case 6: // one result's gas used changed
			cp := *res[0]
			cp.GasUsed = vp.Int64("forged-gas-used")
			vp.Assume(cp.GasUsed != res[0].GasUsed)
			res = append([]*abci.ResponseDeliverTx{&cp}, res[1:]...)
		case 7: // one result's gas wanted changed
			cp := *res[0]
			cp.GasWanted = vp.Int64("forged-gas-wanted")
			vp.Assume(cp.GasWanted != res[0].GasWanted)
			res = append([]*abci.ResponseDeliverTx{&cp}, res[1:]...)
		}
	}
	return &ctypes.ResultBlockResults{Height: h, TxsResults: res,
		BeginBlockEvents: []abci.Event{{Type: "begin"}}, EndBlockEvents: []abci.Event{{Type: "end"}}}, nil
}
func (n *vpNext) Tx(ctx context.Context, hash []byte, prove bool) (*ctypes.ResultTx, error) {
	for h, b := range n.c.blocks {
		for i, tx := range b.Data.Txs {
			if !bytes.Equal(tx.Hash(), hash) {
				continue
			}
			// what rpc/core.Tx does on an honest node
			r := &ctypes.ResultTx{Hash: tx.Hash(), Height: h, Index: uint32(i), TxResult: *n.c.results[h][i], Tx: tx}
			if prove {
				r.Proof = b.Data.Txs.Proof(i)
			}
			switch n.tamper {
			case 4: // other transaction bytes next to a valid proof
				r.Tx = types.Tx{0x77}
			case 5: // valid proof of another transaction of the block
				r.Proof = b.Data.Txs.Proof((i + 1) % len(b.Data.Txs))
			case 6: // wrong position
				r.Index = uint32(i + 1)
			case 7: // the proof's own data replaced
				r.Proof.Data = types.Tx{0x78}
			case 8: // position and proof index both moved by the same arbitrary amount (e.g. one past the end)
				d := vp.Int64("index-shift")
				vp.Assume(d != 0 && d >= -3 && d <= 3 && int64(i)+d >= 0)
				r.Index = uint32(int64(i) + d)
				r.Proof.Proof.Index = int64(i) + d
			}
			return r, nil
		}
	}
	return nil, errors.New("tx not found")
}

// the application's store: two key/value pairs under a simple Merkle tree of ValueOp leaves; its root is the app hash of every header
var vpKeys = [][]byte{{'K'}, {'q'}}
var vpVals = [][]byte{{0x01}, {0x02}}

func vpKVLeaf(k, v []byte) []byte {
	vh := tmhash.Sum(v)
	bz := append([]byte{byte(len(k))}, k...)
	bz = append(bz, byte(len(vh)))
	return append(bz, vh...)
}
func vpAppProofs() ([]byte, []*merkle.Proof) {
	return merkle.ProofsFromByteSlices([][]byte{vpKVLeaf(vpKeys[0], vpVals[0]), vpKVLeaf(vpKeys[1], vpVals[1])})
}
func vpAppRoot() []byte { r, _ := vpAppProofs(); return r }

func (n *vpNext) ABCIQueryWithOptions(ctx context.Context, path string, data tmbytes.HexBytes, opts rpcclient.ABCIQueryOptions) (*ctypes.ResultABCIQuery, error) {
	_, proofs := vpAppProofs()
	key, val, opKey := vpKeys[0], vpVals[0], vpKeys[0]
	switch n.tamper {
	case 1: // another value under the genuine proof
		val = []byte{vp.Byte("wrong-value")}
		vp.Assume(val[0] != vpVals[0][0])
	case 2: // the genuine proof of the stored key presented as the answer for another key (one symbolic letter)
		kb := vp.Byte("other-key")
		vp.Assume((kb >= 'a' && kb <= 'z' || kb >= 'A' && kb <= 'Z') && kb != vpKeys[0][0])
		key = []byte{kb}
	case 3: // key and operator key both renamed
		kb := vp.Byte("other-key")
		vp.Assume((kb >= 'a' && kb <= 'z' || kb >= 'A' && kb <= 'Z') && kb != vpKeys[0][0])
		key, opKey = []byte{kb}, []byte{kb}
	}
	op := merkle.NewValueOp(opKey, proofs[0]).ProofOp()
	return &ctypes.ResultABCIQuery{Response: abci.ResponseQuery{Key: key, Value: val, Height: 1, ProofOps: &tmcrypto.ProofOps{Ops: []tmcrypto.ProofOp{op}}}}, nil
}

// C20: honest answers are relayed; a falsified answer is refused.
func vpC20(method int) {
	c := vpMakeChain()
	tamper := 0
	honest := vp.Choice("backend", 2) == 0
	next := &vpNext{c: c}
	cl := NewClient(next, vpLC{c})
	ctx := context.Background()
	h := int64(vp.Range("height", 1, 2))
	switch method {
	case 0:
		if !honest {
			tamper = 1 + vp.Choice("tamper-block", 2)
			if tamper == 1 {
				next.sub = vp.Choice("tamper-body", 4)
			}
		}
		next.tamper = tamper
		res, err := cl.Block(ctx, &h)
		vpC20Check(honest, err, "block")
		if err == nil {
			vp.Assert(bytes.Equal(res.Block.Hash(), c.ids[h].Hash) && bytes.Equal(res.Block.Data.Hash(), c.blocks[h].DataHash) && len(res.Block.Data.Txs) == len(c.blocks[h].Data.Txs), "C20.block.relayed-block-is-the-verified-block")
		}
	case 1:
		if !honest {
			tamper = 1 + vp.Choice("tamper-block", 2)
			if tamper == 1 {
				next.sub = vp.Choice("tamper-body", 4)
			}
		}
		next.tamper = tamper
		res, err := cl.BlockByHash(ctx, c.ids[h].Hash)
		vpC20Check(honest, err, "block-by-hash")
		if err == nil {
			vp.Assert(bytes.Equal(res.Block.Hash(), c.ids[h].Hash) && len(res.Block.Data.Txs) == len(c.blocks[h].Data.Txs), "C20.block-by-hash.relayed-block-is-the-verified-block")
		}
	case 2:
		if !honest {
			tamper = 3
			next.sub = vp.Choice("tamper-results", 8)
		}
		next.tamper = tamper
		_, err := cl.BlockResults(ctx, &h)
		vpC20Check(honest, err, "block-results")
	case 3:
		if !honest {
			tamper = 4 + vp.Choice("tamper-tx", 5)
		}
		next.tamper = tamper
		i := vp.Choice("tx-index", 2)
		tx := c.blocks[h].Data.Txs[i]
		res, err := cl.Tx(ctx, tx.Hash(), true)
		vpC20Check(honest, err, "tx")
		if err == nil {
			vp.Assert(bytes.Equal(res.Tx, tx) && res.Index == uint32(i) && res.Height == h, "C20.tx.relayed-transaction-is-the-proven-one")
		}
	case 5:
		if !honest {
			tamper = 1 + vp.Choice("tamper-query", 3)
		}
		next.tamper = tamper
		qc := NewClient(next, vpLC{c}, KeyPathFn(func(path string, key []byte) (merkle.KeyPath, error) {
			return merkle.KeyPath{}.AppendKey(key, merkle.KeyEncodingURL), nil
		}))
		res, err := qc.ABCIQueryWithOptions(ctx, "/store", vpKeys[0], rpcclient.ABCIQueryOptions{})
		vpC20Check(honest, err, "abci-query")
		if err == nil {
			vp.Assert(bytes.Equal(res.Response.Key, vpKeys[0]) && bytes.Equal(res.Response.Value, vpVals[0]), "C20.query.relayed-pair-is-the-proven-one")
		}
	case 4:
		res, err := cl.Commit(ctx, &h)
		vp.Assert(err == nil && bytes.Equal(res.SignedHeader.Hash(), c.ids[h].Hash), "C20.commit.is-the-verified-signed-header")
		v, err := cl.Validators(ctx, &h, nil, nil)
		vp.Assert(err == nil && len(v.Validators) == 1 && bytes.Equal(v.Validators[0].Address, c.vals.Validators[0].Address), "C20.validators.are-the-verified-set")
		vp.Reach("honest-relayed")
		vp.Reach("falsified-refused?")
	}
	// every inclusion proof a full node serves verifies against the block's data hash
	for i := range c.blocks[h].Data.Txs {
		p := c.blocks[h].Data.Txs.Proof(i)
		vp.Assert(p.Validate(c.blocks[h].DataHash) == nil && int(p.Proof.Index) == i, "C20.proofs-served-by-a-full-node-verify-against-the-data-hash")
	}
	_ = tmhash.Size
}

func vpC20Check(honest bool, err error, what string) {
	if honest {
		vp.Reach("honest-relayed")
		vp.Assert(err == nil, "C20.honest-answer-is-relayed")
	} else {
		vp.Reach("falsified-refused?")
		vp.Assert(err != nil, "C20.falsified-answer-is-refused")
	}
}

func VP_C20_Block()        { vpC20(0) }
func VP_C20_BlockByHash()  { vpC20(1) }
func VP_C20_BlockResults() { vpC20(2) }
func VP_C20_Tx()           { vpC20(3) }
func VP_C20_CommitVals()   { vpC20(4) }
func VP_C20_ABCIQuery()    { vpC20(5) }
