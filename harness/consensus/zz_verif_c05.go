//go:build verif

package consensus

import (
	"bytes"
	"fmt"
	"time"

	dbm "github.com/tendermint/tm-db"

	abci "github.com/tendermint/tendermint/abci/types"
	cfg "github.com/tendermint/tendermint/config"
	cstypes "github.com/tendermint/tendermint/consensus/types"
	"github.com/tendermint/tendermint/crypto/ed25519"
	cryptoenc "github.com/tendermint/tendermint/crypto/encoding"
	vp "github.com/tendermint/tendermint/internal/verifvp"
	"github.com/tendermint/tendermint/libs/log"
	tmproto "github.com/tendermint/tendermint/proto/tendermint/types"
	"github.com/tendermint/tendermint/proxy"
	sm "github.com/tendermint/tendermint/state"
	"github.com/tendermint/tendermint/store"
	"github.com/tendermint/tendermint/types"
)

// ---------------------------------------------------------------- crash-prone storage

// every database write is a possible crash point (a batch is applied atomically, as goleveldb does)
type vpCrashDB struct{ dbm.DB }

func (d vpCrashDB) Set(k, v []byte) error     { vp.CrashNow("db.Set"); return d.DB.Set(k, v) }
func (d vpCrashDB) SetSync(k, v []byte) error { vp.CrashNow("db.SetSync"); return d.DB.SetSync(k, v) }
func (d vpCrashDB) Delete(k []byte) error     { vp.CrashNow("db.Delete"); return d.DB.Delete(k) }
func (d vpCrashDB) DeleteSync(k []byte) error {
	vp.CrashNow("db.DeleteSync")
	return d.DB.DeleteSync(k)
}
func (d vpCrashDB) NewBatch() dbm.Batch { return &vpCrashBatch{Batch: d.DB.NewBatch()} }

type vpCrashBatch struct{ dbm.Batch }

func (b *vpCrashBatch) Write() error     { vp.CrashNow("batch.Write"); return b.Batch.Write() }
func (b *vpCrashBatch) WriteSync() error { vp.CrashNow("batch.WriteSync"); return b.Batch.WriteSync() }

// ---------------------------------------------------------------- the recording application

// vpRecApp keeps its committed height and hash across crashes (as an application with its own
// database does) and loses the block in progress. Every call is a possible crash point, and it
// checks the C05 call discipline itself.
type vpRecApp struct {
	abci.BaseApplication
	w *vpC05World
	// persistent
	height     int64
	hash       []byte
	initChains int
	// volatile
	inBlock  int64
	ended    bool
	txs      [][]byte
	journal  []string
	executed map[int64]int // height -> number of commits on the app
}

func (a *vpRecApp) crash() {
	a.inBlock, a.ended, a.txs = 0, false, nil
}

func (a *vpRecApp) Info(abci.RequestInfo) abci.ResponseInfo {
	return abci.ResponseInfo{LastBlockHeight: a.height, LastBlockAppHash: a.hash}
}

func (a *vpRecApp) InitChain(req abci.RequestInitChain) abci.ResponseInitChain {
	vp.CrashNow("app.InitChain")
	vp.Assert(a.height == 0, "C05.app.init-chain-only-while-the-app-has-committed-no-block")
	a.initChains++
	a.journal = append(a.journal, "init")
	return abci.ResponseInitChain{}
}

func (a *vpRecApp) BeginBlock(req abci.RequestBeginBlock) abci.ResponseBeginBlock {
	vp.CrashNow("app.BeginBlock")
	h := req.Header.Height
	vp.Assert(a.inBlock == 0, "C05.app.begin-block-not-inside-another-block")
	vp.Assert(h > a.height, "C05.app.a-committed-block-is-never-executed-again")
	vp.Assert(h == a.height+1, "C05.app.no-height-is-skipped")
	b := a.w.chain[h]
	vp.Assert(b != nil && bytes.Equal(req.Hash, b.Hash()), "C05.app.begin-block-is-for-the-decided-block-of-that-height")
	a.inBlock, a.ended, a.txs = h, false, nil
	a.journal = append(a.journal, fmt.Sprintf("begin %d", h))
	return abci.ResponseBeginBlock{}
}

func (a *vpRecApp) DeliverTx(req abci.RequestDeliverTx) abci.ResponseDeliverTx {
	vp.CrashNow("app.DeliverTx")
	vp.Assert(a.inBlock != 0 && !a.ended, "C05.app.deliver-tx-between-begin-and-end-block")
	a.txs = append(a.txs, req.Tx)
	return abci.ResponseDeliverTx{Code: abci.CodeTypeOK}
}

func (a *vpRecApp) EndBlock(req abci.RequestEndBlock) abci.ResponseEndBlock {
	vp.CrashNow("app.EndBlock")
	vp.Assert(a.inBlock != 0 && req.Height == a.inBlock && !a.ended, "C05.app.end-block-closes-the-block-that-was-begun")
	b := a.w.chain[a.inBlock]
	ok := b != nil && len(b.Txs) == len(a.txs)
	if ok {
		for i := range a.txs {
			ok = ok && bytes.Equal(a.txs[i], b.Txs[i])
		}
	}
	vp.Assert(ok, "C05.app.the-block's-transactions-arrive-in-block-order")
	a.ended = true
	var resp abci.ResponseEndBlock
	if a.w.withJoiner && req.Height == 1 {
		// a second validator with most of the power joins (in force from height 3 on)
		pk, err := cryptoenc.PubKeyToProto(ed25519.GenPrivKeyFromSecret([]byte("c05-joiner")).PubKey())
		if err != nil {
			panic(err)
		}
		resp.ValidatorUpdates = append(resp.ValidatorUpdates, abci.ValidatorUpdate{PubKey: pk, Power: 30})
	}
	if a.w.withUpdates && req.Height == 1 {
		// the validator's power changes and the block size limit with it
		pk, err := cryptoenc.PubKeyToProto(a.w.key.PubKey())
		if err != nil {
			panic(err)
		}
		resp.ValidatorUpdates = []abci.ValidatorUpdate{{PubKey: pk, Power: 11}}
		resp.ConsensusParamUpdates = &abci.ConsensusParams{Block: &abci.BlockParams{MaxBytes: 1 << 20, MaxGas: -1}}
	}
	return resp
}

func (a *vpRecApp) Commit() abci.ResponseCommit {
	vp.CrashNow("app.Commit")
	vp.Assert(a.inBlock != 0 && a.ended, "C05.app.commit-follows-end-block")
	a.height = a.inBlock
	a.hash = []byte{0xA0, byte(a.height), byte(len(a.txs))}
	a.executed[a.height]++
	a.journal = append(a.journal, fmt.Sprintf("commit %d", a.height))
	a.inBlock, a.ended, a.txs = 0, false, nil
	resp := abci.ResponseCommit{Data: a.hash}
	if a.w.withPrune && a.height >= 2 {
		resp.RetainHeight = a.height // everything below the block just committed may go
	}
	return resp
}

// ---------------------------------------------------------------- the node around it

const vpC05Chain = "vp-c05"

type vpC05World struct {
	key         ed25519.PrivKey
	genDoc      *types.GenesisDoc
	blockDB     dbm.DB
	stateDB     dbm.DB
	app         *vpRecApp
	chain       map[int64]*types.Block // the decided block of each height
	withUpdates bool
	withPrune   bool
	withJoiner  bool
	boots       int
}

func vpNewC05World(withUpdates bool) *vpC05World {
	w := &vpC05World{key: ed25519.GenPrivKeyFromSecret([]byte("c05")), chain: map[int64]*types.Block{}, withUpdates: withUpdates}
	w.genDoc = &types.GenesisDoc{
		GenesisTime: time.Date(2022, 1, 1, 0, 0, 0, 0, time.UTC), ChainID: vpC05Chain, InitialHeight: 1, ConsensusParams: types.DefaultConsensusParams(),
		Validators: []types.GenesisValidator{{Address: w.key.PubKey().Address(), PubKey: w.key.PubKey(), Power: 10, Name: "v"}},
	}
	w.blockDB = vpCrashDB{dbm.NewMemDB()}
	w.stateDB = vpCrashDB{dbm.NewMemDB()}
	w.app = &vpRecApp{w: w, executed: map[int64]int{}}
	return w
}

// boot is what node.NewNode does on every start: load the state, handshake with the app, reload,
// and build the consensus State. It asserts the three-way agreement the handshake promises.
func (w *vpC05World) boot() *State {
	w.boots++
	stateStore := sm.NewStore(w.stateDB, sm.StoreOptions{})
	blockStore := store.NewBlockStore(w.blockDB)
	state, err := stateStore.LoadFromDBOrGenesisDoc(w.genDoc)
	if err != nil {
		panic(err)
	}
	proxyApp := proxy.NewAppConns(proxy.NewLocalClientCreator(w.app))
	if err := proxyApp.Start(); err != nil {
		panic(err)
	}
	hs := NewHandshaker(stateStore, state, blockStore, w.genDoc)
	err = hs.Handshake(proxyApp)
	vp.Assert(err == nil, "C05.recover.handshake-succeeds-after-any-crash")
	state, err = stateStore.Load()
	if err != nil {
		panic(err)
	}
	vp.Assert(state.LastBlockHeight == blockStore.Height(), "C05.recover.state-and-block-store-agree-on-height")
	vp.Assert(state.LastBlockHeight == w.app.height, "C05.recover.state-and-application-agree-on-height")
	vp.Assert(bytes.Equal(state.AppHash, w.app.hash) || (w.app.height == 0 && len(w.app.hash) == 0), "C05.recover.state-and-application-agree-on-the-app-hash")
	// what the application answered at the end of block 1 is in the state, whether block 1 was applied
	// by the normal path or re-applied by the handshake after a crash
	if w.withUpdates && state.LastBlockHeight >= 1 {
		vp.Assert(state.ConsensusParams.Block.MaxBytes == 1<<20 && state.LastHeightConsensusParamsChanged == 2,
			"C05.recover.state-carries-the-parameter-updates-the-application-returned-for-the-block")
		vp.Assert(state.NextValidators.Validators[0].VotingPower == 11 && state.LastHeightValidatorsChanged == 3,
			"C05.recover.state-carries-the-validator-updates-the-application-returned-for-the-block")
	}
	// C18: whatever the block store still holds, the state store can serve
	if base := blockStore.Base(); base > 0 {
		for h := base; h <= blockStore.Height(); h++ {
			vp.Assert(blockStore.LoadBlockMeta(h) != nil, "C18.recover.every-height-between-base-and-height-has-its-block")
			_, verr := stateStore.LoadValidators(h)
			vp.Assert(verr == nil, "C18.recover.state-store-has-the-validator-set-of-every-stored-block")
			_, perr := stateStore.LoadConsensusParams(h)
			vp.Assert(perr == nil, "C18.recover.state-store-has-the-parameters-of-every-stored-block")
		}
	}
	blockExec := sm.NewBlockExecutor(stateStore, log.NewNopLogger(), proxyApp.Consensus(), emptyMempool{}, sm.EmptyEvidencePool{})
	cs := NewState(cfg.DefaultConsensusConfig(), state, blockExec, blockStore, emptyMempool{}, sm.EmptyEvidencePool{})
	cs.timeoutTicker = &vpTicker{w: &vpWorld{}}
	cs.SetEventBus(types.NewEventBus()) // not started; publishing is stubbed
	return cs
}

// commitNext lets the real finalizeCommit run for the next height with a block decided by the one validator.
func (w *vpC05World) commitNext(cs *State) {
	h := cs.Height
	block := w.chain[h]
	var parts *types.PartSet
	if block == nil {
		lastCommit := types.NewCommit(0, 0, types.BlockID{}, nil)
		if h > 1 {
			lastCommit = cs.LastCommit.MakeCommit()
		}
		var txs []types.Tx
		for i := int64(0); i < h%3; i++ {
			txs = append(txs, types.Tx{byte(h), byte(i)})
		}
		block, parts = cs.state.MakeBlock(h, txs, lastCommit, nil, cs.Validators.GetProposer().Address)
		w.chain[h] = block
	} else {
		parts = block.MakePartSet(types.BlockPartSizeBytes)
	}
	id := types.BlockID{Hash: block.Hash(), PartSetHeader: parts.Header()}
	cs.ProposalBlock, cs.ProposalBlockParts = block, parts
	// the decision of round 0 may complete (a late precommit) after the node has moved on to round 1
	nodeRound := int32(0)
	if h == 1 {
		nodeRound = int32(vp.Choice("node-round-when-the-decision-completes", 2))
		if nodeRound > 0 {
			cs.Votes.SetRound(nodeRound + 1) // as enterNewRound does
		}
	}
	cs.Round, cs.CommitRound, cs.Step = nodeRound, 0, cstypes.RoundStepCommit
	vote := &types.Vote{Type: tmproto.PrecommitType, Height: h, Round: 0, BlockID: id, Timestamp: block.Time.Add(1e9),
		ValidatorAddress: w.key.PubKey().Address(), ValidatorIndex: 0}
	sig, err := w.key.Sign(types.VoteSignBytes(vpC05Chain, vote.ToProto()))
	if err != nil {
		panic(err)
	}
	vote.Signature = sig
	if added, err := cs.Votes.AddVote(vote, ""); !added || err != nil {
		panic(fmt.Sprint("precommit not added: ", err))
	}
	cs.finalizeCommit(h)
	vp.Assert(cs.Height == h+1, "C05.pipeline.finalize-commit-moves-to-the-next-height")
	maj, ok := cs.LastCommit.TwoThirdsMajority()
	vp.Assert(ok && maj.Equals(id) && cs.LastCommit.GetRound() == 0, "C03.next-height.starts-with-the-precommits-of-the-round-that-decided(so-its-proposer-can-propose)")
}

// C05-H1/H2: n blocks are committed through the real finalizeCommit; up to `crashes` crashes strike at
// any database write or application call (including during recovery); after each crash the node boots
// again (real Handshaker), must find state, block store and application in agreement, and goes on.
func vpC05Pipeline(n int64, crashes int, withUpdates bool) {
	vpC05PipelineOpt(n, crashes, withUpdates, false)
}

func vpC05PipelineOpt(n int64, crashes int, withUpdates bool, withPrune bool) {
	vp.Stub("(*github.com/tendermint/tendermint/libs/pubsub.Server).PublishWithEvents", func() error { return nil })
	w := vpNewC05World(withUpdates)
	w.withPrune = withPrune
	vp.CrashPoints(crashes)
	var cs *State
	for w.app.height < n {
		vp.Assert(w.boots <= crashes+1, "C05.recover.every-restart-is-caused-by-a-crash")
		func() {
			defer func() {
				if rec := recover(); rec != nil {
					if !vp.Crashed() {
						panic(rec)
					}
					vp.Reach("crashed?")
					vp.Reboot()
					w.app.crash()
					cs = nil
				}
			}()
			if cs == nil {
				cs = w.boot()
			}
			w.commitNext(cs)
		}()
	}
	vp.CrashPoints(0)
	// the journal: one commit per height, in order
	for h := int64(1); h <= n; h++ {
		vp.Assert(w.app.executed[h] == 1, "C05.app.each-block-is-committed-on-the-application-exactly-once")
	}
	vp.Assert(w.app.initChains <= 1+crashes, "C05.app.init-chain-repeats-only-after-a-crash-before-the-first-commit")
	vp.Reach("chain-committed")
}

// the application asks for pruning (retain height = the height just committed) from height 2 on
func VP_C05_Pipeline_n4_prune()        { vpC05PipelineOpt(4, 0, true, true) }
func VP_C05_Pipeline_n4_prune_crash1() { vpC05PipelineOpt(4, 1, true, true) }

func VP_C05_Pipeline_n3()        { vpC05Pipeline(3, 0, false) }
func VP_C05_Pipeline_n2_crash1() { vpC05Pipeline(2, 1, false) }
func VP_C05_Pipeline_n3_crash1() { vpC05Pipeline(3, 1, true) }
func VP_C05_Pipeline_n2_crash2() { vpC05Pipeline(2, 2, false) }
func VP_C05_Pipeline_n3_crash2() { vpC05Pipeline(3, 2, true) }

// C13 (hand-over): after block sync stored n blocks (with their seen commits) the switch to
// consensus works: the last commit is rebuilt from what was stored and consensus starts at n+1.
func vpC13Handover(n int64) { vpC13HandoverOpt(n, false) }

// with a validator-set change in flight: the set of the last synced height (which signed the stored
// seen commit) differs from the set of the height consensus starts at
func VP_C13_Handover_n2_setchange() { vpC13HandoverOpt(2, true) }

func vpC13HandoverOpt(n int64, joiner bool) {
	vp.Stub("(*github.com/tendermint/tendermint/libs/pubsub.Server).PublishWithEvents", func() error { return nil })
	w := vpNewC05World(false)
	w.withJoiner = joiner
	cs := w.boot()
	for w.app.height < n {
		w.commitNext(cs)
	}
	// the node that was started in block-sync mode: its consensus State was built from the state it
	// had at start-up (nothing committed), its stores are the ones block sync filled
	stateStore := sm.NewStore(w.stateDB, sm.StoreOptions{})
	blockStore := store.NewBlockStore(w.blockDB)
	genesis, err := sm.MakeGenesisState(w.genDoc)
	if err != nil {
		panic(err)
	}
	latest, err := stateStore.Load()
	if err != nil {
		panic(err)
	}
	vp.Assert(latest.LastBlockHeight == n && blockStore.Height() == n, "C13.handover.harness-synced-n-blocks")
	blockExec := sm.NewBlockExecutor(stateStore, log.NewNopLogger(), nil, emptyMempool{}, sm.EmptyEvidencePool{})
	fresh := NewState(cfg.DefaultConsensusConfig(), genesis, blockExec, blockStore, emptyMempool{}, sm.EmptyEvidencePool{})
	fresh.SetEventBus(types.NewEventBus())
	conR := NewReactor(fresh, true)
	vp.Stub("(*github.com/tendermint/tendermint/libs/service.BaseService).Start", func() error { return nil })
	paniced := ""
	func() {
		defer func() {
			if rec := recover(); rec != nil {
				paniced = fmt.Sprint(rec)
			}
		}()
		conR.SwitchToConsensus(latest, true)
	}()
	vp.Assert(paniced == "", "C13.handover.what-block-sync-stored-lets-consensus-start-without-error")
	vp.Assert(fresh.Height == n+1, "C13.handover.consensus-starts-at-the-next-height")
	if n >= 1 {
		vp.Assert(fresh.LastCommit != nil && fresh.LastCommit.HasTwoThirdsMajority(), "C13.handover.last-commit-is-rebuilt-from-the-stored-seen-commit")
	}
	vp.Reach("switched")
}

func VP_C13_Handover_n0() { vpC13Handover(0) }
func VP_C13_Handover_n1() { vpC13Handover(1) }
func VP_C13_Handover_n2() { vpC13Handover(2) }
