//go:build verif

package types

import (
	"time"

	"github.com/tendermint/tendermint/crypto/ed25519"
	"github.com/tendermint/tendermint/crypto/tmhash"
	vp "github.com/tendermint/tendermint/internal/verifvp"
	tmproto "github.com/tendermint/tendermint/proto/tendermint/types"
	"github.com/tendermint/tendermint/types"
)

// C03 (a node that did not see the decision can still complete it): the decision of round r may rest
// on one vote of an equivocating validator whose other vote this node saw first.  The only way to
// admit the second vote is a peer's claim of a +2/3 majority for that block in that round, in whatever
// round (0..3) this node is by now.  After the claim the conflicting vote is admitted and the
// majority completes.
func VP_C03_ClaimedMajorityAdmitsConflictingVote() {
	const chain = "vp-chain"
	var keys []ed25519.PrivKey
	var vals []*types.Validator
	for i := 0; i < 4; i++ {
		k := ed25519.GenPrivKeyFromSecret([]byte{'h', 'v', byte(i)})
		keys = append(keys, k)
		vals = append(vals, types.NewValidator(k.PubKey(), 1))
	}
	valSet := types.NewValidatorSet(vals)
	keyOf := func(idx int) ed25519.PrivKey {
		for _, k := range keys {
			if string(k.PubKey().Address()) == string(valSet.Validators[idx].Address) {
				return k
			}
		}
		panic("no key")
	}
	hvs := NewHeightVoteSet(chain, 1, valSet)
	cur := int32(vp.Range("node-round", 0, 3))
	for q := int32(1); q <= cur; q++ {
		hvs.SetRound(q) // as enterNewRound does, one round at a time (it tracks q+1 as well; irrelevant here)
	}
	r := int32(vp.Range("vote-round", 0, int(cur)))
	typ := []tmproto.SignedMsgType{tmproto.PrevoteType, tmproto.PrecommitType}[vp.Choice("vote-type", 2)]
	blockB := types.BlockID{Hash: tmhash.Sum([]byte("B")), PartSetHeader: types.PartSetHeader{Total: 1, Hash: tmhash.Sum([]byte("Bp"))}}
	first := types.BlockID{}
	if vp.Choice("first-vote-for", 2) == 1 {
		first = types.BlockID{Hash: tmhash.Sum([]byte("A")), PartSetHeader: types.PartSetHeader{Total: 1, Hash: tmhash.Sum([]byte("Ap"))}}
	}
	mk := func(idx int, bid types.BlockID) *types.Vote {
		v := &types.Vote{Type: typ, Height: 1, Round: r, BlockID: bid, Timestamp: time.Unix(1700000000, 0).UTC(),
			ValidatorAddress: valSet.Validators[idx].Address, ValidatorIndex: int32(idx)}
		sig, err := keyOf(idx).Sign(types.VoteSignBytes(chain, v.ToProto()))
		if err != nil {
			panic(err)
		}
		v.Signature = sig
		return v
	}
	added, err := hvs.AddVote(mk(0, first), "p1")
	vp.Assert(added && err == nil, "C03.T5.first-vote-of-a-validator-is-admitted")
	second := mk(0, blockB)
	added, err = hvs.AddVote(second, "p1")
	vp.Assert(!added && err != nil, "C03.T5.conflicting-vote-without-a-claimed-majority-is-refused")
	err = hvs.SetPeerMaj23(r, typ, "p2", blockB)
	vp.Assert(err == nil, "C03.T5.majority-claim-for-a-round-up-to-the-current-one-is-taken")
	added, _ = hvs.AddVote(second, "p1")
	vp.Assert(added, "C03.T5.conflicting-vote-for-a-block-with-a-claimed-majority-is-admitted(any-round-up-to-the-current-one)")
	for i := 1; i <= 2; i++ {
		added, err = hvs.AddVote(mk(i, blockB), "p1")
		vp.Assert(added && err == nil, "C03.T5.votes-of-the-other-validators-are-admitted")
	}
	vs := hvs.Prevotes(r)
	if typ == tmproto.PrecommitType {
		vs = hvs.Precommits(r)
	}
	bid, ok := vs.TwoThirdsMajority()
	vp.Assert(ok && bid.Equals(blockB), "C03.T5.the-majority-completes-with-the-equivocator's-vote")
	vp.Reach("completed")
}
