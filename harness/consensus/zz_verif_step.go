//go:build verif

package consensus

// One inductive step of the real consensus state machine from a symbolic pre-state (C02, C01-H2/H3,
// C03 lemmas, C17-H3).
//
// The node's RoundState scalars (Round, Step, LockedRound, ValidRound, CommitRound, ...) are symbolic,
// block pointers are chosen among the candidate blocks A, B, C, and the vote sets of the height are
// *summarised*: the queries consensus makes (TwoThirdsMajority / HasTwoThirdsAny / HasAll / POLInfo /
// AddVote) are answered from a symbolic table constrained by the VoteSet contract that C01-H1 proves
// on the real types.VoteSet.  Ghost state records what this validator has signed in every round.
// The pre-state is constrained by the invariant vpINV only; the same invariant is asserted after the
// step (inductiveness) and on the state produced by NewState (base case), so every reachable state
// is covered.  One arbitrary event (vote, proposal, block part, timeout, txs-available) is applied.

import (
	"bytes"
	"time"

	dbm "github.com/tendermint/tm-db"

	cfg "github.com/tendermint/tendermint/config"
	cstypes "github.com/tendermint/tendermint/consensus/types"
	"github.com/tendermint/tendermint/crypto"
	"github.com/tendermint/tendermint/crypto/ed25519"
	vp "github.com/tendermint/tendermint/internal/verifvp"
	"github.com/tendermint/tendermint/libs/log"
	"github.com/tendermint/tendermint/p2p"
	tmproto "github.com/tendermint/tendermint/proto/tendermint/types"
	sm "github.com/tendermint/tendermint/state"
	"github.com/tendermint/tendermint/types"
)

const (
	vpStepChain = "vp-chain"
	vpH         = int64(1) // the height under consideration (the initial height: no LastCommit needed)
	// block codes
	cNone = int8(0)
	cNil  = int8(1)
	cA    = int8(2)
	cB    = int8(3)
	cC    = int8(4)
)

type vpBlockInfo struct {
	block *types.Block
	parts *types.PartSet
	id    types.BlockID
}

type vpSigned struct {
	round int32
	typ   tmproto.SignedMsgType // 0 = proposal
	code  int8
	pol   int32
}

// vpWorld is everything around the State under test.
type vpWorld struct {
	walUnsynced   bool  // something was handed to the WAL and not yet flushed and synced
	pcWaitRound   int32 // ghost: the round for which the latest precommit-wait timeout was scheduled (-1 none)
	lastVoteRound int32 // the vote event applied in this step
	lastVoteType  int
	slice         int               // which part of the pre-state / event space this entry covers (vpSlice*)
	R             int               // rounds 0..R are modelled (R+1 exists as the "next round" consensus tracks)
	keys          []ed25519.PrivKey // validator keys, index = validator index
	cs            *State
	blocks        map[int8]*vpBlockInfo // A, B, C
	valid         map[int8]bool         // verdict of ValidateBlock per block (fixed per path)
	maj           [][2]int8             // maj[r][t]: 0 none, 1 nil, 2.. block codes; t: 0 prevote, 1 precommit
	any           [][2]bool
	all           [][2]bool
	handles       [][2]*types.VoteSet
	pv, pc        []int8 // ghost: what we prevoted / precommitted in round r (cNone = nothing)
	prop          []int8 // ghost: what we proposed in round r
	propPOL       []int32
	signedNow     []vpSigned     // signatures released during the step
	saved         []*types.Block // blocks handed to the block store during the step
	applied       []*types.Block
	timeouts      []timeoutInfo
	ourIdx        int
}

func t01(t tmproto.SignedMsgType) int {
	if t == tmproto.PrecommitType {
		return 1
	}
	return 0
}

func (w *vpWorld) code(id types.BlockID) int8 {
	if len(id.Hash) == 0 {
		return cNil
	}
	for c, b := range w.blocks {
		if b.id.Equals(id) {
			return c
		}
	}
	return -1
}

func (w *vpWorld) codeOfBlock(b *types.Block) int8 {
	if b == nil {
		return cNone
	}
	for c, x := range w.blocks {
		if x.block == b || bytes.Equal(x.block.Hash(), b.Hash()) {
			return c
		}
	}
	return -1
}

func (w *vpWorld) idOf(code int8) types.BlockID {
	if code == cNil || code == cNone {
		return types.BlockID{}
	}
	return w.blocks[code].id
}

// ---------------------------------------------------------------- environment objects

type vpTicker struct{ w *vpWorld }

func (t *vpTicker) Start() error             { return nil }
func (t *vpTicker) Stop() error              { return nil }
func (t *vpTicker) Chan() <-chan timeoutInfo { return nil }
func (t *vpTicker) SetLogger(log.Logger)     {}
func (t *vpTicker) ScheduleTimeout(ti timeoutInfo) {
	t.w.timeouts = append(t.w.timeouts, ti)
	if ti.Step == cstypes.RoundStepPrecommitWait {
		t.w.pcWaitRound = ti.Round
	}
}

// vpWAL records whether everything handed to the WAL so far has been flushed and synced.
type vpWAL struct {
	nilWAL
	w *vpWorld
}

func (l *vpWAL) Write(m WALMessage) error     { l.w.walUnsynced = true; return nil }
func (l *vpWAL) WriteSync(m WALMessage) error { l.w.walUnsynced = false; return nil }
func (l *vpWAL) FlushAndSync() error          { l.w.walUnsynced = false; return nil }

type vpBlockStoreStub struct {
	w      *vpWorld
	height int64
}

func (s *vpBlockStoreStub) Base() int64                              { return 0 }
func (s *vpBlockStoreStub) Height() int64                            { return s.height }
func (s *vpBlockStoreStub) Size() int64                              { return s.height }
func (s *vpBlockStoreStub) LoadBaseMeta() *types.BlockMeta           { return nil }
func (s *vpBlockStoreStub) LoadBlockMeta(h int64) *types.BlockMeta   { return nil }
func (s *vpBlockStoreStub) LoadBlock(h int64) *types.Block           { return nil }
func (s *vpBlockStoreStub) PruneBlocks(h int64) (uint64, error)      { return 0, nil }
func (s *vpBlockStoreStub) LoadBlockByHash(hash []byte) *types.Block { return nil }
func (s *vpBlockStoreStub) LoadBlockPart(h int64, i int) *types.Part { return nil }
func (s *vpBlockStoreStub) LoadBlockCommit(h int64) *types.Commit    { return nil }
func (s *vpBlockStoreStub) LoadSeenCommit(h int64) *types.Commit     { return nil }
func (s *vpBlockStoreStub) SaveBlock(b *types.Block, ps *types.PartSet, seen *types.Commit) {
	w := s.w
	cs := w.cs
	// C01-H2: what is saved is exactly the decided block
	cr := cs.CommitRound
	vp.Assert(cr >= 0 && int(cr) <= w.R+1, "C01.commit.save-only-in-a-commit-round")
	c := w.maj[cr][1]
	vp.Assert(c >= cA, "C01.commit.saved-block-has-two-thirds-precommits-in-the-commit-round")
	vp.Assert(w.codeOfBlock(b) == c, "C01.commit.saved-block-is-the-block-the-precommits-are-for")
	vp.Assert(ps.HasHeader(w.idOf(c).PartSetHeader), "C01.commit.saved-parts-match-the-commit-header")
	vp.Assert(w.valid[c], "C01.commit.saved-block-passed-validation")
	vp.Assert(seen != nil && seen.BlockID.Equals(w.idOf(c)), "C01.commit.seen-commit-is-for-the-saved-block")
	w.saved = append(w.saved, b)
	s.height = b.Height
	vp.Reach("block-saved")
}

// vpSigner is this validator's key. It behaves like FilePV (refuses regressions and conflicting
// re-signing) and checks the justification of every signature consensus asks for (L1-L4).
type vpSigner struct {
	w   *vpWorld
	key ed25519.PrivKey
}

func (s *vpSigner) GetPubKey() (crypto.PubKey, error) { return s.key.PubKey(), nil }

func (s *vpSigner) SignVote(chainID string, v *tmproto.Vote) error {
	w := s.w
	cs := w.cs
	vp.Assert(!w.walUnsynced, "C04.wal.everything-received-is-durable-before-a-vote-is-signed")
	vp.Assert(v.Height == cs.Height, "C02.sign.vote-is-for-the-current-height")
	r := v.Round
	vp.Assert(r >= 0 && int(r) <= w.R+1, "C02.sign.vote-round-in-range")
	bid, err := types.BlockIDFromProto(&v.BlockID)
	if err != nil {
		panic(err)
	}
	code := w.code(*bid)
	vp.Assert(code >= cNil, "C02.sign.vote-is-for-a-known-block-or-nil")
	switch v.Type {
	case tmproto.PrevoteType:
		vp.Reach("prevote-signed")
		// L1: at most one prevote per round
		vp.Assert(w.pv[r] == cNone, "C02.L1.at-most-one-prevote-per-round")
		// L3: after precommitting v at lr, nothing else is prevoted until a later polka for something else
		lr, lv := w.lastPrecommit(r + 1)
		vp.Assert(vp.Implies(vp.And(lv != cNone, lv != code), w.polkaForOtherIn(lr, r, lv)), "C02.L3.prevote-for-something-else-only-after-a-later-polka-for-something-else")
		if code >= cA {
			vp.Assert(w.valid[code] || w.codeOfBlock(cs.LockedBlock) == code, "C02.prevote-for-a-block-only-if-validated-or-locked")
		}
		w.pv[r] = code
	case tmproto.PrecommitType:
		vp.Reach("precommit-signed")
		vp.Assert(w.pc[r] == cNone, "C02.L1.at-most-one-precommit-per-round")
		if code >= cA {
			// L2: only with a polka for exactly that block in that round, and holding the block
			vp.Assert(w.maj[r][0] == code, "C02.L2.precommit-for-a-block-needs-two-thirds-prevotes-for-it-in-that-round")
			holds := w.codeOfBlock(cs.LockedBlock) == code || w.codeOfBlock(cs.ProposalBlock) == code
			vp.Assert(holds, "C02.L2.precommit-for-a-block-only-when-holding-it")
			vp.Assert(w.valid[code] || w.pcBefore(r, code), "C02.L2.precommitted-block-passed-validation")
		}
		w.pc[r] = code
	}
	w.signedNow = append(w.signedNow, vpSigned{round: r, typ: v.Type, code: code})
	v.Signature = []byte("vp-signature")
	return nil
}

// pcBefore: the block was already precommitted (hence validated) in an earlier round.
func (w *vpWorld) pcBefore(r int32, code int8) bool {
	var alts []bool
	for q := int32(0); int(q) < len(w.pc); q++ {
		alts = append(alts, vp.And(q < r, w.pc[q] == code))
	}
	return vp.Or(alts...)
}

func (s *vpSigner) SignProposal(chainID string, p *tmproto.Proposal) error {
	w := s.w
	cs := w.cs
	vp.Reach("proposal-signed")
	vp.Assert(!w.walUnsynced, "C04.wal.everything-received-is-durable-before-a-proposal-is-signed")
	r := p.Round
	vp.Assert(p.Height == cs.Height && r >= 0 && int(r) <= w.R+1, "C02.sign.proposal-for-current-height-and-a-round-in-range")
	vp.Assert(w.prop[r] == cNone, "C02.L4.at-most-one-proposal-per-round")
	vp.Assert(bytes.Equal(cs.Validators.GetProposer().Address, s.key.PubKey().Address()), "C02.L4.only-the-round's-proposer-proposes")
	bid, err := types.BlockIDFromProto(&p.BlockID)
	if err != nil {
		panic(err)
	}
	code := w.code(*bid)
	vp.Assert(code >= cA, "C02.L4.proposal-is-for-a-known-block")
	if cs.ValidBlock != nil {
		vp.Assert(w.codeOfBlock(cs.ValidBlock) == code && p.PolRound == cs.ValidRound, "C03.T4a.valid-block-is-re-proposed-with-its-pol-round")
	} else {
		vp.Assert(p.PolRound == -1, "C02.L4.fresh-proposal-has-no-pol-round")
	}
	w.prop[r] = code
	w.signedNow = append(w.signedNow, vpSigned{round: r, typ: 0, code: code, pol: p.PolRound})
	p.Signature = []byte("vp-signature")
	return nil
}

// ---------------------------------------------------------------- world construction

func vpGenesisState(keys []ed25519.PrivKey) sm.State {
	vals := make([]types.GenesisValidator, len(keys))
	for i, k := range keys {
		vals[i] = types.GenesisValidator{Address: k.PubKey().Address(), PubKey: k.PubKey(), Power: 10, Name: "v"}
	}
	gen := &types.GenesisDoc{
		GenesisTime: time.Date(2022, 1, 1, 0, 0, 0, 0, time.UTC), ChainID: vpStepChain, InitialHeight: vpH,
		ConsensusParams: types.DefaultConsensusParams(), Validators: vals,
	}
	st, err := sm.MakeGenesisState(gen)
	if err != nil {
		panic(err)
	}
	return st
}

func vpNewWorld(R int, ourIdx int) *vpWorld {
	w := &vpWorld{R: R, ourIdx: ourIdx, blocks: map[int8]*vpBlockInfo{}, valid: map[int8]bool{}}
	for i := 0; i < 4; i++ {
		w.keys = append(w.keys, ed25519.GenPrivKeyFromSecret([]byte{'c', 's', byte(i)}))
	}
	state := vpGenesisState(w.keys)
	// candidate blocks (real blocks: distinct transactions give distinct real hashes; single part each)
	for i, c := range []int8{cA, cB, cC} {
		b, ps := state.MakeBlock(vpH, []types.Tx{{byte(0x50 + i)}}, types.NewCommit(0, 0, types.BlockID{}, nil), nil, state.Validators.GetProposer().Address)
		w.blocks[c] = &vpBlockInfo{block: b, parts: ps, id: types.BlockID{Hash: b.Hash(), PartSetHeader: ps.Header()}}
		w.valid[c] = vp.Bool("block-valid")
	}
	w.valid[cC] = true // our own proposal block is built by CreateProposalBlock and validates (C06-H2)
	n := R + 2
	w.maj, w.any, w.all = make([][2]int8, n), make([][2]bool, n), make([][2]bool, n)
	w.handles = make([][2]*types.VoteSet, n)
	w.pv, w.pc, w.prop, w.propPOL = make([]int8, n), make([]int8, n), make([]int8, n), make([]int32, n)
	for r := 0; r < n; r++ {
		w.handles[r][0] = types.NewVoteSet(vpStepChain, vpH, int32(r), tmproto.PrevoteType, state.Validators)
		w.handles[r][1] = types.NewVoteSet(vpStepChain, vpH, int32(r), tmproto.PrecommitType, state.Validators)
	}
	stateStore := sm.NewStore(dbm.NewMemDB(), sm.StoreOptions{})
	blockExec := sm.NewBlockExecutor(stateStore, log.NewNopLogger(), nil, emptyMempool{}, sm.EmptyEvidencePool{})
	config := cfg.DefaultConsensusConfig()
	cs := NewState(config, state, blockExec, &vpBlockStoreStub{w: w}, nil, sm.EmptyEvidencePool{})
	cs.timeoutTicker = &vpTicker{w: w}
	cs.wal = &vpWAL{w: w}
	cs.SetEventBus(types.NewEventBus()) // never started: publishing is stubbed out
	if ourIdx < 4 {
		cs.SetPrivValidator(&vpSigner{w: w, key: w.keys[ourIdx]})
	}
	w.cs = cs
	w.installStubs()
	return w
}

// installStubs replaces the vote-set queries and the block executor by their summaries.
func (w *vpWorld) installStubs() {
	const tp = "(*github.com/tendermint/tendermint/types.VoteSet)."
	const hp = "(*github.com/tendermint/tendermint/consensus/types.HeightVoteSet)."
	const bp = "(*github.com/tendermint/tendermint/state.BlockExecutor)."
	look := func(vs *types.VoteSet) (int, int, bool) {
		if vs == nil {
			return 0, 0, false
		}
		r := int(vs.GetRound())
		if r < 0 || r >= len(w.maj) {
			return 0, 0, false
		}
		return r, t01(tmproto.SignedMsgType(vs.Type())), true
	}
	vp.Stub(tp+"TwoThirdsMajority", func(vs *types.VoteSet) (types.BlockID, bool) {
		r, t, ok := look(vs)
		if !ok || w.maj[r][t] == cNone {
			return types.BlockID{}, false
		}
		return w.idOf(w.maj[r][t]), true
	})
	vp.Stub(tp+"HasTwoThirdsMajority", func(vs *types.VoteSet) bool {
		r, t, ok := look(vs)
		return ok && w.maj[r][t] != cNone
	})
	vp.Stub(tp+"HasTwoThirdsAny", func(vs *types.VoteSet) bool {
		r, t, ok := look(vs)
		return ok && w.any[r][t]
	})
	vp.Stub(tp+"HasAll", func(vs *types.VoteSet) bool {
		r, t, ok := look(vs)
		return ok && w.all[r][t]
	})
	vp.Stub(tp+"StringShort", func(vs *types.VoteSet) string { return "" })
	vp.Stub(tp+"LogString", func(vs *types.VoteSet) string { return "" })
	vp.Stub(tp+"String", func(vs *types.VoteSet) string { return "" })
	vp.Stub(tp+"MakeCommit", func(vs *types.VoteSet) *types.Commit {
		r, t, ok := look(vs)
		if !ok || t != 1 || w.maj[r][1] < cA {
			panic("Cannot MakeCommit() unless a blockhash has +2/3")
		}
		return types.NewCommit(vpH, int32(r), w.idOf(w.maj[r][1]), make([]types.CommitSig, 4))
	})
	get := func(round int32, t int) *types.VoteSet {
		if round < 0 || int(round) >= len(w.handles) {
			return nil
		}
		return w.handles[round][t]
	}
	vp.Stub(hp+"Prevotes", func(h *cstypes.HeightVoteSet, round int32) *types.VoteSet { return get(round, 0) })
	vp.Stub(hp+"Precommits", func(h *cstypes.HeightVoteSet, round int32) *types.VoteSet { return get(round, 1) })
	vp.Stub(hp+"SetRound", func(h *cstypes.HeightVoteSet, round int32) {})
	vp.Stub(hp+"POLInfo", func(h *cstypes.HeightVoteSet) (int32, types.BlockID) {
		for r := len(w.maj) - 1; r >= 0; r-- {
			if w.maj[r][0] != cNone {
				return int32(r), w.idOf(w.maj[r][0])
			}
		}
		return -1, types.BlockID{}
	})
	vp.Stub(hp+"AddVote", func(h *cstypes.HeightVoteSet, vote *types.Vote, peer p2p.ID) (bool, error) {
		r := vote.Round
		if r < 0 || int(r) >= len(w.maj) {
			return false, nil // beyond the modelled rounds: treated as an unwanted round
		}
		t := t01(vote.Type)
		added := vp.Bool("vote-added")
		if !added {
			return false, nil
		}
		vc := w.code(vote.BlockID)
		// VoteSet contract (C01-H1): the majority, once set, never changes; a vote can only complete
		// the majority of its own block; any/all only grow
		if w.maj[r][t] == cNone && (vc < cA || w.valid[vc]) && vp.Bool("vote-completes-majority") {
			w.maj[r][t] = vc
			w.any[r][t] = true
		}
		if !w.any[r][t] {
			w.any[r][t] = vp.Bool("vote-completes-two-thirds-any")
		}
		if !w.all[r][t] && w.any[r][t] {
			w.all[r][t] = vp.Bool("vote-completes-all")
		}
		vp.AssumeAll(w.globalFactParts())
		return true, nil
	})
	vp.Stub("(*github.com/tendermint/tendermint/libs/pubsub.Server).PublishWithEvents", func() error { return nil })
	// the step's name goes into events and logs only
	vp.Stub("(github.com/tendermint/tendermint/consensus/types.RoundStepType).String", func(cstypes.RoundStepType) string { return "step" })
	// metrics only; walks the individual prevotes, which the summary does not contain
	vp.Stub("(*github.com/tendermint/tendermint/consensus.State).calculatePrevoteMessageDelayMetrics", func(cs *State) {})
	vp.Stub(bp+"ValidateBlock", func(be *sm.BlockExecutor, st sm.State, b *types.Block) error {
		c := w.codeOfBlock(b)
		if c >= cA && w.valid[c] {
			return nil
		}
		return types.ErrVoteNil // any error
	})
	vp.Stub(bp+"CreateProposalBlock", func(be *sm.BlockExecutor, h int64, st sm.State, commit *types.Commit, proposer []byte) (*types.Block, *types.PartSet) {
		return w.blocks[cC].block, w.blocks[cC].parts
	})
	vp.Stub(bp+"ApplyBlock", func(be *sm.BlockExecutor, st sm.State, id types.BlockID, b *types.Block) (sm.State, int64, error) {
		vp.Assert(len(w.saved) > 0 && w.saved[len(w.saved)-1] == b, "C01.commit.block-is-saved-before-it-is-executed")
		vp.Assert(id.Equals(w.idOf(w.codeOfBlock(b))), "C01.commit.executed-under-its-own-block-id")
		w.applied = append(w.applied, b)
		st.LastBlockHeight = b.Height
		st.LastBlockID = id
		st.LastBlockTime = b.Time
		st.LastValidators = st.Validators
		return st, 0, nil
	})
}

// ---------------------------------------------------------------- symbolic pre-state

func (w *vpWorld) symCode(name string, max int8) int8 {
	c := vp.Int8(name)
	vp.Assume(vp.And(c >= 0, c <= max))
	return c
}

// symbolicPreState overwrites the RoundState of the freshly constructed State with symbolic values.
func (w *vpWorld) symbolicPreState() {
	cs := w.cs
	R := int32(w.R)
	cs.Round = vp.Int32("Round")
	vp.Assume(vp.And(cs.Round >= 0, cs.Round <= R))
	if w.slice == vpSliceLockFocusTop {
		vp.Assume(cs.Round == R)
	}
	st := vp.Uint8("Step")
	vp.Assume(vp.And(st >= uint8(cstypes.RoundStepNewHeight), st <= uint8(cstypes.RoundStepCommit)))
	cs.Step = cstypes.RoundStepType(st)
	// validators rotate with the round (proposer of round r)
	if cs.Round > 0 {
		v := cs.Validators.Copy()
		v.IncrementProposerPriority(cs.Round)
		cs.Validators = v
	}
	cs.LockedRound = vp.Int32("LockedRound")
	cs.ValidRound = vp.Int32("ValidRound")
	cs.CommitRound = vp.Int32("CommitRound")
	vp.Assume(vp.And(cs.LockedRound >= -1, cs.LockedRound <= R, cs.ValidRound >= -1, cs.ValidRound <= R, cs.CommitRound >= -1, cs.CommitRound <= R+1))
	cs.TriggeredTimeoutPrecommit = vp.Bool("TriggeredTimeoutPrecommit")
	w.pcWaitRound = vp.Int32("precommit-wait-scheduled-for-round")
	vp.Assume(vp.And(w.pcWaitRound >= -1, w.pcWaitRound <= cs.Round))
	pick := func(name string, opts []int8) int8 { return opts[vp.Choice(name, len(opts))] }
	lbOpts, vbOpts, pbOpts, partsOpts := []int8{cNone, cA}, []int8{cNone, cA, cB}, []int8{cNone, cA, cB, cC}, 3
	switch w.slice {
	case vpSliceLocked:
		lbOpts, vbOpts, pbOpts, partsOpts = []int8{cA}, []int8{cA, cB}, []int8{cNone, cA, cB}, 1
	case vpSliceUnlocked:
		lbOpts, partsOpts = []int8{cNone}, 1
	case vpSliceLockFocus, vpSliceLockFocusTop:
		lbOpts, vbOpts, pbOpts, partsOpts = []int8{cA}, []int8{cA}, []int8{cNone, cA}, 1
	case vpSlicePolProposal:
		lbOpts, vbOpts, pbOpts, partsOpts = []int8{cNone}, []int8{cNone}, []int8{cA}, 1
	case vpSliceLockedVsProposal:
		lbOpts, vbOpts, pbOpts, partsOpts = []int8{cA}, []int8{cA}, []int8{cB}, 1
	}
	if lb := pick("LockedBlock", lbOpts); lb != cNone {
		cs.LockedBlock, cs.LockedBlockParts = w.blocks[lb].block, w.blocks[lb].parts
	}
	if vb := pick("ValidBlock", vbOpts); vb != cNone {
		cs.ValidBlock, cs.ValidBlockParts = w.blocks[vb].block, w.blocks[vb].parts
	}
	switch pb := pick("ProposalBlock", pbOpts); pb {
	case cNone:
		switch vp.Choice("ProposalBlockParts", partsOpts) {
		case 1:
			cs.ProposalBlockParts = types.NewPartSetFromHeader(w.blocks[cA].parts.Header())
		case 2:
			cs.ProposalBlockParts = types.NewPartSetFromHeader(w.blocks[cB].parts.Header())
		}
	default:
		cs.ProposalBlock, cs.ProposalBlockParts = w.blocks[pb].block, w.blocks[pb].parts
	}
	// after receipt only Proposal.POLRound (and the timestamp, for metrics) is ever read again: the block it names is irrelevant
	ppOpts := []int8{cNone, cA}
	if w.slice == vpSliceLockFocus || w.slice == vpSliceLockFocusTop {
		ppOpts = []int8{cNone}
	}
	if w.slice == vpSlicePolProposal || w.slice == vpSliceLockedVsProposal {
		ppOpts = []int8{cA}
	}
	if pp := pick("Proposal", ppOpts); pp != cNone {
		pol := vp.Int32("Proposal.POLRound")
		vp.Assume(vp.And(pol >= -1, pol < cs.Round))
		cs.Proposal = types.NewProposal(vpH, cs.Round, pol, w.blocks[pp].id)
	}
	// vote-set summary and ghost
	for r := 0; r < len(w.maj); r++ {
		for t := 0; t < 2; t++ {
			w.maj[r][t] = w.symCode("maj", cC)
			w.any[r][t] = vp.Bool("any")
			w.all[r][t] = vp.Bool("all")
			vp.Assume(vp.And(vp.Or(w.maj[r][t] == cNone, w.any[r][t]), vp.Implies(w.all[r][t], w.any[r][t])))
			// fewer than one third of the power is faulty: a +2/3 majority for a block contains a correct
			// validator, which validated the block before voting for it
			vp.Assume(vp.And(vp.Implies(w.maj[r][t] == cA, w.valid[cA]), vp.Implies(w.maj[r][t] == cB, w.valid[cB])))

		}
		w.pv[r] = w.symCode("pv", cC)
		w.pc[r] = w.symCode("pc", cC)
		w.prop[r] = cNone
		if vp.Bool("proposed") {
			w.prop[r] = cC
		}
	}
}

// globalFacts: consequences of "fewer than one third of the power is faulty" for what any node can
// observe in one height (they are the conclusions of the composition lemma C01-H4):
// (G1) all non-nil precommit majorities of the height are for one block; (G4) after a block got +2/3
// precommits in round r, neither that round nor a later one has a polka for anything else.
func (w *vpWorld) globalFacts() bool { return vp.And(w.globalFactParts()...) }

func (w *vpWorld) globalFactParts() []bool {
	var cj []bool
	for r1 := 0; r1 < len(w.maj); r1++ {
		for r2 := r1; r2 < len(w.maj); r2++ {
			a, b := w.maj[r1][1], w.maj[r2][1]
			if r2 > r1 {
				cj = append(cj, vp.Implies(vp.And(a >= cA, b >= cA), a == b))
			}
			// (r2 == r1: the precommits for a were cast on a polka for a in that very round, and one
			// round cannot have two polkas)
			p := w.maj[r2][0]
			cj = append(cj, vp.Implies(a >= cA, vp.Or(p == cNone, p == a)))
		}
	}
	return cj
}

// column t of the majority table as a slice
func (w *vpWorld) majCol(t int) []int8 {
	out := make([]int8, len(w.maj))
	for r := range w.maj {
		out[r] = w.maj[r][t]
	}
	return out
}

// lastPrecommit: the latest round (< upto) with a non-nil precommit of ours, and its block; (-1, none) if there is none.
func (w *vpWorld) lastPrecommit(upto int32) (int32, int8) {
	lastR, lastV := int32(-1), cNone
	for q := int32(0); int(q) < len(w.pc); q++ {
		nz := vp.And(w.pc[q] >= cA, q < upto)
		lastR = vp.Ite32(nz, q, lastR)
		lastV = vp.Ite8(nz, w.pc[q], lastV)
	}
	return lastR, lastV
}

// polkaForOtherIn: a polka for something other than v was seen in a round in (lo, hi].
func (w *vpWorld) polkaForOtherIn(lo, hi int32, v int8) bool {
	var alts []bool
	for q := int32(0); int(q) < len(w.maj); q++ {
		m := w.maj[q][0]
		alts = append(alts, vp.And(q > lo, q <= hi, m != cNone, m != v))
	}
	return vp.Or(alts...)
}

// vpINV is the representation invariant of (RoundState, vote-set summary, ghost). It is built
// without short-circuit evaluation so that it is one solver term, not a tree of forks.
func (w *vpWorld) inv() bool {
	cj, _ := w.invParts()
	return vp.And(cj...)
}

func (w *vpWorld) invParts() ([]bool, []string) {
	cs := w.cs
	R := int32(w.R)
	if cs.Height != vpH {
		return nil, nil // the height was decided: the next height starts from NewState-like values (checked separately)
	}
	var cj []bool
	var labels []string
	label := "range"
	add := func(b bool) {
		cj = append(cj, b)
		labels = append(labels, label+"#"+string(rune('a'+len(cj)%26))+string(rune('a'+(len(cj)/26)%26)))
	}
	add(cs.Round >= 0)
	add(cs.Round <= R+1)
	lb, vb, pb := w.codeOfBlock(cs.LockedBlock), w.codeOfBlock(cs.ValidBlock), w.codeOfBlock(cs.ProposalBlock)
	majPV, majPC := w.majCol(0), w.majCol(1)
	label = "lock-consistent"
	// --- locks
	add((lb == cNone) == (cs.LockedRound == -1))
	add(cs.LockedRound <= cs.Round)
	add((cs.LockedBlock == nil) == (cs.LockedBlockParts == nil))
	if lb != cNone {
		lr := cs.LockedRound
		add(lr >= 0)
		add(vp.Sel8(w.pc, lr) == lb)
		add(vp.Sel8(majPV, lr) == lb)
		add(cs.LockedBlockParts != nil && cs.LockedBlockParts.HasHeader(w.idOf(lb).PartSetHeader))
	}
	label = "past-precommits-justified"
	// every non-nil precommit of ours had its polka (L2 for the past) and the block was valid
	for q := 0; q < len(w.pc); q++ {
		add(vp.Implies(w.pc[q] >= cA, w.maj[q][0] == w.pc[q]))
		add(vp.Implies(w.pc[q] == cA, w.valid[cA]))
		add(vp.Implies(w.pc[q] == cB, w.valid[cB]))
	}
	label = "lock-is-latest-precommit-or-unlock-polka-seen"
	// the latest non-nil precommit is the current lock, or an unlocking polka was seen since
	lastR, lastV := w.lastPrecommit(R + 2)
	if lb != cNone {
		add(vp.And(lastR == cs.LockedRound, lastV == lb))
	} else {
		add(vp.Implies(lastV != cNone, w.polkaForOtherIn(lastR, cs.Round, lastV)))
	}
	label = "valid-block-consistent"
	// --- valid block
	add((vb == cNone) == (cs.ValidRound == -1))
	add(cs.ValidRound <= cs.Round)
	add((cs.ValidBlock == nil) == (cs.ValidBlockParts == nil))
	if vb != cNone {
		add(cs.ValidRound >= 0)
		add(vp.Sel8(majPV, cs.ValidRound) == vb)
	}
	label = "proposal-consistent"
	// --- proposal
	if cs.Proposal != nil {
		add(vp.And(cs.Proposal.Height == vpH, cs.Proposal.Round == cs.Round, cs.Proposal.POLRound >= -1, cs.Proposal.POLRound < cs.Round))
		add(cs.ProposalBlockParts != nil)
	}
	if pb != cNone {
		add(cs.ProposalBlockParts != nil && cs.ProposalBlockParts.IsComplete() && cs.ProposalBlockParts.HasHeader(w.idOf(pb).PartSetHeader))
	}
	label = "commit-step-consistent"
	// --- commit step
	// (a later round's +2/3-any can move the node out of the commit step while CommitRound stays set)
	add(vp.Implies(cs.Step == cstypes.RoundStepCommit, cs.CommitRound >= 0))
	{
		add(cs.CommitRound <= cs.Round)
		c := vp.Sel8(majPC, cs.CommitRound)
		inCommit := cs.Step == cstypes.RoundStepCommit
		add(vp.Implies(inCommit, c >= cA))
		add(vp.Implies(inCommit, cs.ProposalBlockParts != nil))
		for _, x := range []int8{cA, cB, cC} {
			hasHdr := cs.ProposalBlockParts != nil && cs.ProposalBlockParts.HasHeader(w.idOf(x).PartSetHeader)
			add(vp.Implies(vp.And(inCommit, c == x), hasHdr))
			add(vp.Implies(vp.And(inCommit, c == x), pb == cNone || pb == x))
		}
	}
	label = "nothing-signed-ahead"
	// --- ghost vs position in the round: nothing signed ahead of where we are
	for q := int32(0); int(q) < len(w.pv); q++ {
		ahead := q > cs.Round
		add(vp.Implies(ahead, vp.And(w.pv[q] == cNone, w.pc[q] == cNone, w.prop[q] == cNone)))
		cur := q == cs.Round
		add(vp.Implies(vp.And(cur, cs.Step < cstypes.RoundStepPrevote), w.pv[q] == cNone))
		add(vp.Implies(vp.And(cur, cs.Step < cstypes.RoundStepPrecommit), w.pc[q] == cNone))
		add(vp.Implies(vp.And(cur, cs.Step < cstypes.RoundStepPropose), w.prop[q] == cNone))
	}
	label = "past-prevotes-justified"
	// a prevote for something other than our latest earlier precommit needed the unlocking polka (L3 for the past)
	for q := int32(0); int(q) < len(w.pv); q++ {
		plr, plv := w.lastPrecommit(q)
		add(vp.Implies(vp.And(w.pv[q] != cNone, plv != cNone, plv != w.pv[q]), w.polkaForOtherIn(plr, q, plv)))
	}
	label = "new-height-is-round-0"
	add(vp.Implies(cs.Step == cstypes.RoundStepNewHeight, cs.Round == 0))
	label = "precommit-wait-flag-only-while-its-timeout-is-pending"
	// (C03: the flag suppresses a second precommit-wait timeout in the same round; if it were set for a
	// round whose timeout was never scheduled, the node would sit in that round's precommit step for ever)
	add(vp.Implies(cs.TriggeredTimeoutPrecommit, w.pcWaitRound == cs.Round))
	return cj, labels
}

// ---------------------------------------------------------------- events

func (w *vpWorld) pickBlock(name string, opts []int8) int8 { return opts[vp.Choice(name, len(opts))] }

// applyEvent feeds one arbitrary input to the state machine.
func (w *vpWorld) applyEvent(kind int) string {
	cs := w.cs
	// the receive routine hands every input to the WAL before it is processed; peer messages and
	// timeouts are written without a sync
	w.walUnsynced = true
	R := int32(w.R)
	switch kind {
	case 0: // a vote from a peer (or our own, coming back through the internal queue)
		vh := int64(vpH)
		voteBlocks := []int8{cNil, cA, cB, cC}
		if w.slice == vpSliceFull {
			vh = vpH + int64(vp.Choice("vote-height", 3)) - 1
		} else {
			voteBlocks = []int8{cNil, cA, cB}
		}
		v := &types.Vote{Height: vh, ValidatorIndex: 1, ValidatorAddress: w.keys[1].PubKey().Address()}
		v.Round = vp.Int32("vote.Round")
		vp.Assume(vp.And(v.Round >= 0, v.Round <= R+1))
		if vp.Bool("vote-is-precommit") {
			v.Type = tmproto.PrecommitType
		} else {
			v.Type = tmproto.PrevoteType
		}
		v.BlockID = w.idOf(w.pickBlock("vote-block", voteBlocks))
		w.lastVoteRound, w.lastVoteType = v.Round, t01(v.Type)
		cs.handleMsg(msgInfo{Msg: &VoteMessage{Vote: v}, PeerID: "peer"})
		return "vote"
	case 1: // a timeout that was scheduled earlier
		ti := timeoutInfo{Height: vpH, Round: vp.Int32("timeout.Round")}
		vp.Assume(vp.And(ti.Round >= 0, ti.Round <= cs.Round))
		st := vp.Uint8("timeout.Step")
		vp.Assume(vp.Or(st == uint8(cstypes.RoundStepNewHeight), st == uint8(cstypes.RoundStepNewRound), st == uint8(cstypes.RoundStepPropose),
			st == uint8(cstypes.RoundStepPrevoteWait), st == uint8(cstypes.RoundStepPrecommitWait)))
		ti.Step = cstypes.RoundStepType(st)
		// the wait timeouts are only ever scheduled once the corresponding +2/3-any is there
		if ti.Step == cstypes.RoundStepPrevoteWait {
			vp.Assume(w.any[ti.Round][0])
		}
		if ti.Step == cstypes.RoundStepPrecommitWait {
			vp.Assume(w.any[ti.Round][1])
		}
		if ti.Step == cstypes.RoundStepNewHeight || ti.Step == cstypes.RoundStepNewRound {
			vp.Assume(ti.Round == 0)
		}
		cs.handleTimeout(ti, cs.RoundState)
		return "timeout"
	case 2: // a proposal
		x := w.pickBlock("proposal-block", []int8{cA, cB})
		p := types.NewProposal(vpH, vp.Int32("proposal.Round"), vp.Int32("proposal.POLRound"), w.blocks[x].id)
		vp.Assume(vp.And(p.Round >= 0, p.Round <= R+1, p.POLRound >= -2, p.POLRound <= R+1))
		// signed by the round's proposer, or not
		prop := cs.Validators.GetProposer()
		var key ed25519.PrivKey
		for _, k := range w.keys {
			if bytes.Equal(k.PubKey().Address(), prop.Address) {
				key = k
			}
		}
		pp := p.ToProto()
		p.Signature = vp.IdealSig(key.PubKey().Bytes(), types.ProposalSignBytes(vpStepChain, pp), vp.Bool("proposal-signature-valid"))
		cs.handleMsg(msgInfo{Msg: &ProposalMessage{Proposal: p}, PeerID: "peer"})
		return "proposal"
	case 3: // a block part (each candidate block is a single part)
		x := w.pickBlock("part-block", []int8{cA, cB, cC})
		part := w.blocks[x].parts.GetPart(0)
		msg := &BlockPartMessage{Height: vpH, Round: vp.Int32("part.Round"), Part: part}
		vp.Assume(vp.And(msg.Round >= 0, msg.Round <= R+1))
		cs.handleMsg(msgInfo{Msg: msg, PeerID: "peer"})
		return "part"
	default:
		cs.handleTxsAvailable()
		return "txs"
	}
}

// ---------------------------------------------------------------- the step harness

type vpSnapshot struct {
	round, lockedRound, validRound int32
	step                           cstypes.RoundStepType
	locked, valid                  int8
	maj                            [][2]int8
	any                            [][2]bool
}

func (w *vpWorld) snapshot() vpSnapshot {
	cs := w.cs
	s := vpSnapshot{round: cs.Round, lockedRound: cs.LockedRound, validRound: cs.ValidRound, step: cs.Step,
		locked: w.codeOfBlock(cs.LockedBlock), valid: w.codeOfBlock(cs.ValidBlock)}
	s.maj = append([][2]int8{}, w.maj...)
	s.any = append([][2]bool{}, w.any...)
	return s
}

// postChecks: inductiveness and the transition rules (L5, C03 lemmas).
func (w *vpWorld) postChecks(pre vpSnapshot, ev string) {
	cs := w.cs
	if cs.Height != vpH {
		vp.Reach("height-decided?")
		vp.Assert(len(w.saved) == 1 && len(w.applied) == 1 && w.saved[0] == w.applied[0], "C01.commit.exactly-the-decided-block-is-saved-and-executed")
		vp.Assert(cs.Height == vpH+1 && cs.Round == 0 && cs.Step == cstypes.RoundStepNewHeight && cs.LockedBlock == nil && cs.ValidBlock == nil && cs.Proposal == nil, "C02.new-height-starts-clean")
		return
	}
	vp.Assert(len(w.saved) == 0 && len(w.applied) == 0, "C01.commit.nothing-is-saved-or-executed-without-deciding")
	cj, labels := w.invParts()
	vp.AssertAll(cj, labels, "C02.INV.")
	// monotonicity
	vp.Assert(cs.Round >= pre.round, "C02.round-never-decreases")
	if cs.Round == pre.round {
		vp.Assert(cs.Step >= pre.step, "C02.step-never-decreases-within-a-round")
	}
	post := w.snapshot()
	// L5: how the lock may change
	if post.locked != pre.locked || post.lockedRound != pre.lockedRound {
		if post.locked == cNone {
			// unlock: a polka for something else in a round after the lock, not beyond the current round
			vp.Assert(w.polkaForOtherIn(pre.lockedRound, post.round, pre.locked), "C02.L5.unlock-only-on-a-later-polka-for-something-else")
			vp.Reach("unlocked?")
		} else {
			// lock / relock: in the round of the precommit just signed, on the block with the polka there
			vp.Assert(vp.And(post.lockedRound > pre.lockedRound, vp.Sel8(w.majCol(0), post.lockedRound) == post.locked, vp.Sel8(w.pc, post.lockedRound) == post.locked), "C02.L5.lock-only-with-polka-and-precommit-in-that-round")
			vp.Reach("locked?")
		}
	}
	// C03-T3: round skipping: +2/3 of anything from a later round moves the node there
	if ev == "vote" && cs.Round > pre.round {
		vp.Reach("round-skipped?")
	}
	if ev == "vote" && w.lastVoteRound > pre.round && int(w.lastVoteRound) < len(w.any) {
		vr := w.lastVoteRound
		newAny := vp.And(w.any[vr][w.lastVoteType], !pre.any[vr][w.lastVoteType])
		vp.Assert(vp.Implies(newAny, cs.Round >= vr), "C03.T3.two-thirds-of-anything-from-a-later-round-moves-the-node-to-that-round")
	}
}

// vpC02Step: one step from an arbitrary state satisfying the invariant.
func vpC02Step(R int, kind int, slice int) {
	vp.Opt("conccap", 16)
	w := vpNewWorld(R, 0) // we are validator 0 (a node that is not a validator signs nothing)
	w.slice = slice
	w.symbolicPreState()
	cj, _ := w.invParts()
	vp.AssumeAll(cj)
	vp.AssumeAll(w.globalFactParts())
	vp.Reach("pre-state")
	pre := w.snapshot()
	ev := w.applyEvent(kind)
	w.postChecks(pre, ev)
	// C03-T4b: a later polka for something else releases the lock
	cs := w.cs
	if ev == "vote" && cs.Height == vpH && pre.locked != cNone {
		var newPolka []bool
		for q := int32(0); int(q) < len(w.maj); q++ {
			m := w.maj[q][0]
			newPolka = append(newPolka, vp.And(q > pre.lockedRound, q <= pre.round, m != cNone, m != pre.locked, pre.maj[q][0] == cNone))
		}
		released := w.codeOfBlock(cs.LockedBlock) != pre.locked
		vp.Assert(vp.Implies(vp.Or(newPolka...), vp.Or(released, cs.LockedRound > pre.lockedRound)), "C03.T4b.later-polka-for-something-else-releases-the-lock")
	}
}

// base case: the state NewState produces satisfies the invariant
func VP_C02_Base() {
	w := vpNewWorld(2, 0)
	vp.Assert(w.inv(), "C02.INV.holds-on-the-initial-state")
	vp.Reach("pre-state")
}

// Slices of the pre-state / event space (each entry states which one it covers).
const (
	vpSliceFull      = 0 // every shape: locked or not, any valid block, any proposal block or part set, votes of the previous/current/next height for nil/A/B/C
	vpSliceLocked    = 1 // locked on A; valid block A or B; proposal block none/A/B; votes of the current height for nil/A/B
	vpSliceUnlocked  = 2 // not locked; any valid block; proposal block none/A/B/C; votes of the current height for nil/A/B
	vpSliceLockFocus = 3 // locked on A, valid block A, proposal block none/A, no proposal message; votes of the current height for nil/A/B
)

const vpSlicePolProposal = 5 // not locked, no valid block, complete proposal block A with its proposal message (any POL round); votes of the current height for nil/A/B

func VP_C02_Step_R1_vote_polproposal() { vpC02Step(1, 0, vpSlicePolProposal) }

const vpSliceLockedVsProposal = 6 // locked on A (valid block A) and holding a complete proposal for another block B with its proposal message (any POL round); votes of the current height for nil/A/B

func VP_C02_Step_R2_timeout_lockedvsproposal() { vpC02Step(2, 1, vpSliceLockedVsProposal) }

const vpSliceLockFocusTop = 4 // as vpSliceLockFocus, and the node is in the highest modelled round

func VP_C02_Step_R2_vote_lockfocus_top() { vpC02Step(2, 0, vpSliceLockFocusTop) }
func VP_C02_Step_R1_vote_lockfocus()     { vpC02Step(1, 0, vpSliceLockFocus) }
func VP_C02_Step_R2_vote_lockfocus()     { vpC02Step(2, 0, vpSliceLockFocus) }
func VP_C02_Step_R1_timeout_lockfocus()  { vpC02Step(1, 1, vpSliceLockFocus) }
func VP_C02_Step_R1_part_lockfocus()     { vpC02Step(1, 3, vpSliceLockFocus) }

func VP_C02_Step_R1_vote()             { vpC02Step(1, 0, vpSliceFull) }
func VP_C02_Step_R1_timeout()          { vpC02Step(1, 1, vpSliceFull) }
func VP_C02_Step_R1_proposal()         { vpC02Step(1, 2, vpSliceFull) }
func VP_C02_Step_R1_part()             { vpC02Step(1, 3, vpSliceFull) }
func VP_C02_Step_R1_txs()              { vpC02Step(1, 4, vpSliceFull) }
func VP_C02_Step_R1_vote_locked()      { vpC02Step(1, 0, vpSliceLocked) }
func VP_C02_Step_R1_vote_unlocked()    { vpC02Step(1, 0, vpSliceUnlocked) }
func VP_C02_Step_R1_timeout_locked()   { vpC02Step(1, 1, vpSliceLocked) }
func VP_C02_Step_R1_timeout_unlocked() { vpC02Step(1, 1, vpSliceUnlocked) }
func VP_C02_Step_R1_proposal_locked()  { vpC02Step(1, 2, vpSliceLocked) }
func VP_C02_Step_R1_part_locked()      { vpC02Step(1, 3, vpSliceLocked) }
func VP_C02_Step_R2_vote_locked()      { vpC02Step(2, 0, vpSliceLocked) }
func VP_C02_Step_R2_timeout_locked()   { vpC02Step(2, 1, vpSliceLocked) }
func VP_C02_Step_R2_proposal_locked()  { vpC02Step(2, 2, vpSliceLocked) }
func VP_C02_Step_R2_part_locked()      { vpC02Step(2, 3, vpSliceLocked) }
func VP_C02_Step_R2_vote()             { vpC02Step(2, 0, vpSliceFull) }
