//go:build verif

package consensus

import (
	"bytes"
	"crypto/sha256"
	"fmt"

	dbm "github.com/tendermint/tm-db"

	cfg "github.com/tendermint/tendermint/config"
	cstypes "github.com/tendermint/tendermint/consensus/types"
	"github.com/tendermint/tendermint/crypto/ed25519"
	vp "github.com/tendermint/tendermint/internal/verifvp"
	"github.com/tendermint/tendermint/libs/bits"
	"github.com/tendermint/tendermint/libs/log"
	"github.com/tendermint/tendermint/p2p"
	tmproto "github.com/tendermint/tendermint/proto/tendermint/types"
	sm "github.com/tendermint/tendermint/state"
	"github.com/tendermint/tendermint/types"
)

// vpBareState: a real consensus State at the initial height of a 4-validator chain, nothing stubbed.
func vpBareState() (*State, []ed25519.PrivKey) {
	var keys []ed25519.PrivKey
	for i := 0; i < 4; i++ {
		keys = append(keys, ed25519.GenPrivKeyFromSecret([]byte{'c', 's', byte(i)}))
	}
	state := vpGenesisState(keys)
	stateStore := sm.NewStore(dbm.NewMemDB(), sm.StoreOptions{})
	blockExec := sm.NewBlockExecutor(stateStore, log.NewNopLogger(), nil, emptyMempool{}, sm.EmptyEvidencePool{})
	cs := NewState(cfg.DefaultConsensusConfig(), state, blockExec, &vpBlockStoreStub{w: &vpWorld{}}, nil, sm.EmptyEvidencePool{})
	cs.timeoutTicker = &vpTicker{w: &vpWorld{}}
	bus := types.NewEventBus()
	if err := bus.Start(); err != nil {
		panic(err)
	}
	cs.SetEventBus(bus)
	return cs, keys
}

// C17-H3: a vote message that passed ValidateBasic never panics the consensus routine
// (a panic there is "CONSENSUS FAILURE": the node stops taking part).
func VP_C17_CoreSurvivesVote() {
	cs, keys := vpBareState()
	h := vp.Int64("vote.Height")
	vp.Assume(vp.And(h >= 0, h <= 3))
	r := vp.Int32("vote.Round")
	vp.Assume(vp.And(r >= 0, r <= 2))
	typ := tmproto.PrevoteType
	if vp.Bool("precommit") {
		typ = tmproto.PrecommitType
	}
	idx := int32(vp.Range("validator", 0, 3))
	v := &types.Vote{Type: typ, Height: h, Round: r, ValidatorIndex: idx, ValidatorAddress: keys[idx].PubKey().Address(), Timestamp: vpGenesisState(keys).LastBlockTime}
	sig, err := keys[idx].Sign(types.VoteSignBytes(vpStepChain, v.ToProto()))
	if err != nil {
		panic(err)
	}
	v.Signature = sig
	msg := &VoteMessage{Vote: v}
	if msg.ValidateBasic() != nil {
		return
	}
	vp.Reach("valid-message")
	paniced := ""
	func() {
		defer func() {
			if rec := recover(); rec != nil {
				paniced = fmt.Sprint(rec)
			}
		}()
		cs.handleMsg(msgInfo{Msg: msg, PeerID: "peer"})
	}()
	if paniced != "" {
		println("PANIC:", paniced)
	}
	vp.Assert(paniced == "", "C17.core.valid-vote-message-never-panics-the-consensus-routine")
}

// C17-H3b: a proposal message that passed ValidateBasic, signed by the round's (possibly faulty)
// proposer: the consensus routine neither panics nor reserves memory for more block parts than a
// block of the maximum size can have.
func VP_C17_CoreSurvivesProposal() {
	cs, keys := vpBareState()
	cs.handleTimeout(timeoutInfo{Height: vpH, Round: 0, Step: cstypes.RoundStepNewHeight}, cs.RoundState)
	h := vpH + int64(vp.Choice("proposal-height", 3)) - 1
	r := vp.Int32("proposal.Round")
	vp.Assume(vp.And(r >= 0, r <= 2))
	pol := vp.Int32("proposal.POLRound")
	vp.Assume(vp.And(pol >= -1, pol <= 3))
	total := []uint32{1, types.MaxBlockPartsCount, types.MaxBlockPartsCount + 1, 1 << 16}[vp.Choice("part-set-total", 4)]
	bid := types.BlockID{Hash: tmhashOf("proposed block"), PartSetHeader: types.PartSetHeader{Total: total, Hash: tmhashOf("its parts")}}
	p := types.NewProposal(h, r, pol, bid)
	prop := cs.Validators.GetProposer()
	for _, k := range keys {
		if string(k.PubKey().Address()) == string(prop.Address) {
			sig, err := k.Sign(types.ProposalSignBytes(vpStepChain, p.ToProto()))
			if err != nil {
				panic(err)
			}
			p.Signature = sig
		}
	}
	msg := &ProposalMessage{Proposal: p}
	if msg.ValidateBasic() != nil {
		return
	}
	vp.Reach("valid-message")
	paniced := ""
	func() {
		defer func() {
			if rec := recover(); rec != nil {
				paniced = fmt.Sprint(rec)
			}
		}()
		cs.handleMsg(msgInfo{Msg: msg, PeerID: "peer"})
	}()
	vp.Assert(paniced == "", "C17.core.valid-proposal-message-never-panics-the-consensus-routine")
	if cs.ProposalBlockParts != nil {
		vp.Reach("proposal-accepted?")
		vp.Assert(cs.ProposalBlockParts.Total() <= types.MaxBlockPartsCount, "C17.core.memory-reserved-for-a-proposal-is-bounded-by-the-maximum-block-size")
	}
}

func tmhashOf(s string) []byte {
	h := sha256.Sum256([]byte(s))
	return h[:]
}

// C17-H3c: block part messages that passed ValidateBasic, for a proposal the node accepted (2 parts):
// any index, round, height; genuine, foreign or inconsistent proof; the routine never panics.
func VP_C17_CoreSurvivesBlockPart() {
	cs, keys := vpBareState()
	cs.handleTimeout(timeoutInfo{Height: vpH, Round: 0, Step: cstypes.RoundStepNewHeight}, cs.RoundState)
	state := vpGenesisState(keys)
	// a genuine two-part block and a second two-part block to take foreign parts from
	mk := func(tag byte) (*types.Block, *types.PartSet) {
		b, _ := state.MakeBlock(vpH, []types.Tx{bytes.Repeat([]byte{tag}, 40)}, types.NewCommit(0, 0, types.BlockID{}, nil), nil, state.Validators.GetProposer().Address)
		return b, b.MakePartSet(64)
	}
	blockA, partsA := mk(0x51)
	_, partsB := mk(0x52)
	vp.Assert(partsA.Total() >= 2 && partsB.Total() >= 2, "C17.core.harness-blocks-have-several-parts")
	p := types.NewProposal(vpH, 0, -1, types.BlockID{Hash: blockA.Hash(), PartSetHeader: partsA.Header()})
	prop := cs.Validators.GetProposer()
	for _, k := range keys {
		if string(k.PubKey().Address()) == string(prop.Address) {
			sig, err := k.Sign(types.ProposalSignBytes(vpStepChain, p.ToProto()))
			if err != nil {
				panic(err)
			}
			p.Signature = sig
		}
	}
	cs.handleMsg(msgInfo{Msg: &ProposalMessage{Proposal: p}, PeerID: "peer"})
	vp.Assert(cs.ProposalBlockParts != nil && cs.ProposalBlockParts.Total() == partsA.Total(), "C17.core.harness-proposal-accepted")
	paniced := ""
	for n := 0; n < 2; n++ {
		src := partsA
		if vp.Bool("part-of-another-block") {
			src = partsB
		}
		orig := src.GetPart(vp.Choice("part", 2))
		part := &types.Part{Index: orig.Index, Bytes: orig.Bytes, Proof: orig.Proof}
		switch vp.Choice("tamper", 5) {
		case 1:
			part.Index = uint32(vp.Choice("claimed-index", 4)) // 0..3: in range or beyond the total
		case 2:
			part.Proof.Index = int64(vp.Choice("proof-index", 4))
		case 3:
			part.Proof.Total = int64(1 + vp.Choice("proof-total", 4))
		case 4:
			part.Bytes = append(append([]byte{}, part.Bytes...), vp.Byte("extra-byte"))
		}
		msg := &BlockPartMessage{Height: vpH + int64(vp.Choice("part-height", 2)), Round: vp.Int32("part.Round"), Part: part}
		vp.Assume(vp.And(msg.Round >= 0, msg.Round <= 2))
		if msg.ValidateBasic() != nil {
			continue
		}
		vp.Reach("valid-message")
		func() {
			defer func() {
				if rec := recover(); rec != nil {
					paniced = fmt.Sprint(rec)
				}
			}()
			cs.handleMsg(msgInfo{Msg: msg, PeerID: "peer"})
		}()
		if paniced != "" {
			break
		}
	}
	vp.Assert(paniced == "", "C17.core.valid-block-part-message-never-panics-the-consensus-routine")
	if cs.ProposalBlock != nil {
		vp.Reach("block-completed?")
		vp.Assert(cs.ProposalBlock.HashesTo(blockA.Hash()), "C17.core.only-the-proposed-block-is-assembled-from-parts")
	}
}

// ---------------------------------------------------------------- C17-H2 (consensus reactor, state channel)

type vpReactorPeer struct {
	p2p.Peer
	kv map[string]interface{}
}

func (p *vpReactorPeer) ID() p2p.ID                        { return "hostile" }
func (p *vpReactorPeer) Get(k string) interface{}          { return p.kv[k] }
func (p *vpReactorPeer) Set(k string, v interface{})       { p.kv[k] = v }
func (p *vpReactorPeer) SendEnvelope(p2p.Envelope) bool    { return true }
func (p *vpReactorPeer) TrySendEnvelope(p2p.Envelope) bool { return true }

// One state-channel message with arbitrary field values reaches the real Reactor.ReceiveEnvelope.
// At worst the peer is stopped; afterwards neither the consensus state nor the peer state is left
// locked (the node is not wedged), whether the call returned or panicked (a panic is caught by the
// connection's receive routine and drops the peer).
func VP_C17_ReactorStateMessages() {
	cs, _ := vpBareState()
	conR := NewReactor(cs, true)
	conR.SetLogger(log.NewNopLogger())
	stopped := 0
	vp.Stub("(*github.com/tendermint/tendermint/libs/service.BaseService).IsRunning", func() bool { return true })
	vp.Stub("(*github.com/tendermint/tendermint/p2p.Switch).StopPeerForError", func(sw *p2p.Switch, peer p2p.Peer, reason interface{}) { stopped++ })
	peer := &vpReactorPeer{kv: map[string]interface{}{}}
	ps := NewPeerState(peer).SetLogger(log.NewNopLogger())
	peer.Set(types.PeerStateKey, ps)
	var msg Message
	h := vp.Int64("height")
	vp.Assume(vp.And(h >= 0, h <= 3))
	r := vp.Int32("round")
	vp.Assume(vp.And(r >= -1, r <= 2))
	switch vp.Choice("message", 4) {
	case 0:
		st := vp.Uint8("step")
		vp.Assume(st <= 9)
		lcr := vp.Int32("last-commit-round")
		vp.Assume(vp.And(lcr >= -2, lcr <= 2))
		msg = &NewRoundStepMessage{Height: h, Round: r, Step: cstypes.RoundStepType(st), SecondsSinceStartTime: 1, LastCommitRound: lcr}
	case 1:
		idx := vp.Int32("index")
		vp.Assume(vp.And(idx >= -1, idx <= 5))
		msg = &HasVoteMessage{Height: h, Round: r, Type: tmproto.PrevoteType, Index: idx}
	case 2:
		msg = &VoteSetMaj23Message{Height: h, Round: r, Type: tmproto.PrecommitType, BlockID: types.BlockID{Hash: tmhashOf("x"), PartSetHeader: types.PartSetHeader{Total: 1, Hash: tmhashOf("y")}}}
	case 3:
		pol := vp.Int32("proposal-pol-round")
		vp.Assume(vp.And(pol >= -1, pol <= 2))
		msg = &ProposalPOLMessage{Height: h, ProposalPOLRound: pol, ProposalPOL: bits.NewBitArray(int(vp.Range("pol-bits", 1, 5)))}
	}
	pb, err := MsgToProto(msg)
	if err != nil {
		return
	}
	vp.Reach("message-built")
	func() {
		defer func() {
			if rec := recover(); rec != nil {
				vp.Reach("receive-panicked?")
			}
		}()
		conR.ReceiveEnvelope(p2p.Envelope{Src: peer, ChannelID: StateChannel, Message: pb})
	}()
	free := make(chan struct{}, 1)
	go func() {
		cs.GetRoundState() // takes the consensus state's lock
		ps.GetRoundState() // takes the peer state's lock
		free <- struct{}{}
	}()
	vp.Settle()
	select {
	case <-free:
		vp.Reach("not-wedged")
	default:
		vp.Assert(false, "C17.reactor.hostile-state-message-never-leaves-the-node's-locks-held")
	}
	_ = stopped
}
