//go:build verif

package consensus

import (
	"fmt"

	dbm "github.com/tendermint/tm-db"

	cfg "github.com/tendermint/tendermint/config"
	"github.com/tendermint/tendermint/crypto/ed25519"
	vp "github.com/tendermint/tendermint/internal/verifvp"
	"github.com/tendermint/tendermint/libs/log"
	tmproto "github.com/tendermint/tendermint/proto/tendermint/types"
	sm "github.com/tendermint/tendermint/state"
	"github.com/tendermint/tendermint/types"
)

// vpBareState: a real consensus State at the initial height of a 4-validator chain, nothing stubbed.
func vpBareState() (*State, []ed25519.PrivKey) {
	var keys []ed25519.PrivKey
	for i := 0; i < 4; i++ {
		keys = append(keys, ed25519.GenPrivKeyFromSecret([]byte{'c', 's', byte(i)}))
	}
	state := vpGenesisState(keys)
	stateStore := sm.NewStore(dbm.NewMemDB(), sm.StoreOptions{})
	blockExec := sm.NewBlockExecutor(stateStore, log.NewNopLogger(), nil, emptyMempool{}, sm.EmptyEvidencePool{})
	cs := NewState(cfg.DefaultConsensusConfig(), state, blockExec, &vpBlockStoreStub{w: &vpWorld{}}, nil, sm.EmptyEvidencePool{})
	cs.timeoutTicker = &vpTicker{w: &vpWorld{}}
	bus := types.NewEventBus()
	if err := bus.Start(); err != nil {
		panic(err)
	}
	cs.SetEventBus(bus)
	return cs, keys
}

// C17-H3: a vote message that passed ValidateBasic never panics the consensus routine
// (a panic there is "CONSENSUS FAILURE": the node stops taking part).
func VP_C17_CoreSurvivesVote() {
	cs, keys := vpBareState()
	h := vp.Int64("vote.Height")
	vp.Assume(vp.And(h >= 0, h <= 3))
	r := vp.Int32("vote.Round")
	vp.Assume(vp.And(r >= 0, r <= 2))
	typ := tmproto.PrevoteType
	if vp.Bool("precommit") {
		typ = tmproto.PrecommitType
	}
	idx := int32(vp.Range("validator", 0, 3))
	v := &types.Vote{Type: typ, Height: h, Round: r, ValidatorIndex: idx, ValidatorAddress: keys[idx].PubKey().Address(), Timestamp: vpGenesisState(keys).LastBlockTime}
	sig, err := keys[idx].Sign(types.VoteSignBytes(vpStepChain, v.ToProto()))
	if err != nil {
		panic(err)
	}
	v.Signature = sig
	msg := &VoteMessage{Vote: v}
	if msg.ValidateBasic() != nil {
		return
	}
	vp.Reach("valid-message")
	paniced := ""
	func() {
		defer func() {
			if rec := recover(); rec != nil {
				paniced = fmt.Sprint(rec)
			}
		}()
		cs.handleMsg(msgInfo{Msg: msg, PeerID: "peer"})
	}()
	if paniced != "" {
		println("PANIC:", paniced)
	}
	vp.Assert(paniced == "", "C17.core.valid-vote-message-never-panics-the-consensus-routine")
}
