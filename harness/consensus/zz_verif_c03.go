//go:build verif

package consensus

import (
	"time"

	cfg "github.com/tendermint/tendermint/config"
	cstypes "github.com/tendermint/tendermint/consensus/types"
	"github.com/tendermint/tendermint/crypto/ed25519"
	vp "github.com/tendermint/tendermint/internal/verifvp"
	tmproto "github.com/tendermint/tendermint/proto/tendermint/types"
	"github.com/tendermint/tendermint/types"
)

// ---------------------------------------------------------------- T1: timeouts grow with the round

func VP_C03_TimeoutsGrow() {
	c := cfg.DefaultConsensusConfig()
	if vp.Bool("custom-config") {
		ms := func(name string) int64 {
			x := vp.Int64(name)
			vp.Assume(vp.And(x >= 1, x <= 10000))
			return x * 1e6
		}
		c.TimeoutPropose, c.TimeoutProposeDelta = 3e9, 0
		c.TimeoutPrevote, c.TimeoutPrevoteDelta = 1e9, 0
		c.TimeoutPrecommit, c.TimeoutPrecommitDelta = 1e9, 0
		c.TimeoutProposeDelta += durationOf(ms("propose-delta-ms"))
		c.TimeoutPrevoteDelta += durationOf(ms("prevote-delta-ms"))
		c.TimeoutPrecommitDelta += durationOf(ms("precommit-delta-ms"))
	}
	r := vp.Int32("round")
	vp.Assume(vp.And(r >= 0, r < 1<<16))
	vp.Reach("round-picked")
	vp.Assert(c.Propose(r+1) > c.Propose(r) && c.Propose(r) >= c.TimeoutPropose, "C03.T1.propose-timeout-grows-with-the-round")
	vp.Assert(c.Prevote(r+1) > c.Prevote(r) && c.Prevote(r) >= c.TimeoutPrevote, "C03.T1.prevote-timeout-grows-with-the-round")
	vp.Assert(c.Precommit(r+1) > c.Precommit(r) && c.Precommit(r) >= c.TimeoutPrecommit, "C03.T1.precommit-timeout-grows-with-the-round")
}

// ---------------------------------------------------------------- T2: proposer rotation is fair

// over (total power) consecutive rounds every validator proposes exactly (its power) times
func VP_C03_RotationFair() {
	var vals []*types.Validator
	total := int64(0)
	for i := 0; i < 3; i++ {
		p := int64(vp.Range("power", 1, 3))
		k := ed25519.GenPrivKeyFromSecret([]byte{'r', byte(i)})
		vals = append(vals, types.NewValidator(k.PubKey(), p))
		total += p
	}
	vs := types.NewValidatorSet(vals)
	// start anywhere in the rotation
	if skip := int32(vp.Range("rounds-already-played", 0, 3)); skip > 0 {
		vs.IncrementProposerPriority(skip)
	}
	count := map[string]int64{}
	for r := int64(0); r < total; r++ {
		count[string(vs.GetProposer().Address)]++
		vs.IncrementProposerPriority(1)
	}
	for _, v := range vals {
		vp.Assert(count[string(v.Address)] == v.VotingPower, "C03.T2.each-validator-proposes-in-proportion-to-its-power")
		vp.Assert(count[string(v.Address)] >= 1, "C03.T2.every-validator-proposes-within-total-power-rounds")
	}
	vp.Reach("rotation-checked")
}

// ---------------------------------------------------------------- T5: the commit step waits for the block

type vpDecided struct{ block *types.Block }

// vpPlainStore records the decision and stops the run there.
type vpPlainStore struct{ vpBlockStoreStub }

func (s *vpPlainStore) SaveBlock(b *types.Block, ps *types.PartSet, seen *types.Commit) {
	panic(vpDecided{b})
}

// A node that saw +2/3 precommits for a block it does not have waits in the commit step; whatever
// else the asynchronous prefix delivered, once everything the other nodes still hold reaches it
// (the block's parts, the votes again) it decides.
func VP_C03_CommitWaitsForBlock() {
	cs, keys := vpBareState()
	cs.blockStore = &vpPlainStore{}
	tick := &vpTicker{w: &vpWorld{}}
	cs.timeoutTicker = tick
	state := vpGenesisState(keys)
	block, parts := state.MakeBlock(vpH, []types.Tx{{0x42}}, types.NewCommit(0, 0, types.BlockID{}, nil), nil, state.Validators.GetProposer().Address)
	id := types.BlockID{Hash: block.Hash(), PartSetHeader: parts.Header()}
	var sent []*types.Vote
	vote := func(idx int, typ tmproto.SignedMsgType, round int32, bid types.BlockID) {
		// validators in the set are sorted by address: find the index of the key
		_, val := state.Validators.GetByAddress(keys[idx].PubKey().Address())
		vi, _ := state.Validators.GetByAddress(val.Address)
		v := &types.Vote{Type: typ, Height: vpH, Round: round, BlockID: bid, ValidatorIndex: vi, ValidatorAddress: val.Address, Timestamp: state.LastBlockTime}
		sig, err := keys[idx].Sign(types.VoteSignBytes(vpStepChain, v.ToProto()))
		if err != nil {
			panic(err)
		}
		v.Signature = sig
		sent = append(sent, v)
		cs.handleMsg(msgInfo{Msg: &VoteMessage{Vote: v}, PeerID: "peer"})
	}
	decided := false
	late := 0
	func() {
		defer func() {
			if rec := recover(); rec != nil {
				if d, ok := rec.(vpDecided); ok {
					vp.Assert(d.block.HashesTo(id.Hash), "C03.T5.the-block-decided-is-the-one-the-precommits-are-for")
					decided = true
					return
				}
				panic(rec)
			}
		}()
		// the start-of-height timeout has fired: round 0 is under way
		cs.handleTimeout(timeoutInfo{Height: vpH, Round: 0, Step: cstypes.RoundStepNewHeight}, cs.RoundState)
		// asynchronous prefix: the decision is seen without the block ...
		for i := 1; i <= 3; i++ {
			vote(i, tmproto.PrecommitType, 0, id)
		}
		vp.Assert(cs.Step == cstypes.RoundStepCommit && cs.CommitRound == 0 && cs.ProposalBlock == nil, "C03.T5.the-decision-is-seen-without-its-block")
		// ... and, late, what the others sent while they were still trying round 1
		switch late = vp.Choice("late-messages-of-the-next-round", 5); late {
		case 4:
			// the (faulty, or simply uninformed) proposer of the node's round proposes another block X
			other, otherParts := state.MakeBlock(vpH, []types.Tx{{0x43}}, types.NewCommit(0, 0, types.BlockID{}, nil), nil, state.Validators.GetProposer().Address)
			p := types.NewProposal(vpH, cs.Round, -1, types.BlockID{Hash: other.Hash(), PartSetHeader: otherParts.Header()})
			for _, k := range keys {
				if string(k.PubKey().Address()) == string(cs.Validators.GetProposer().Address) {
					pp := p.ToProto()
					sig, err := k.Sign(types.ProposalSignBytes(vpStepChain, pp))
					if err != nil {
						panic(err)
					}
					p.Signature = sig
				}
			}
			cs.handleMsg(msgInfo{Msg: &ProposalMessage{Proposal: p}, PeerID: "peer"})
		case 1:
			for i := 1; i <= 3; i++ {
				vote(i, tmproto.PrevoteType, 1, id)
			}
		case 2:
			for i := 1; i <= 3; i++ {
				vote(i, tmproto.PrevoteType, 1, types.BlockID{})
			}
		case 3:
			for i := 1; i <= 3; i++ {
				vote(i, tmproto.PrecommitType, 1, types.BlockID{})
			}
		}
		vp.Reach("prefix-done")
		// synchronous suffix: everything the other nodes (now past this height) still hold arrives,
		// and this node's own timeouts fire
		for pass := 0; pass < 2; pass++ {
			for r := int32(0); r <= 1; r++ {
				for i := 0; i < int(parts.Total()); i++ {
					cs.handleMsg(msgInfo{Msg: &BlockPartMessage{Height: vpH, Round: r, Part: parts.GetPart(i)}, PeerID: "peer"})
				}
			}
			for _, v := range sent {
				cs.handleMsg(msgInfo{Msg: &VoteMessage{Vote: v}, PeerID: "peer"})
			}
			for n := 0; n < 8 && len(tick.w.timeouts) > 0; n++ {
				ti := tick.w.timeouts[0]
				tick.w.timeouts = tick.w.timeouts[1:]
				cs.handleTimeout(ti, cs.RoundState)
			}
		}
	}()
	what := []string{"nothing-else-arrived-before", "after-late-round-1-prevotes-for-the-block", "after-late-round-1-prevotes-for-nil", "after-late-round-1-precommits-for-nil", "after-a-proposal-for-another-block"}[late]
	vp.Assert(decided, "C03.T5.node-that-saw-the-decision-decides-once-the-block-arrives/"+what)
}

func durationOf(ns int64) time.Duration { return time.Duration(ns) }
