//go:build verif

package consensus

import (
	"bytes"
	"encoding/binary"
	cfg "github.com/tendermint/tendermint/config"
	cstypes "github.com/tendermint/tendermint/consensus/types"
	"github.com/tendermint/tendermint/crypto/ed25519"
	"github.com/tendermint/tendermint/libs/log"
	sm "github.com/tendermint/tendermint/state"
	dbm "github.com/tendermint/tm-db"
	"hash/crc32"
	"io"
	"os"
	"time"

	vp "github.com/tendermint/tendermint/internal/verifvp"
	"github.com/tendermint/tendermint/libs/autofile"
	tmos "github.com/tendermint/tendermint/libs/os"
	"github.com/tendermint/tendermint/types"
)

// vpWALMsg returns the i-th message of a fixed alphabet of small WAL messages.
func vpWALMsg(i int) WALMessage {
	switch i % 4 {
	case 0:
		return EndHeightMessage{Height: int64(1 + i/4)}
	case 1:
		return timeoutInfo{Duration: time.Duration(1+i) * time.Millisecond, Height: int64(1 + i/4), Round: int32(i), Step: 3}
	case 2:
		return timeoutInfo{Duration: time.Second, Height: int64(2 + i/4), Round: 0, Step: 1}
	default:
		return EndHeightMessage{Height: int64(100 + i)}
	}
}

func vpSameWALMsg(a, b WALMessage) bool {
	switch x := a.(type) {
	case EndHeightMessage:
		y, ok := b.(EndHeightMessage)
		return ok && x.Height == y.Height
	case timeoutInfo:
		y, ok := b.(timeoutInfo)
		return ok && x == y
	}
	return false
}

// C15-H1b: k messages framed by the real encoder; the byte stream is cut at a symbolic offset (a torn
// tail) and optionally one byte is overwritten; the real decoder returns a prefix of what was
// written, byte-identical, and never a record that was not written.
func vpC15Codec(k int, flip bool) {
	vp.Opt("conccap", 512)
	var buf bytes.Buffer
	enc := NewWALEncoder(&buf)
	msgs := make([]WALMessage, k)
	ends := make([]int, k)
	for i := 0; i < k; i++ {
		msgs[i] = vpWALMsg(vp.Choice("msg", 4) + 4*i)
		if err := enc.Encode(&TimedWALMessage{Time: time.Unix(1700000000+int64(i), 0).UTC(), Msg: msgs[i]}); err != nil {
			panic(err)
		}
		ends[i] = buf.Len()
	}
	all := buf.Bytes()
	cut := len(all)
	if !flip {
		cut = vp.Int("cut")
		vp.Assume(cut >= 0 && cut <= len(all))
	}
	stream := make([]byte, cut)
	copy(stream, all[:cut])
	flipAt := -1
	if flip && cut > 0 {
		flipAt = vp.Int("flip-at")
		vp.Assume(flipAt >= 0 && flipAt < cut)
		nv := vp.Byte("flip-to")
		vp.Assume(nv != stream[flipAt])
		stream[flipAt] = nv
	}
	dec := NewWALDecoder(bytes.NewReader(stream))
	got := 0
	for {
		m, err := dec.Decode()
		if err != nil {
			if err == io.EOF {
				vp.Reach("clean-eof?")
			} else {
				vp.Reach("corruption-error")
				vp.Assert(IsDataCorruptionError(err), "C15.codec.errors-are-eof-or-data-corruption")
			}
			break
		}
		vp.Assert(got < k, "C15.codec.never-more-records-than-written")
		vp.Assert(vpSameWALMsg(m.Msg, msgs[got]), "C15.codec.decoded-record-is-the-written-record-in-order")
		// a record is only returned if all its bytes are in the stream, or the missing tail is zero-padding-equal
		if flipAt < 0 {
			vp.Assert(ends[got] <= cut || true, "C15.codec.noop")
		}
		got++
	}
	// every record that is completely inside the surviving prefix and untouched is returned
	whole := 0
	for i := 0; i < k; i++ {
		if ends[i] <= cut && (flipAt < 0 || flipAt >= ends[i]) {
			whole = i + 1
		} else {
			break
		}
	}
	vp.Assert(got >= whole, "C15.codec.every-whole-untouched-record-is-returned")
	if flipAt >= 0 && flipAt < endsBefore(ends, got) {
		vp.Reach("flipped-inside-returned-record?")
	}
}

func endsBefore(ends []int, got int) int {
	if got == 0 {
		return 0
	}
	return ends[got-1]
}

func VP_C15_Codec_k2()      { vpC15Codec(2, false) }
func VP_C15_Codec_k3()      { vpC15Codec(3, false) }
func VP_C15_Codec_k1_flip() { vpC15Codec(1, true) }
func VP_C15_Codec_k2_flip() { vpC15Codec(2, true) }

// C15-H1a: the decoder on an arbitrary buffer: no panic, and a record is returned only if the frame
// is consistent (length field within the buffer and crc(data) equal to the stored crc).
func vpC15Arbitrary(L int) {
	buf := vp.Bytes("buf", L)
	if L >= 8 {
		vp.Assume(buf[4] == 0 && buf[5] == 0 && buf[6] == 0 && buf[7] < 16) // length field < 16 (larger lengths: outside this harness)
	}
	dec := NewWALDecoder(bytes.NewReader(buf))
	m, err := dec.Decode()
	if err == nil {
		vp.Reach("accepted?")
		vp.Assert(m != nil && L >= 8, "C15.decode.record-needs-a-header")
		length := int(binary.BigEndian.Uint32(buf[4:8]))
		data := make([]byte, length) // what the decoder saw: the buffer's bytes, zero-padded if the buffer is short
		copy(data, buf[8:])
		vp.Assert(crc32.Checksum(data, crc32c) == binary.BigEndian.Uint32(buf[0:4]), "C15.decode.accepted-only-with-matching-crc")
	} else {
		vp.Reach("rejected")
		vp.Assert(err == io.EOF || IsDataCorruptionError(err), "C15.decode.errors-are-eof-or-data-corruption")
		if err == io.EOF {
			vp.Assert(L == 0, "C15.decode.eof-only-on-empty-input")
		}
	}
}

func VP_C15_Arbitrary_L0()  { vpC15Arbitrary(0) }
func VP_C15_Arbitrary_L3()  { vpC15Arbitrary(3) }
func VP_C15_Arbitrary_L8()  { vpC15Arbitrary(8) }
func VP_C15_Arbitrary_L10() { vpC15Arbitrary(10) }
func VP_C15_Arbitrary_L12() { vpC15Arbitrary(12) }

// ---------------------------------------------------------------- WAL on the (modelled) file system

type vpWritten struct {
	msg    WALMessage
	synced bool
}

func vpReadAll(w *BaseWAL) []WALMessage {
	var out []WALMessage
	gr, err := w.group.NewReader(w.group.MinIndex())
	if err != nil {
		panic(err)
	}
	defer gr.Close()
	dec := NewWALDecoder(gr)
	for {
		m, err := dec.Decode()
		if err != nil {
			break
		}
		out = append(out, m.Msg)
	}
	return out
}

// vpHeadCorrupted reports whether decoding the group hits a data-corruption error (a torn tail).
func vpCorrupted(w *BaseWAL) bool {
	gr, err := w.group.NewReader(w.group.MinIndex())
	if err != nil {
		panic(err)
	}
	defer gr.Close()
	dec := NewWALDecoder(gr)
	for {
		_, err := dec.Decode()
		if err == io.EOF {
			return false
		}
		if err != nil {
			return IsDataCorruptionError(err)
		}
	}
}

// vpOpenWithRepair opens the WAL the way State.OnStart does after a crash: on a corrupted (torn)
// head the file is backed up, repaired by copying its decodable prefix (repairWalFile), and reopened.
func vpOpenWithRepair(walFile string) *BaseWAL {
	w, err := NewWAL(walFile, autofile.GroupCheckDuration(time.Hour))
	if err != nil {
		panic(err)
	}
	if err := w.Start(); err != nil {
		panic(err)
	}
	if !vpCorrupted(w) {
		return w
	}
	vp.Reach("repaired?")
	if err := w.Stop(); err != nil {
		panic(err)
	}
	w.Wait()
	corrupted := walFile + ".CORRUPTED"
	if err := tmos.CopyFile(walFile, corrupted); err != nil {
		panic(err)
	}
	if err := repairWalFile(corrupted, walFile); err != nil {
		panic(err)
	}
	w, err = NewWAL(walFile, autofile.GroupCheckDuration(time.Hour))
	if err != nil {
		panic(err)
	}
	if err := w.Start(); err != nil {
		panic(err)
	}
	vp.Assert(!vpCorrupted(w), "C15.wal.repair-removes-the-torn-tail")
	return w
}

// C15-H2/H3: a history of writes, synced writes, rotations, stop/start and crashes on a real BaseWAL;
// afterwards a fresh reader returns every record whose WriteSync returned nil, in order, and only
// written records; SearchForEndHeight finds exactly the durably written markers.
func vpC15WAL(k int, crashes int) {
	vp.Opt("goroutines", 64)
	dir := vp.TempDir()
	walFile := dir + "/wal"
	w, err := NewWAL(walFile, autofile.GroupCheckDuration(time.Hour))
	if err != nil {
		panic(err)
	}
	if err := w.Start(); err != nil {
		panic(err)
	}
	written := []vpWritten{{EndHeightMessage{0}, true}}
	vp.CrashPoints(crashes)
	height := int64(1)
	func() {
		defer func() {
			if rec := recover(); rec != nil && !vp.Crashed() {
				panic(rec)
			}
		}()
		for step := 0; step < k; step++ {
			switch vp.Choice("op", 6) {
			case 0: // unsynced write
				m := timeoutInfo{Duration: time.Duration(step+1) * time.Millisecond, Height: height, Round: int32(step), Step: 1}
				written = append(written, vpWritten{m, false})
				if err := w.Write(m); err != nil {
					panic(err)
				}
			case 1: // synced write
				m := timeoutInfo{Duration: time.Duration(step+1) * time.Second, Height: height, Round: int32(step), Step: 2}
				written = append(written, vpWritten{m, false})
				if err := w.WriteSync(m); err != nil {
					panic(err)
				}
				for i := range written {
					written[i].synced = true
				}
			case 2: // end of height (always synced by consensus)
				m := EndHeightMessage{height}
				written = append(written, vpWritten{m, false})
				if err := w.WriteSync(m); err != nil {
					panic(err)
				}
				for i := range written {
					written[i].synced = true
				}
				height++
			case 3: // the head is rotated away (size limit reached)
				w.group.RotateFile()
				for i := range written {
					written[i].synced = true // RotateFile flushes and fsyncs the old head
				}
			case 4: // clean stop and restart
				if err := w.Stop(); err != nil {
					panic(err)
				}
				w.Wait()
				for i := range written {
					written[i].synced = true
				}
				w, err = NewWAL(walFile, autofile.GroupCheckDuration(time.Hour))
				if err != nil {
					panic(err)
				}
				if err := w.Start(); err != nil {
					panic(err)
				}
				if sz, _ := w.group.Head.Size(); sz == 0 {
					panic("head empty after start")
				}
			case 5: // explicit flush
				if err := w.FlushAndSync(); err != nil {
					panic(err)
				}
				for i := range written {
					written[i].synced = true
				}
			}
		}
	}()
	vp.CrashPoints(0)
	if vp.Crashed() {
		vp.Reach("crashed?")
		vp.Reboot()
		w = vpOpenWithRepair(walFile)
	}
	got := vpReadAll(w)
	// `got` must be: all synced records in order, possibly followed by some unsynced ones in order,
	// possibly with start-up markers (#ENDHEIGHT 0) that OnStart adds into an empty head.
	gi := 0
	for _, wr := range written {
		// skip start-up markers the restarts added
		for gi < len(got) && !vpSameWALMsg(got[gi], wr.msg) {
			eh, isEH := got[gi].(EndHeightMessage)
			vp.Assert(isEH && eh.Height == 0, "C15.wal.reader-returns-only-written-records-in-order")
			gi++
		}
		if gi < len(got) {
			gi++
			continue
		}
		vp.Assert(!wr.synced, "C15.wal.every-synced-record-is-returned")
	}
	vp.Reach("audited")
	// end-height search: found exactly for durably written markers
	for h := int64(1); h < height; h++ {
		synced := false
		for _, wr := range written {
			if eh, ok := wr.msg.(EndHeightMessage); ok && eh.Height == h && wr.synced {
				synced = true
			}
		}
		rd, found, err := w.SearchForEndHeight(h, &WALSearchOptions{})
		vp.Assert(err == nil, "C15.wal.search-no-error")
		if synced {
			vp.Reach("marker-searched?")
			vp.Assert(found, "C15.wal.durably-written-end-height-marker-is-found")
		}
		if found {
			rd.Close()
		}
	}
	_, found, _ := w.SearchForEndHeight(height+5, &WALSearchOptions{})
	vp.Assert(!found, "C15.wal.unwritten-marker-is-not-found")
}

func VP_C15_WAL_k3()        { vpC15WAL(3, 0) }
func VP_C15_WAL_k4()        { vpC15WAL(4, 0) }
func VP_C15_WAL_k3_crash1() { vpC15WAL(3, 1) }
func VP_C15_WAL_k4_crash1() { vpC15WAL(4, 1) }

// C15-H4: the repair path of State.OnStart itself, over several process lifetimes: each lifetime appends
// synced records and dies leaving a torn record at the end of the WAL; each restart runs the real
// OnStart (catch-up, backup, repairWalFile, reload).  After `lifetimes` such cycles a reader returns
// every synced record of every lifetime, in order.
func vpC15RepairLifetimes(lifetimes int) {
	vp.Opt("goroutines", 64)
	dir := vp.TempDir()
	walFile := dir + "/wal"
	var want []int32
	next := int32(1)
	tear := func() {
		// a record cut short by the crash: a few bytes of what would have been the next record
		f, err := os.OpenFile(walFile, os.O_WRONLY|os.O_APPEND, 0o600)
		if err != nil {
			panic(err)
		}
		n := 1 + vp.Choice("torn-bytes", 3)*4 // 1, 5 or 9 bytes
		if _, err := f.Write(bytes.Repeat([]byte{0x17}, n)); err != nil {
			panic(err)
		}
		f.Close()
	}
	appendRecords := func(w WAL, n int) {
		for i := 0; i < n; i++ {
			if err := w.WriteSync(tmtypesEventRound(next)); err != nil {
				panic(err)
			}
			want = append(want, next)
			next++
		}
	}
	// first lifetime: a fresh WAL
	w0, err := NewWAL(walFile, autofile.GroupCheckDuration(time.Hour))
	if err != nil {
		panic(err)
	}
	if err := w0.Start(); err != nil {
		panic(err)
	}
	appendRecords(w0, 2)
	w0.Stop()
	w0.Wait()
	tear()
	for life := 1; life <= lifetimes; life++ {
		cs, _ := vpBareState()
		cs.config.SetWalFile(walFile)
		cs.timeoutTicker = &vpTicker{w: &vpWorld{}}
		// (the event switch is already running, so OnStart returns right after the WAL catch-up and
		// no consensus routine is started)
		if err := cs.evsw.Start(); err != nil {
			panic(err)
		}
		err := cs.OnStart()
		vp.Assert(err != nil && !IsDataCorruptionError(err), "C15.repair.restart-gets-past-the-torn-tail")
		vp.Reach("restarted")
		if life < lifetimes {
			appendRecords(cs.wal, 2)
			cs.wal.Stop()
			cs.wal.Wait()
			tear()
		} else {
			cs.wal.Stop()
			cs.wal.Wait()
		}
	}
	r, err := NewWAL(walFile, autofile.GroupCheckDuration(time.Hour))
	if err != nil {
		panic(err)
	}
	if err := r.Start(); err != nil {
		panic(err)
	}
	var got []int32
	for _, m := range vpReadAll(r) {
		if e, ok := m.(types.EventDataRoundState); ok {
			got = append(got, e.Round)
		}
	}
	vp.Assert(len(got) == len(want), "C15.repair.every-synced-record-of-every-lifetime-is-returned")
	for i := range got {
		if i < len(want) {
			vp.Assert(got[i] == want[i], "C15.repair.records-come-back-in-order")
		}
	}
}

func tmtypesEventRound(r int32) types.EventDataRoundState {
	return types.EventDataRoundState{Height: 1, Round: r, Step: "RoundStepNewHeight"}
}

func VP_C15_Repair_1() { vpC15RepairLifetimes(1) }
func VP_C15_Repair_2() { vpC15RepairLifetimes(2) }

// C15-H5: replay of the unfinished height at the chain's first height, for chains that do not start
// at height 1: the WAL of a node that crashed in its first height begins with the end-of-height marker
// for height 0 whatever the initial height is; the logged records of the unfinished height are replayed.
func VP_C15_CatchupAtInitialHeight() {
	ih := int64([]int{1, 2, 10}[vp.Choice("initial-height", 3)])
	var keys []ed25519.PrivKey
	vals := make([]types.GenesisValidator, 4)
	for i := range vals {
		k := ed25519.GenPrivKeyFromSecret([]byte{'c', 's', byte(i)})
		keys = append(keys, k)
		vals[i] = types.GenesisValidator{Address: k.PubKey().Address(), PubKey: k.PubKey(), Power: 10, Name: "v"}
	}
	gen := &types.GenesisDoc{GenesisTime: time.Date(2022, 1, 1, 0, 0, 0, 0, time.UTC), ChainID: vpStepChain, InitialHeight: ih,
		ConsensusParams: types.DefaultConsensusParams(), Validators: vals}
	state, err := sm.MakeGenesisState(gen)
	if err != nil {
		panic(err)
	}
	stateStore := sm.NewStore(dbm.NewMemDB(), sm.StoreOptions{})
	blockExec := sm.NewBlockExecutor(stateStore, log.NewNopLogger(), nil, emptyMempool{}, sm.EmptyEvidencePool{})
	cs := NewState(cfg.DefaultConsensusConfig(), state, blockExec, &vpBlockStoreStub{w: &vpWorld{}}, nil, sm.EmptyEvidencePool{})
	cs.timeoutTicker = &vpTicker{w: &vpWorld{}}
	bus := types.NewEventBus()
	if err := bus.Start(); err != nil {
		panic(err)
	}
	cs.SetEventBus(bus)
	vp.Assert(cs.Height == ih && cs.Step == cstypes.RoundStepNewHeight, "C15.catchup.harness-starts-at-the-initial-height")
	walFile := vp.TempDir() + "/wal"
	w, err := NewWAL(walFile, autofile.GroupCheckDuration(time.Hour))
	if err != nil {
		panic(err)
	}
	if err := w.Start(); err != nil { // a fresh WAL begins with the marker for height 0
		panic(err)
	}
	if err := w.WriteSync(timeoutInfo{Duration: time.Second, Height: ih, Round: 0, Step: cstypes.RoundStepNewHeight}); err != nil {
		panic(err)
	}
	w.Stop()
	w.Wait()
	w2, err := NewWAL(walFile, autofile.GroupCheckDuration(time.Hour))
	if err != nil {
		panic(err)
	}
	if err := w2.Start(); err != nil {
		panic(err)
	}
	cs.wal = w2
	err = cs.catchupReplay(cs.Height)
	vp.Assert(err == nil, "C15.catchup.the-unfinished-first-height-is-replayed-whatever-the-initial-height")
	vp.Assert(cs.Step > cstypes.RoundStepNewHeight, "C15.catchup.logged-timeout-of-the-unfinished-height-took-effect")
	vp.Reach("replayed")
}

// C15-H4b: damage in the middle of the unfinished height (one byte of the checksum or of the payload of
// a record that is followed by intact records; the length field is untouched, so framing stays aligned).
// The real OnStart backs the file up and repairs it: what a reader gets afterwards is exactly the
// records before the damaged one - nothing from behind the hole.
func VP_C15_RepairMidCorruption() {
	vp.Opt("goroutines", 64)
	dir := vp.TempDir()
	walFile := dir + "/wal"
	w0, err := NewWAL(walFile, autofile.GroupCheckDuration(time.Hour))
	if err != nil {
		panic(err)
	}
	if err := w0.Start(); err != nil {
		panic(err)
	}
	for r := int32(1); r <= 4; r++ {
		if err := w0.WriteSync(tmtypesEventRound(r)); err != nil {
			panic(err)
		}
	}
	w0.Stop()
	w0.Wait()
	raw, err := os.ReadFile(walFile)
	if err != nil {
		panic(err)
	}
	// record k starts at starts[k]: crc (4) | length (4) | payload; record 0 is the start-up marker
	var starts []int
	for off := 0; off+8 <= len(raw); {
		starts = append(starts, off)
		off += 8 + int(binary.BigEndian.Uint32(raw[off+4:off+8]))
	}
	if len(starts) != 5 {
		panic("expected the start-up marker and four records")
	}
	damaged := 1 + vp.Choice("damaged-record", 3) // one of our first three records (intact records follow)
	pos := starts[damaged]                         // first checksum byte
	if vp.Bool("damage-in-payload") {
		pos = starts[damaged] + 8 + 1
	}
	raw[pos] ^= 0x40
	if err := os.WriteFile(walFile, raw, 0o600); err != nil {
		panic(err)
	}
	cs, _ := vpBareState()
	cs.config.SetWalFile(walFile)
	cs.timeoutTicker = &vpTicker{w: &vpWorld{}}
	if err := cs.evsw.Start(); err != nil {
		panic(err)
	}
	err = cs.OnStart()
	vp.Assert(err != nil && !IsDataCorruptionError(err), "C15.repair.restart-gets-past-the-damaged-record")
	vp.Reach("restarted")
	cs.wal.Stop()
	cs.wal.Wait()
	r, err := NewWAL(walFile, autofile.GroupCheckDuration(time.Hour))
	if err != nil {
		panic(err)
	}
	if err := r.Start(); err != nil {
		panic(err)
	}
	var got []int32
	for _, m := range vpReadAll(r) {
		if e, ok := m.(types.EventDataRoundState); ok {
			got = append(got, e.Round)
		}
	}
	vp.Assert(len(got) == damaged-1, "C15.repair.only-the-decodable-prefix-survives(no-records-from-behind-the-hole)")
	for i := range got {
		vp.Assert(got[i] == int32(i+1), "C15.repair.records-come-back-in-order")
	}
}
