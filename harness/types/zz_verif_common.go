//go:build verif

package types

import (
	"math/bits"
	"time"

	"github.com/tendermint/tendermint/crypto"
	"github.com/tendermint/tendermint/crypto/ed25519"
	vp "github.com/tendermint/tendermint/internal/verifvp"
	tmproto "github.com/tendermint/tendermint/proto/tendermint/types"
)

const vpChainID = "vp-chain"

// vpKey returns a deterministic real ed25519 key.
func vpKey(i int) ed25519.PrivKey { return ed25519.GenPrivKeyFromSecret([]byte{'v', 'p', byte(i)}) }

// vpSignMaybe signs msg with priv; if !valid the returned signature does not verify.
// Under the engine the ideal signature oracle is used, natively real ed25519.
func vpSignMaybe(priv crypto.PrivKey, msg []byte, valid bool) []byte {
	if vp.Symbolic() {
		return vp.IdealSig(priv.PubKey().Bytes(), msg, valid)
	}
	sig, err := priv.Sign(msg)
	if err != nil {
		panic(err)
	}
	if !valid {
		sig[0] ^= 0x55
		sig[63] ^= 0x01
	}
	return sig
}

// vpPowers returns n symbolic voting powers with 1 <= p and sum <= MaxTotalVotingPower.
func vpPowers(n int) []int64 { return vpPowersMax(n, MaxTotalVotingPower) }

// vpPowersMax: as vpPowers with the total bounded by max.
func vpPowersMax(n int, max int64) []int64 {
	ps := make([]int64, n)
	sum := int64(0)
	for i := range ps {
		ps[i] = vp.Int64("power")
		vp.Assume(ps[i] >= 1 && ps[i] <= max)
		sum += ps[i]
		vp.Assume(sum <= max)
	}
	return ps
}

// vpMoreThan reports num*a > den*b... i.e. a/b > den/num for small constant factors (no overflow for a, b <= 2^60, factors <= 3).
func vpMoreThan23(p, total uint64) bool { return 3*p > 2*total }

// vpValSetRaw builds a validator set directly (no sorting / priority computation: see C08 for those).
func vpValSetRaw(keys []ed25519.PrivKey, powers []int64) *ValidatorSet {
	vals := make([]*Validator, len(keys))
	for i := range keys {
		pk := keys[i].PubKey()
		vals[i] = &Validator{Address: pk.Address(), PubKey: pk, VotingPower: powers[i]}
	}
	return &ValidatorSet{Validators: vals}
}

func vpBlockID(tag byte) BlockID {
	h := make([]byte, 32)
	h[0] = tag
	ph := make([]byte, 32)
	ph[0] = tag
	ph[1] = 0xee
	return BlockID{Hash: h, PartSetHeader: PartSetHeader{Total: 1, Hash: ph}}
}

func vpTime(sec int64) time.Time { return time.Unix(sec, 0).UTC() }

// vpGt128 reports a*b > c*d for non-negative 64-bit operands, in 128-bit arithmetic.
func vpGt128(a, b, c, d uint64) bool {
	h1, l1 := bits.Mul64(a, b)
	h2, l2 := bits.Mul64(c, d)
	return h1 > h2 || (h1 == h2 && l1 > l2)
}

// vpPrecommitSignBytes builds, independently of Commit.VoteSignBytes, the canonical sign bytes of a precommit.
func vpPrecommitSignBytes(chainID string, typ tmproto.SignedMsgType, height int64, round int32, bid BlockID, ts time.Time) []byte {
	v := &Vote{Type: typ, Height: height, Round: round, BlockID: bid, Timestamp: ts}
	return VoteSignBytes(chainID, v.ToProto())
}
