//go:build verif

package types

import (
	"bytes"

	"github.com/tendermint/tendermint/crypto/ed25519"
	vp "github.com/tendermint/tendermint/internal/verifvp"
	tmmath "github.com/tendermint/tendermint/libs/math"
	tmproto "github.com/tendermint/tendermint/proto/tendermint/types"
)

var vpPreferInt = 0

const (
	vpHeight = int64(7)
	vpRound  = int32(1)
)

// vpSlot describes what the adversary put into one commit slot.
type vpSlot struct {
	flag     BlockIDFlag
	msgExact bool // the signed message is exactly the canonical precommit the slot stands for (chain, height, round, block id per flag, slot timestamp)
	forBlock bool // flag == commit
	signer   int  // index of the key that really produced the signature (-1: stranger / junk)
}

// counts: the slot is a valid for-block signature of validator v.
func (s vpSlot) countsFor(v int) bool { return s.forBlock && s.msgExact && s.signer == v }

// okFor: the slot's signature is valid for what the slot claims, under validator v's key.
func (s vpSlot) okFor(v int) bool { return s.msgExact && s.signer == v }

// vpMakeSlot fills commit slot idx. keys[idx] is the validator at that index of the commit's set.
// The signature is over one of: the right message, a message differing in exactly one bound field
// (only when `rich`: one designated slot explores all single-field deviations), a message signed by
// another key, or junk.
func vpMakeSlot(keys []ed25519.PrivKey, idx int, commitBID BlockID, cs *CommitSig, rich bool) vpSlot {
	flagByte := vp.Uint8("flag")
	vp.Assume(flagByte >= 1 && flagByte <= 3)
	flag := BlockIDFlag(flagByte)
	s := vpSlot{flag: flag, signer: -1, forBlock: flag == BlockIDFlagCommit}
	cs.BlockIDFlag = flag
	if flag == BlockIDFlagAbsent {
		return s
	}
	ts := vpTime(1000 + int64(idx))
	cs.Timestamp = ts
	cs.ValidatorAddress = keys[idx].PubKey().Address()
	claimedBID := commitBID
	if flag == BlockIDFlagNil {
		claimedBID = BlockID{}
	}
	chain, typ, h, r, bid, sts, keyIdx, valid := vpChainID, tmproto.PrecommitType, vpHeight, vpRound, claimedBID, ts, idx, true
	exact := false
	nvar := 3
	if rich {
		nvar = 11
	}
	switch vp.Choice("signed", nvar) {
	case 0:
		exact = true
	case 1:
		keyIdx = (idx + 1) % len(keys) // genuine signature by another validator of the set
		if len(keys) == 1 {
			keyIdx = 99
		}
		exact = true
	case 2:
		valid = false // junk bytes
	case 3:
		chain = "other-chain"
	case 4:
		h = vpHeight + 1
	case 5:
		r = vpRound + 1
	case 6:
		bid = vpBlockID(0xBB) // another block
	case 7:
		bid = BlockID{Hash: commitBID.Hash, PartSetHeader: PartSetHeader{Total: 2, Hash: commitBID.PartSetHeader.Hash}} // same hash, other part-set header
	case 8:
		typ = tmproto.PrevoteType
	case 9:
		sts = vpTime(5)
	case 10:
		// the other kind of vote: a nil precommit in a for-block slot, a for-block precommit in a nil slot
		if flag == BlockIDFlagCommit {
			bid = BlockID{}
		} else {
			bid = commitBID
		}
	}
	var key ed25519.PrivKey
	if keyIdx == 99 {
		key = vpKey(99)
	} else {
		key = keys[keyIdx]
	}
	msg := vpPrecommitSignBytes(chain, typ, h, r, bid, sts)
	cs.Signature = vpSignMaybe(key, msg, valid)
	s.msgExact = exact && valid
	if valid && keyIdx != 99 {
		s.signer = keyIdx
	}
	return s
}

// C07-H1: VerifyCommit / VerifyCommitLight against the big-integer reference.
func vpC07Verify(n int, extra int) (error, error) {
	vp.Opt("prefer_int", vpPreferInt)
	keys := make([]ed25519.PrivKey, n)
	for i := range keys {
		keys[i] = vpKey(i)
	}
	powers := vpPowers(n)
	vals := vpValSetRaw(keys, powers)
	bid := vpBlockID(0xAA)
	commit := &Commit{Height: vpHeight, Round: vpRound, BlockID: bid, Signatures: make([]CommitSig, n+extra)}
	slots := make([]vpSlot, n)
	richSlot := vp.Range("rich-slot", 0, n-1)
	for i := 0; i < n; i++ {
		slots[i] = vpMakeSlot(keys, i, bid, &commit.Signatures[i], i == richSlot)
	}
	for i := n; i < n+extra; i++ {
		commit.Signatures[i] = CommitSig{BlockIDFlag: BlockIDFlagAbsent}
	}
	// the arguments may differ from what the commit says
	argHeight, argBID := vpHeight, bid
	switch vp.Choice("args", 3) {
	case 1:
		argHeight = vpHeight + 1
	case 2:
		argBID = vpBlockID(0xCC)
	}
	errFull := vals.VerifyCommit(vpChainID, argBID, argHeight, commit)
	errLight := vals.VerifyCommitLight(vpChainID, argBID, argHeight, commit)

	var total, good uint64
	allValid := true
	for i := 0; i < n; i++ {
		total += uint64(powers[i])
		if slots[i].countsFor(i) {
			good += uint64(powers[i])
		}
		if slots[i].flag != BlockIDFlagAbsent && !slots[i].okFor(i) {
			allValid = false
		}
	}
	enough := vpGt128(good, 3, total, 2)
	argsMatch := argHeight == vpHeight && argBID.Equals(bid) && extra == 0
	if errFull == nil {
		vp.Assert(argsMatch, "C07.full.accepts-only-matching-height-blockid-size")
		vp.Assert(enough, "C07.full.accept-implies-more-than-two-thirds-valid-for-block")
		vp.Assert(allValid, "C07.full.accept-implies-every-present-signature-valid")
	}
	if errLight == nil {
		vp.Assert(argsMatch, "C07.light.accepts-only-matching-height-blockid-size")
		vp.Assert(enough, "C07.light.accept-implies-more-than-two-thirds-valid-for-block")
	}
	if allValid {
		vp.Assert((errFull == nil) == (errLight == nil), "C07.full-and-light-agree-when-all-signatures-valid")
		if argsMatch {
			vp.Assert((errFull == nil) == enough, "C07.full.exact-when-all-signatures-valid")
		}
	}
	return errFull, errLight
}

func vpC07Witness(errFull, errLight error) {
	if errFull == nil {
		vp.Reach("full-accepts")
	} else {
		vp.Reach("full-rejects")
	}
	if errLight == nil {
		vp.Reach("light-accepts")
	}
	if errFull != nil && errLight == nil {
		vp.Reach("light-accepts-what-full-rejects") // early exit: junk after the 2/3 point
	}
}

func VP_C07_Verify_n1()       { vpC07Verify(1, 0) }
func VP_C07_Verify_n2()       { vpC07Witness(vpC07Verify(2, 0)) }
func VP_C07_Verify_n3()       { vpC07Witness(vpC07Verify(3, 0)) }
func VP_C07_Verify_n2_extra() { vpC07Verify(2, 1) }
func VP_C07_Verify_n4()       { vpC07Witness(vpC07Verify(4, 0)) }

// C07-H1c: VerifyCommitLightTrusting with a trusted set that overlaps the commit's signers arbitrarily.
func vpC07Trusting(n, m int, nlevels int) {
	vp.Opt("prefer_int", vpPreferInt)
	keys := make([]ed25519.PrivKey, n)
	for i := range keys {
		keys[i] = vpKey(i)
	}
	bid := vpBlockID(0xAA)
	commit := &Commit{Height: vpHeight, Round: vpRound, BlockID: bid, Signatures: make([]CommitSig, n)}
	slots := make([]vpSlot, n)
	claimed := make([]int, n) // whose address the slot carries (-1: a stranger's)
	richSlot := vp.Range("rich-slot", 0, n-1)
	for i := 0; i < n; i++ {
		slots[i] = vpMakeSlot(keys, i, bid, &commit.Signatures[i], i == richSlot && n == 1)
		claimed[i] = i
		// the address a slot claims need not be the signer's: the sign bytes do not cover it
		if slots[i].flag != BlockIDFlagAbsent {
			who := vp.Range("claimed-address", 0, n)
			if who < n {
				commit.Signatures[i].ValidatorAddress = keys[who].PubKey().Address()
				claimed[i] = who
			} else {
				commit.Signatures[i].ValidatorAddress = vpKey(77).PubKey().Address()
				claimed[i] = -1
			}
		}
	}
	// trusted set: m members, each one of the commit's signers (distinct) or a stranger
	tkeys := make([]ed25519.PrivKey, 0, m)
	member := make([]int, 0, m) // index into keys or -1
	used := map[int]bool{}
	for j := 0; j < m; j++ {
		w := vp.Range("trusted-member", 0, n)
		if w < n && !used[w] {
			used[w] = true
			tkeys = append(tkeys, keys[w])
			member = append(member, w)
		} else {
			tkeys = append(tkeys, vpKey(50+j))
			member = append(member, -1)
		}
	}
	tpowers := vpPowers(m)
	trusted := vpValSetRaw(tkeys, tpowers)
	levels := []tmmath.Fraction{{Numerator: 1, Denominator: 3}, {Numerator: 2, Denominator: 3}, {Numerator: 1, Denominator: 1}, {Numerator: 1, Denominator: 2}, {Numerator: 0, Denominator: 1}}
	lvl := levels[vp.Choice("trust-level", nlevels)]
	err := trusted.VerifyCommitLightTrusting(vpChainID, commit, lvl)
	if err != nil {
		vp.Reach("trusting-rejects")
		return
	}
	vp.Reach("trusting-accepts")
	var total, good uint64
	counted := map[int]bool{}
	for j := 0; j < m; j++ {
		total += uint64(tpowers[j])
	}
	for i := 0; i < n; i++ {
		if claimed[i] < 0 || !slots[i].countsFor(claimed[i]) {
			continue
		}
		for j := 0; j < m; j++ {
			if member[j] == claimed[i] && !counted[j] {
				counted[j] = true
				good += uint64(tpowers[j])
			}
		}
	}
	vp.Assert(vpGt128(good, uint64(lvl.Denominator), total, uint64(lvl.Numerator)), "C07.trusting.accept-implies-more-than-trust-level-valid-distinct-members")
}

func VP_C07_Trusting_n1_m1() { vpC07Trusting(1, 1, 5) }
func VP_C07_Trusting_n2_m1() { vpC07Trusting(2, 1, 2) }
func VP_C07_Trusting_n2_m2() { vpC07Trusting(2, 2, 2) }
func VP_C07_Trusting_n3_m2() { vpC07Trusting(3, 2, 1) }

// zero denominator and overflowing numerators are refused
func VP_C07_TrustLevelGuards() {
	keys := []ed25519.PrivKey{vpKey(0)}
	powers := vpPowers(1)
	vals := vpValSetRaw(keys, powers)
	bid := vpBlockID(0xAA)
	commit := &Commit{Height: vpHeight, Round: vpRound, BlockID: bid, Signatures: make([]CommitSig, 1)}
	cs := &commit.Signatures[0]
	cs.BlockIDFlag = BlockIDFlagCommit
	cs.Timestamp = vpTime(1000)
	cs.ValidatorAddress = keys[0].PubKey().Address()
	cs.Signature = vpSignMaybe(keys[0], vpPrecommitSignBytes(vpChainID, tmproto.PrecommitType, vpHeight, vpRound, bid, cs.Timestamp), true)
	num := vp.Uint64("num")
	den := vp.Uint64("den")
	vp.Assume(num <= 1<<62 && den <= 8)
	err := vals.VerifyCommitLightTrusting(vpChainID, commit, tmmath.Fraction{Numerator: num, Denominator: den})
	if den == 0 {
		vp.Assert(err != nil, "C07.trusting.zero-denominator-refused")
		return
	}
	if err == nil {
		vp.Reach("accepted")
		// one signer holding all the power: accepted iff power*den > power*num, i.e. den > num
		vp.Assert(den > num, "C07.trusting.single-signer-accepted-only-below-full-level")
	}
}

// C07-H3: the canonical sign bytes are injective in every field they are meant to bind:
// two votes with equal sign bytes agree on chain id, type, height, round, block id and timestamp.
func vpSymVote(tag string, small bool) (string, *Vote) {
	chains := []string{"c", "cc", "c\x12"}
	chain := chains[vp.Choice(tag+".chain", len(chains))]
	v := &Vote{}
	t := vp.Uint8(tag + ".type")
	vp.Assume(t <= 2 || t == 32)
	v.Type = tmproto.SignedMsgType(t)
	v.Height = vp.Int64(tag + ".height")
	v.Round = vp.Int32(tag + ".round")
	if small {
		vp.Assume(v.Height > 0 && v.Round > 0 && v.Type != 0)
	}
	if vp.Bool(tag + ".hasBlock") {
		h := make([]byte, 32)
		h[0] = vp.Byte(tag + ".hash0")
		h[31] = vp.Byte(tag + ".hash31")
		ph := make([]byte, 32)
		ph[5] = vp.Byte(tag + ".phash5")
		v.BlockID = BlockID{Hash: h, PartSetHeader: PartSetHeader{Total: vp.Uint32(tag + ".total"), Hash: ph}}
		if small {
			vp.Assume(v.BlockID.PartSetHeader.Total >= 1 && v.BlockID.PartSetHeader.Total < 128)
		}
	}
	sec := vp.Int64(tag + ".sec")
	if small {
		vp.Assume(sec >= 1<<28 && sec < 1<<34)
	} else {
		vp.Assume(sec >= 1 && sec < 1<<35)
	}
	v.Timestamp = vpTime(sec)
	return chain, v
}

func vpC07Injective(small bool) {
	c1, v1 := vpSymVote("a", small)
	c2, v2 := vpSymVote("b", small)
	b1 := VoteSignBytes(c1, v1.ToProto())
	b2 := VoteSignBytes(c2, v2.ToProto())
	if string(b1) != string(b2) {
		return
	}
	vp.Reach("equal-sign-bytes")
	vp.Assert(c1 == c2, "C07.signbytes.bind-chain-id")
	vp.Assert(v1.Type == v2.Type, "C07.signbytes.bind-type")
	vp.Assert(v1.Height == v2.Height, "C07.signbytes.bind-height")
	vp.Assert(v1.Round == v2.Round, "C07.signbytes.bind-round")
	vp.Assert(v1.BlockID.Equals(v2.BlockID), "C07.signbytes.bind-block-id")
	vp.Assert(v1.Timestamp.Equal(v2.Timestamp), "C07.signbytes.bind-timestamp")
}

func VP_C07_SignBytesInjective_small() { vpC07Injective(true) }
func VP_C07_SignBytesInjective_full()  { vpC07Injective(false) }

// C07-H1d: repeated signers.  Every slot is a genuine for-block signature by one of the m trusted
// members (so the same member may sign several slots, in any positions); accepted only if the
// *distinct* signers reach the trust level.
func vpC07Repeat(n, m int) {
	vp.Opt("prefer_int", vpPreferInt)
	keys := make([]ed25519.PrivKey, m)
	for i := range keys {
		keys[i] = vpKey(i)
	}
	tpowers := vpPowers(m)
	trusted := vpValSetRaw(keys, tpowers)
	bid := vpBlockID(0xAA)
	commit := &Commit{Height: vpHeight, Round: vpRound, BlockID: bid, Signatures: make([]CommitSig, n)}
	signer := make([]int, n)
	for i := 0; i < n; i++ {
		w := vp.Choice("signer", m)
		signer[i] = w
		cs := &commit.Signatures[i]
		cs.BlockIDFlag = BlockIDFlagCommit
		cs.Timestamp = vpTime(1000 + int64(i))
		cs.ValidatorAddress = keys[w].PubKey().Address()
		cs.Signature = vpSignMaybe(keys[w], vpPrecommitSignBytes(vpChainID, tmproto.PrecommitType, vpHeight, vpRound, bid, cs.Timestamp), true)
	}
	levels := []tmmath.Fraction{{Numerator: 1, Denominator: 3}, {Numerator: 2, Denominator: 3}}
	lvl := levels[vp.Choice("trust-level", len(levels))]
	err := trusted.VerifyCommitLightTrusting(vpChainID, commit, lvl)
	if err != nil {
		vp.Reach("rejected")
		return
	}
	vp.Reach("accepted")
	var total, good uint64
	seen := map[int]bool{}
	for j := 0; j < m; j++ {
		total += uint64(tpowers[j])
	}
	for i := 0; i < n; i++ {
		if !seen[signer[i]] {
			seen[signer[i]] = true
			good += uint64(tpowers[signer[i]])
		}
	}
	vp.Assert(uint64(lvl.Denominator)*good > uint64(lvl.Numerator)*total, "C07.trusting.repeated-signers-count-once")
}

func VP_C07_Repeat_n2_m2() { vpC07Repeat(2, 2) }
func VP_C07_Repeat_n3_m2() { vpC07Repeat(3, 2) }
func VP_C07_Repeat_n4_m3() { vpC07Repeat(4, 3) }

// C07-H1d: votes for nil never commit anything: a commit for a block id with an empty hash but a
// non-zero part-set header (well-formed for ValidateBasic, and not the nil id) whose slots carry the
// validators' genuine precommits for nil is rejected by all three variants.
func VP_C07_NilVotesCommitNothing() {
	n := 3
	keys := make([]ed25519.PrivKey, n)
	powers := make([]int64, n)
	for i := range keys {
		keys[i] = vpKey(i)
		powers[i] = 10
	}
	vals := vpValSetRaw(keys, powers)
	psh := PartSetHeader{Total: 1, Hash: vpBlockID(0x77).PartSetHeader.Hash}
	var bid BlockID
	switch vp.Choice("commit-block-id", 2) {
	case 0:
		bid = BlockID{Hash: nil, PartSetHeader: psh} // no hash, but parts
	case 1:
		bid = BlockID{Hash: []byte{}, PartSetHeader: psh}
	}
	commit := &Commit{Height: vpHeight, Round: vpRound, BlockID: bid, Signatures: make([]CommitSig, n)}
	for i, v := range vals.Validators {
		var key ed25519.PrivKey
		for _, k := range keys {
			if string(k.PubKey().Address()) == string(v.Address) {
				key = k
			}
		}
		vote := &Vote{Type: tmproto.PrecommitType, Height: vpHeight, Round: vpRound, BlockID: BlockID{}, Timestamp: vpTime(1000), ValidatorAddress: v.Address, ValidatorIndex: int32(i)}
		sig, err := key.Sign(VoteSignBytes(vpChainID, vote.ToProto()))
		if err != nil {
			panic(err)
		}
		commit.Signatures[i] = CommitSig{BlockIDFlag: BlockIDFlagCommit, ValidatorAddress: v.Address, Timestamp: vpTime(1000), Signature: sig}
	}
	vp.Assert(vals.VerifyCommit(vpChainID, bid, vpHeight, commit) != nil, "C07.full.precommits-for-nil-commit-nothing")
	vp.Assert(vals.VerifyCommitLight(vpChainID, bid, vpHeight, commit) != nil, "C07.light.precommits-for-nil-commit-nothing")
	vp.Assert(vals.VerifyCommitLightTrusting(vpChainID, commit, tmmath.Fraction{Numerator: 1, Denominator: 3}) != nil, "C07.trusting.precommits-for-nil-commit-nothing")
	vp.Reach("checked")
}

// C07-H1e: the fraction is of the set's real total power, also for a set decoded from a message:
// whatever total the message claims, the decoded set's total is the sum of its members' powers.
func VP_C07_DecodedSetTotal() {
	n := 3
	keys := make([]ed25519.PrivKey, n)
	powers := make([]int64, n)
	var sum int64
	for i := range keys {
		keys[i] = vpKey(i)
		powers[i] = int64(vp.Range("power", 1, 3)) * 5
		sum += powers[i]
	}
	vals := NewValidatorSet(vpValSetRaw(keys, powers).Validators)
	pb, err := vals.ToProto()
	if err != nil {
		panic(err)
	}
	claimed := vp.Int64("claimed-total")
	vp.Assume(vp.And(claimed >= 0, claimed <= 64))
	pb.TotalVotingPower = claimed
	got, err := ValidatorSetFromProto(pb)
	if err != nil {
		vp.Reach("refused?")
		return
	}
	vp.Reach("decoded")
	vp.Assert(got.TotalVotingPower() == sum, "C07.decoded-set-total-is-the-sum-of-its-members'-powers")
}

// C07 (the commit is for the block the caller asks about): the only link between the caller's block
// id and the one the signatures cover is BlockID.Equals.  Two block ids of any valid shape (hash and
// part-set hash absent or 32 bytes, symbolic bytes, symbolic part count) are equal exactly when
// every field is.
func VP_C07_BlockIDEquality() {
	mk := func(tag string) BlockID {
		hl := []int{0, 32}[vp.Choice(tag+".hash-length", 2)]
		pl := []int{0, 32}[vp.Choice(tag+".parts-hash-length", 2)]
		total := vp.Uint32(tag + ".parts-total")
		vp.Assume(total < 1<<14)
		return BlockID{Hash: vp.Bytes(tag+".hash", hl), PartSetHeader: PartSetHeader{Total: total, Hash: vp.Bytes(tag+".parts-hash", pl)}}
	}
	a, b := mk("a"), mk("b")
	want := vp.And(bytes.Equal(a.Hash, b.Hash), a.PartSetHeader.Total == b.PartSetHeader.Total, bytes.Equal(a.PartSetHeader.Hash, b.PartSetHeader.Hash))
	got := a.Equals(b)
	vp.Assert(got == want, "C07.verify.block-ids-are-equal-exactly-when-every-field-is")
	vp.Reach("compared")
}
