//go:build verif

package types

import (
	"context"

	abci "github.com/tendermint/tendermint/abci/types"
	vp "github.com/tendermint/tendermint/internal/verifvp"
	tmquery "github.com/tendermint/tendermint/libs/pubsub/query"
)

// C19 (a subscriber receives every published event that matches its query): the event bus turns the
// application's events into the attribute map the queries are matched against.  One transaction result
// carries an event with three attributes whose keys are drawn from {"", "sender", "recipient"} (an
// application may emit an empty key; it is skipped, alone); a subscriber asks for
// transfer.recipient = 'bob' and must get the transaction exactly when some attribute says so.
func VP_C19_EventBusAttributes() {
	vp.Opt("realqueries", 1)
	bus := NewEventBus()
	if err := bus.Start(); err != nil {
		panic(err)
	}
	q := tmquery.MustParse("tm.event = 'Tx' AND transfer.recipient = 'bob'")
	sub, err := bus.Subscribe(context.Background(), "client", q, 4)
	if err != nil {
		panic(err)
	}
	keys := []string{"", "sender", "recipient"}
	var attrs []abci.EventAttribute
	want := false
	for i := 0; i < 3; i++ {
		k := keys[vp.Choice("attribute-key", len(keys))]
		v := []string{"bob", "eve"}[vp.Choice("attribute-value", 2)]
		attrs = append(attrs, abci.EventAttribute{Key: []byte(k), Value: []byte(v)})
		if k == "recipient" && v == "bob" {
			want = true
		}
	}
	typ := []string{"transfer", ""}[vp.Choice("event-type", 2)]
	if typ == "" {
		want = false
	}
	res := abci.ResponseDeliverTx{Events: []abci.Event{{Type: "", Attributes: []abci.EventAttribute{{Key: []byte("x"), Value: []byte("y")}}}, {Type: typ, Attributes: attrs}}}
	if err := bus.PublishEventTx(EventDataTx{TxResult: abci.TxResult{Height: 1, Index: 0, Tx: Tx{1}, Result: res}}); err != nil {
		panic(err)
	}
	vp.Settle()
	got := false
	select {
	case <-sub.Out():
		got = true
	default:
	}
	vp.Assert(got == want, "C19.bus.subscriber-gets-the-transaction-exactly-when-one-of-its-event-attributes-matches(empty-keys-skipped-alone)")
	vp.Reach("published")
}
