//go:build verif

package types

import (
	"bytes"
	"io"

	"github.com/tendermint/tendermint/crypto/merkle"
	vp "github.com/tendermint/tendermint/internal/verifvp"
)

// vpSymPart builds a fully symbolic part: index, bytes (length 0..maxLen) and proof are all chosen by the solver.
func vpSymPart(maxLen int, maxAunts int) *Part {
	p := &Part{Index: vp.Uint32("part.Index")}
	p.Bytes = vp.Bytes("part.Bytes", vp.Range("part.len", 0, maxLen))
	p.Proof.Total = vp.Int64("part.Proof.Total")
	p.Proof.Index = vp.Int64("part.Proof.Index")
	p.Proof.LeafHash = vp.Bytes("part.Proof.LeafHash", 32)
	na := vp.Range("part.aunts", 0, maxAunts)
	for i := 0; i < na; i++ {
		p.Proof.Aunts = append(p.Proof.Aunts, vp.Bytes("part.Proof.Aunt", 32))
	}
	return p
}

// vpTamperedPart takes a genuine part and replaces one field (or transplants it to another position).
func vpTamperedPart(src *PartSet, maxLen int) *Part {
	total := int(src.Total())
	g := src.GetPart(vp.Range("genuine", 0, total-1))
	p := &Part{Index: g.Index, Bytes: g.Bytes, Proof: g.Proof}
	switch vp.Choice("tamper", 6) {
	case 0: // untouched
	case 1:
		p.Index = vp.Uint32("t.Index")
	case 2:
		p.Bytes = vp.Bytes("t.Bytes", vp.Range("t.len", 0, maxLen))
	case 3:
		p.Proof.Index = vp.Int64("t.Proof.Index")
	case 4:
		p.Proof.Total = vp.Int64("t.Proof.Total")
	case 5: // both the claimed position and the proof position move together
		p.Index = vp.Uint32("t.Index")
		p.Proof.Index = int64(p.Index)
	}
	return p
}

func vpOrigSlice(data []byte, partSize uint32, idx uint32) []byte {
	lo := int(idx * partSize)
	hi := int((idx + 1) * partSize)
	if hi > len(data) {
		hi = len(data)
	}
	return data[lo:hi]
}

// C10-H2: part admission.  data: L symbolic bytes split into parts of partSize; a receiver that only
// knows the header is offered k parts chosen by an adversary.
func vpC10AddPart(L int, partSize uint32, k int, fullySymbolic bool) {
	data := vp.Bytes("data", L)
	src := NewPartSetFromData(data, partSize)
	header := src.Header()
	total := header.Total
	dst := NewPartSetFromHeader(header)
	for step := 0; step < k; step++ {
		var part *Part
		if fullySymbolic {
			part = vpSymPart(int(partSize), 2)
		} else {
			part = vpTamperedPart(src, int(partSize))
		}
		added, err := dst.AddPart(part)
		if !added {
			continue
		}
		vp.Reach("added")
		vp.Assert(err == nil, "C10.addpart.added-without-error")
		vp.Assert(part.Index < total, "C10.addpart.index-in-range")
		want := vpOrigSlice(data, partSize, part.Index)
		ok := bytes.Equal(part.Bytes, want)
		// The assertion id carries the diagnosis so that a listed finding stays specific.
		switch {
		case part.Proof.Index != int64(part.Index):
			vp.Assert(ok, "C10.addpart.bytes-are-original-slice-at-index/proof-index-differs-from-part-index")
		case part.Proof.Total != int64(total):
			vp.Assert(ok, "C10.addpart.bytes-are-original-slice-at-index/proof-total-differs-from-header-total")
		default:
			vp.Assert(ok, "C10.addpart.bytes-are-original-slice-at-index")
		}
	}
	if dst.IsComplete() {
		got, err := io.ReadAll(dst.GetReader())
		vp.Assert(err == nil, "C10.partset.read-ok")
		vp.Assert(bytes.Equal(got, data), "C10.partset.reassembles-to-original")
		vp.Assert(dst.HashesTo(src.Hash()), "C10.partset.hash-is-header-hash")
	}
}

// genuine parts in any order (with repetition) always complete the set and reassemble
func vpC10Complete(L int, partSize uint32) {
	data := vp.Bytes("data", L)
	src := NewPartSetFromData(data, partSize)
	total := int(src.Total())
	dst := NewPartSetFromHeader(src.Header())
	// a symbolic starting rotation plus one duplicate delivery
	rot := vp.Range("rot", 0, total-1)
	for i := 0; i < total; i++ {
		p := src.GetPart((i + rot) % total)
		added, err := dst.AddPart(p)
		vp.Assert(added && err == nil, "C10.partset.genuine-part-accepted")
		again, err2 := dst.AddPart(p)
		vp.Assert(!again && err2 == nil, "C10.partset.duplicate-ignored")
	}
	vp.Assert(dst.IsComplete(), "C10.partset.complete-after-all-parts")
	vp.Reach("complete")
	got, err := io.ReadAll(dst.GetReader())
	vp.Assert(err == nil && bytes.Equal(got, data), "C10.partset.reassembles-to-original")
	vp.Assert(dst.BitArray().IsFull(), "C10.partset.bitarray-full")
	_ = merkle.MaxAunts
}

func VP_C10_AddPartSym_L2_s1() { vpC10AddPart(2, 1, 1, true) }
func VP_C10_AddPartSym_L3_s1() { vpC10AddPart(3, 1, 1, true) }
func VP_C10_AddPartSym_L3_s2() { vpC10AddPart(3, 2, 1, true) }
func VP_C10_AddPartSym_L4_s1() { vpC10AddPart(4, 1, 1, true) }
func VP_C10_AddPartTamper_L2_s1() { vpC10AddPart(2, 1, 2, false) }
func VP_C10_AddPartTamper_L3_s1() { vpC10AddPart(3, 1, 2, false) }
func VP_C10_AddPartTamper_L3_s1_k3() { vpC10AddPart(3, 1, 3, false) }
func VP_C10_AddPartTamper_L4_s2() { vpC10AddPart(4, 2, 2, false) }
func VP_C10_AddPartTamper_L5_s2() { vpC10AddPart(5, 2, 2, false) }
func VP_C10_AddPartTamper_L6_s4() { vpC10AddPart(6, 4, 2, false) }
func VP_C10_Complete_L3_s1()      { vpC10Complete(3, 1) }
func VP_C10_Complete_L5_s2()      { vpC10Complete(5, 2) }
func VP_C10_Complete_L6_s4()      { vpC10Complete(6, 4) }
func VP_C10_Complete_L6_s1()      { vpC10Complete(6, 1) }

// A proposer may cut the block bytes wherever it likes (the header commits to the Merkle root over the
// pieces and to their number only): L symbolic bytes are cut into n pieces at symbolic cut points, so
// pieces of length zero occur in every position; the pieces arrive through the wire format in a rotated
// order.  The completed set reassembles to exactly the original bytes.
func vpC10ArbitraryCuts(L int, n int) {
	data := vp.Bytes("data", L)
	cuts := make([]int, n+1)
	cuts[n] = L
	for i := 1; i < n; i++ {
		cuts[i] = vp.Range("cut", cuts[i-1], L)
	}
	pieces := make([][]byte, n)
	for i := range pieces {
		pieces[i] = data[cuts[i]:cuts[i+1]]
	}
	root, proofs := merkle.ProofsFromByteSlices(pieces)
	dst := NewPartSetFromHeader(PartSetHeader{Total: uint32(n), Hash: root})
	rot := vp.Range("rot", 0, n-1)
	for k := 0; k < n; k++ {
		i := (k + rot) % n
		pb, err := (&Part{Index: uint32(i), Bytes: pieces[i], Proof: *proofs[i]}).ToProto()
		if err != nil {
			panic(err)
		}
		p, err := PartFromProto(pb)
		vp.Assert(err == nil, "C10.partset.a-piece-of-any-length-with-its-proof-decodes")
		added, err := dst.AddPart(p)
		vp.Assert(added && err == nil, "C10.partset.genuine-part-accepted")
	}
	vp.Assert(dst.IsComplete(), "C10.partset.complete-after-all-parts")
	vp.Reach("complete")
	got, err := io.ReadAll(dst.GetReader())
	vp.Assert(err == nil && bytes.Equal(got, data), "C10.partset.reassembles-to-original(arbitrary-cuts,empty-pieces)")
}

func VP_C10_ArbitraryCuts_L3_n3() { vpC10ArbitraryCuts(3, 3) }
func VP_C10_ArbitraryCuts_L4_n4() { vpC10ArbitraryCuts(4, 4) }
