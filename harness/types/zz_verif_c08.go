//go:build verif

package types

import (
	"bytes"

	vp "github.com/tendermint/tendermint/internal/verifvp"
)

func vpAddr(i int) Address { return vpKey(i).PubKey().Address() }

func vpVal(i int, power int64) *Validator {
	pk := vpKey(i).PubKey()
	return &Validator{Address: pk.Address(), PubKey: pk, VotingPower: power}
}

func vpSameSet(a, b *ValidatorSet, withPrio bool) bool {
	if len(a.Validators) != len(b.Validators) {
		return false
	}
	for i := range a.Validators {
		x, y := a.Validators[i], b.Validators[i]
		if !bytes.Equal(x.Address, y.Address) || x.VotingPower != y.VotingPower {
			return false
		}
		if withPrio && x.ProposerPriority != y.ProposerPriority {
			return false
		}
	}
	return true
}

// vpSetInvariant: unique addresses, no zero power, canonical order, 1 <= total <= Max, non-empty,
// priorities centred and inside the window.
func vpCheckSetInvariant(vs *ValidatorSet, tag string) {
	n := len(vs.Validators)
	vp.Assert(n > 0, tag+".non-empty")
	var total int64
	var psum int64
	min, max := vs.Validators[0].ProposerPriority, vs.Validators[0].ProposerPriority
	for i, v := range vs.Validators {
		vp.Assert(v.VotingPower > 0, tag+".no-zero-power")
		total += v.VotingPower
		psum += v.ProposerPriority
		if v.ProposerPriority < min {
			min = v.ProposerPriority
		}
		if v.ProposerPriority > max {
			max = v.ProposerPriority
		}
		for j := 0; j < i; j++ {
			vp.Assert(!bytes.Equal(vs.Validators[j].Address, v.Address), tag+".unique-addresses")
		}
		if i > 0 {
			p := vs.Validators[i-1]
			ordered := p.VotingPower > v.VotingPower || (p.VotingPower == v.VotingPower && bytes.Compare(p.Address, v.Address) < 0)
			vp.Assert(ordered, tag+".canonical-order")
		}
	}
	vp.Assert(total >= 1 && total <= MaxTotalVotingPower, tag+".total-in-range")
	vp.Assert(vs.TotalVotingPower() == total, tag+".cached-total-is-sum")
	vp.Assert(psum > -int64(n) && psum < int64(n), tag+".priorities-centred")
	vp.Assert(max-min <= PriorityWindowSizeFactor*total, tag+".priorities-in-window")
}

// C08-H1: UpdateWithChangeSet on a set of n validators with a batch of c changes.
func vpC08Update(n, c int, maxPower int64) {
	base := make([]*Validator, n)
	bp := []int64{5, 3, 3, 1}
	for i := range base {
		base[i] = vpVal(i, bp[i])
	}
	cur := NewValidatorSet(base)
	ref := map[int]int64{} // address index -> power
	for i := 0; i < n; i++ {
		ref[i] = bp[i]
	}
	// the batch: addresses from a pool of n+2 (existing or fresh), powers symbolic or special
	type chg struct {
		who   int
		power int64
	}
	batch := make([]chg, c)
	changes := make([]*Validator, c)
	for k := 0; k < c; k++ {
		who := vp.Choice("who", n+2)
		var power int64
		switch vp.Choice("power-kind", 4) {
		case 0:
			power = 0 // removal
		case 1:
			power = vp.Int64("power")
			vp.Assume(power >= 1 && power <= maxPower)
		case 2:
			power = vp.Int64("power-any") // anything, including negative and beyond the cap
			vp.Assume(power < 0 || power > MaxTotalVotingPower-8)
		case 3:
			power = MaxTotalVotingPower - vp.Int64("near-max")
			vp.Assume(power >= MaxTotalVotingPower-16 && power <= MaxTotalVotingPower)
		}
		batch[k] = chg{who, power}
		changes[k] = vpVal(who, power)
	}
	before := cur.Copy()
	err := cur.UpdateWithChangeSet(changes)

	// ---- reference semantics
	wantErr := false
	seen := map[int]bool{}
	newRef := map[int]int64{}
	for k, v := range ref {
		newRef[k] = v
	}
	for _, ch := range batch {
		if seen[ch.who] || ch.power < 0 || ch.power > MaxTotalVotingPower {
			wantErr = true
		}
		seen[ch.who] = true
	}
	if !wantErr {
		for _, ch := range batch {
			if ch.power == 0 {
				if _, ok := newRef[ch.who]; !ok {
					wantErr = true
				}
				delete(newRef, ch.who)
			} else {
				newRef[ch.who] = ch.power
			}
		}
	}
	if !wantErr {
		if len(newRef) == 0 {
			wantErr = true
		}
		var tot uint64
		for _, p := range newRef {
			tot += uint64(p)
		}
		if tot > uint64(MaxTotalVotingPower) {
			wantErr = true
		}
	}
	if err != nil {
		vp.Reach("rejected")
		vp.Assert(vpSameSet(cur, before, true), "C08.update.failure-leaves-set-untouched")
		vp.Assert(cur.TotalVotingPower() == before.TotalVotingPower(), "C08.update.failure-leaves-total-untouched")
		if !wantErr {
			// the implementation may additionally refuse batches whose *intermediate* total exceeds the cap
			// (removals are applied after updates); that is documented behaviour, not a violation.
			vp.Note("rejected-intermediate-overflow")
		}
		return
	}
	vp.Reach("applied")
	vp.Assert(!wantErr, "C08.update.accepts-only-valid-batches")
	vpCheckSetInvariant(cur, "C08.update")
	vp.Assert(len(cur.Validators) == len(newRef), "C08.update.size-matches-reference")
	for _, v := range cur.Validators {
		found := false
		for who, p := range newRef {
			if bytes.Equal(v.Address, vpAddr(who)) {
				found = true
				vp.Assert(v.VotingPower == p, "C08.update.power-matches-reference")
			}
		}
		vp.Assert(found, "C08.update.member-matches-reference")
	}
	// order independence: the reversed batch yields the identical set (members, order, priorities)
	if c > 1 {
		rev := make([]*Validator, c)
		for k := range changes {
			rev[c-1-k] = vpVal(batch[k].who, batch[k].power)
		}
		other := before.Copy()
		err2 := other.UpdateWithChangeSet(rev)
		vp.Assert(err2 == nil, "C08.update.order-independent-acceptance")
		vp.Assert(vpSameSet(cur, other, true), "C08.update.order-independent-result")
	}
}

func VP_C08_Update_n1_c1()     { vpC08Update(1, 1, 1<<12) }
func VP_C08_Update_n2_c1()     { vpC08Update(2, 1, 1<<12) }
func VP_C08_Update_n2_c2()     { vpC08Update(2, 2, 1<<12) }
func VP_C08_Update_n3_c2()     { vpC08Update(3, 2, 1<<12) }
func VP_C08_Update_n3_c3()     { vpC08Update(3, 3, 1<<12) }
func VP_C08_Update_n2_c2_big() { vpC08Update(2, 2, MaxTotalVotingPower) }

// C08-H2: proposer rotation is the specified weighted round-robin:
// each step adds the power to every priority, picks the maximum (ties: lower address), subtracts the total.
func vpC08Rotation(n int, maxPower int64, steps int) {
	ps := vpPowersMax(n, maxPower)
	vals := make([]*Validator, n)
	for i := range vals {
		vals[i] = vpVal(i, ps[i])
	}
	vs := &ValidatorSet{Validators: vals}
	var total int64
	for _, p := range ps {
		total += p
	}
	// reference accumulator, starting from the same (zero) priorities, centred like the implementation
	prio := make([]int64, n)
	count := make([]int64, n)
	for s := 0; s < steps; s++ {
		vs.IncrementProposerPriority(1)
		// reference step on the pre-state: centre, add, pick, subtract
		var sum int64
		for i := range prio {
			sum += prio[i]
		}
		avg := sum / int64(n)
		if sum%int64(n) != 0 && sum < 0 {
			avg-- // Euclidean (floor) division as math/big.Div
		}
		for i := range prio {
			prio[i] = prio[i] - avg + ps[i]
		}
		best := 0
		for i := 1; i < n; i++ {
			if prio[i] > prio[best] || (prio[i] == prio[best] && bytes.Compare(vals[i].Address, vals[best].Address) < 0) {
				best = i
			}
		}
		prio[best] -= total
		count[best]++
		vp.Assert(bytes.Equal(vs.Proposer.Address, vals[best].Address), "C08.rotation.proposer-is-reference-proposer")
		for i := range prio {
			vp.Assert(vs.Validators[i].ProposerPriority == prio[i], "C08.rotation.priorities-match-reference")
			vp.Assert(prio[i] <= 2*total && prio[i] >= -2*total, "C08.rotation.priorities-bounded")
		}
	}
	vp.Reach("rotated")
	if int64(steps) == total {
		vp.Reach("full-cycle")
		for i := range count {
			vp.Assert(count[i] == ps[i], "C08.rotation.turns-proportional-to-power-over-a-full-cycle")
		}
	}
}

func VP_C08_Rotation_n2_T3()  { vpC08Rotation(2, 3, 3) }
func VP_C08_Rotation_n2_T4()  { vpC08Rotation(2, 4, 4) }
func VP_C08_Rotation_n3_T4()  { vpC08Rotation(3, 4, 4) }
func VP_C08_Rotation_n3_T5()  { vpC08Rotation(3, 5, 5) }
func VP_C08_Rotation_n3_T6()  { vpC08Rotation(3, 6, 6) }
func VP_C08_Rotation_n2_big() { vpC08Rotation(2, MaxTotalVotingPower, 3) }

// C08-H2b: the rescaling step of the specification: when the spread of the priorities exceeds the
// window, every priority is divided (towards zero) by ceil(spread / window); otherwise nothing changes.
func vpC08Rescale(n int) {
	vals := make([]*Validator, n)
	pre := make([]int64, n)
	for i := range vals {
		vals[i] = vpVal(i, 1)
		p := vp.Int64("priority")
		vp.Assume(vp.And(p >= -24, p <= 24))
		vals[i].ProposerPriority = p
		pre[i] = p
	}
	vs := &ValidatorSet{Validators: vals}
	window := int64(vp.Range("window", 1, 8))
	hi, lo := pre[0], pre[0]
	for _, p := range pre[1:] {
		if p > hi {
			hi = p
		}
		if p < lo {
			lo = p
		}
	}
	spread := hi - lo
	vs.RescalePriorities(window)
	if spread <= window {
		vp.Reach("within-window")
		for i := range pre {
			vp.Assert(vs.Validators[i].ProposerPriority == pre[i], "C08.rescale.priorities-within-the-window-are-untouched")
		}
		return
	}
	// the specified ratio: the least r with r*window >= spread
	ratio := int64(0)
	for r := int64(2); r <= 48; r++ {
		if (r-1)*window < spread && spread <= r*window {
			ratio = r
			break
		}
	}
	vp.Assert(ratio >= 2, "C08.rescale.reference-ratio-found")
	vp.Reach("rescaled")
	for i := range pre {
		vp.Assert(vs.Validators[i].ProposerPriority == pre[i]/ratio, "C08.rescale.priorities-are-divided-by-the-ceiling-of-spread-over-window")
	}
}

func VP_C08_Rescale_n2() { vpC08Rescale(2) }
func VP_C08_Rescale_n3() { vpC08Rescale(3) }

// C08-H1b: priorities after a batch: a validator new to the set enters at -1.125 x (total power after
// the updates, before the removals); members keep theirs; then the window is enforced by the ceiling
// division and the priorities are centred (floor average).  Reference computed with plain integers.
func VP_C08_UpdatePriorities() {
	base := []*Validator{vpVal(0, 10), vpVal(1, 10), vpVal(2, 10)}
	cur := NewValidatorSet(base)
	if r := int32(vp.Range("rounds-played", 0, 2)); r > 0 {
		cur.IncrementProposerPriority(r)
	}
	type chg struct {
		who   int
		power int64
	}
	newPower := []int64{1, 10, 30}[vp.Choice("newcomer-power", 3)]
	var batch []chg
	switch vp.Choice("batch", 4) {
	case 0:
		batch = []chg{{3, newPower}}
	case 1:
		batch = []chg{{2, 0}, {3, newPower}}
	case 2:
		batch = []chg{{3, newPower}, {2, 0}}
	case 3:
		batch = []chg{{0, 5}, {3, newPower}, {1, 0}}
	}
	// reference
	prio := map[int]int64{}
	power := map[int]int64{}
	for i := 0; i < 3; i++ {
		_, v := cur.GetByAddress(vpAddr(i))
		prio[i], power[i] = v.ProposerPriority, v.VotingPower
	}
	tvp := int64(0)
	for _, p := range power {
		tvp += p
	}
	for _, ch := range batch { // total after updates and additions, removals not yet applied
		if ch.power > 0 {
			tvp += ch.power - power[ch.who]
		}
	}
	for _, ch := range batch {
		if ch.power == 0 {
			continue
		}
		if _, member := power[ch.who]; !member {
			prio[ch.who] = -(tvp + tvp>>3)
		}
		power[ch.who] = ch.power
	}
	for _, ch := range batch {
		if ch.power == 0 {
			delete(power, ch.who)
			delete(prio, ch.who)
		}
	}
	total := int64(0)
	hi, lo, first := int64(0), int64(0), true
	for who, p := range power {
		total += p
		if first || prio[who] > hi {
			hi = prio[who]
		}
		if first || prio[who] < lo {
			lo = prio[who]
		}
		first = false
	}
	window := 2 * total
	if spread := hi - lo; spread > window {
		ratio := (spread + window - 1) / window
		for who := range prio {
			prio[who] /= ratio
		}
	}
	sum := int64(0)
	for _, p := range prio {
		sum += p
	}
	n := int64(len(prio))
	avg := sum / n
	if sum%n != 0 && sum < 0 {
		avg--
	}
	for who := range prio {
		prio[who] -= avg
	}
	changes := make([]*Validator, len(batch))
	for k, ch := range batch {
		changes[k] = vpVal(ch.who, ch.power)
	}
	if err := cur.UpdateWithChangeSet(changes); err != nil {
		panic(err)
	}
	vp.Assert(len(cur.Validators) == len(prio), "C08.update.size-matches-reference")
	for who, want := range prio {
		_, v := cur.GetByAddress(vpAddr(who))
		vp.Assert(v != nil && v.ProposerPriority == want, "C08.update.priorities-after-a-batch-match-the-specification")
	}
	vp.Reach("applied")
}

// C08-H1c: a batch that would push the total beyond the limit is rejected and leaves the set
// untouched, however many validators it takes (sums that exceed 64 bits included).
func VP_C08_UpdateManyExtreme() {
	cur := NewValidatorSet([]*Validator{vpVal(0, 7)})
	before := cur.Copy()
	n := []int{2, 8, 16, 17, 18, 33}[vp.Choice("newcomers", 6)]
	slack := vp.Int64("below-the-cap")
	vp.Assume(vp.And(slack >= 0, slack <= 2))
	changes := make([]*Validator, n)
	for i := range changes {
		changes[i] = vpVal(10+i, MaxTotalVotingPower-slack)
	}
	paniced := false
	var err error
	func() {
		defer func() {
			if recover() != nil {
				paniced = true
			}
		}()
		err = cur.UpdateWithChangeSet(changes)
	}()
	vp.Assert(!paniced, "C08.update.over-limit-batch-is-rejected-not-a-panic")
	vp.Assert(err != nil, "C08.update.total-beyond-the-limit-is-rejected")
	vp.Assert(vpSameSet(cur, before, true) && cur.TotalVotingPower() == before.TotalVotingPower(), "C08.update.failure-leaves-set-untouched")
	vp.Reach("rejected")
}
