//go:build verif

package types

import (
	"github.com/tendermint/tendermint/crypto/ed25519"
	vp "github.com/tendermint/tendermint/internal/verifvp"
	tmproto "github.com/tendermint/tendermint/proto/tendermint/types"
)

// C01-H1: the real VoteSet under a bounded history of arbitrary operations.
//
// Ghost state (harness): for every validator the set of blocks for which a *valid* vote (right
// height/round/type, right index and address, genuine signature) was offered so far, and the first
// such block.  The quorum facts consensus relies on are asserted after every operation.
type vpC01State struct {
	n       int
	vs      *VoteSet
	vals    *ValidatorSet
	maj     *BlockID
	blocks  []BlockID
	offered [][3]bool
}

// vpC01Conflict restricts the operation alphabet to one equivocating validator and majority claims
// (longer histories of the operations that matter for conflicting votes).
var vpC01Conflict bool

func vpC01VoteSet(n, k int, typ tmproto.SignedMsgType, maxPower int64, preferInt int, malformed int) vpC01State {
	vp.Opt("prefer_int", preferInt)
	keys := make([]ed25519.PrivKey, n)
	for i := range keys {
		keys[i] = vpKey(i)
	}
	powers := vpPowersMax(n, maxPower)
	vals := vpValSetRaw(keys, powers)
	var total uint64
	for _, p := range powers {
		total += uint64(p)
	}
	vs := NewVoteSet(vpChainID, vpHeight, vpRound, typ, vals)
	blocks := []BlockID{vpBlockID(0xAA), vpBlockID(0xBB), {}}
	offered := make([][3]bool, n) // offered[i][b]: validator i offered a valid vote for block b
	first := make([]int, n)       // first valid block offered by validator i (-1 none)
	for i := range first {
		first[i] = -1
	}
	var maj *BlockID
	for step := 0; step < k; step++ {
		op := 0
		if vpC01Conflict {
			// only: validator 0 votes for A, validator 0 votes for B, a peer claims a majority
			op = []int{0, 1, 3 * n}[vp.Choice("op", 3)]
		} else {
			op = vp.Choice("op", 3*n+2+malformed)
		}
		switch {
		case op == 3*n:
			// a peer claims a majority for some block
			peer := P2PID([]string{"p1", "p2"}[vp.Choice("peer", 2)])
			_ = vs.SetPeerMaj23(peer, blocks[vp.Choice("peer-block", 3)])
		default:
			i, b := op/3, op%3
			valid, wellFormed := true, true
			h, r, ty := vpHeight, vpRound, typ
			if op == 3*n+1 { // junk signature
				i, b, valid = vp.Choice("junk-from", n), 0, false
			}
			if op == 3*n+2 { // malformed in exactly one respect, genuinely signed as such
				i, b = vp.Choice("malformed-from", n), 0
			}
			idx := int32(i)
			addr := keys[i].PubKey().Address()
			if op == 3*n+2 {
				wellFormed = false
				switch vp.Choice("malform", 7) {
				case 0:
					h = vpHeight + 1
				case 1:
					r = vpRound + 1
				case 2:
					if typ == tmproto.PrevoteType {
						ty = tmproto.PrecommitType
					} else {
						ty = tmproto.PrevoteType
					}
				case 3:
					idx = int32(n)
				case 4:
					idx = -1
				case 5:
					idx, wellFormed = int32((i+1)%n), n == 1 // right address of i under another index
				case 6:
					addr = nil
				}
			}
			v := &Vote{Type: ty, Height: h, Round: r, BlockID: blocks[b], Timestamp: vpTime(2000 + int64(step)),
				ValidatorAddress: addr, ValidatorIndex: idx}
			// the signature is over the vote's own sign bytes (so a wrong height is *signed* wrong), or junk
			v.Signature = vpSignMaybe(keys[i], VoteSignBytes(vpChainID, v.ToProto()), valid)
			added, err := vs.AddVote(v)
			if added {
				vp.Reach("added")
				vp.Assert(wellFormed && valid, "C01.voteset.only-valid-well-formed-votes-are-added")
			}
			if wellFormed && valid {
				offered[i][b] = true
				if first[i] < 0 {
					first[i] = b
					vp.Assert(added && err == nil, "C01.voteset.first-valid-vote-of-a-validator-is-added")
				}
			}
		}
		// ---- invariants after every operation
		got, ok := vs.TwoThirdsMajority()
		if ok {
			vp.Reach("maj23")
			var P uint64
			bi := -1
			for b := range blocks {
				if blocks[b].Equals(got) {
					bi = b
				}
			}
			vp.Assert(bi >= 0, "C01.voteset.maj23-is-a-voted-block")
			for i := 0; i < n; i++ {
				if offered[i][bi] {
					P += uint64(powers[i])
				}
			}
			vp.Assert(vpMoreThan23(P, total), "C01.voteset.maj23-implies-more-than-two-thirds-valid-votes-for-it")
			if maj != nil {
				vp.Assert(maj.Equals(got), "C01.voteset.maj23-never-changes")
			}
			m := got
			maj = &m
		} else {
			vp.Assert(maj == nil, "C01.voteset.maj23-never-disappears")
		}
		var anyP uint64
		var firstP [3]uint64
		for i := 0; i < n; i++ {
			if first[i] >= 0 {
				anyP += uint64(powers[i])
				firstP[first[i]] += uint64(powers[i])
			}
		}
		vp.Assert(vs.HasTwoThirdsAny() == vpMoreThan23(anyP, total), "C01.voteset.two-thirds-any-exact")
		vp.Assert(vs.HasAll() == (anyP == total), "C01.voteset.has-all-exact")
		for b := range blocks {
			if vpMoreThan23(firstP[b], total) {
				vp.Assert(ok, "C01.voteset.quorum-of-first-votes-is-detected")
			}
		}
	}
	return vpC01State{n, vs, vals, maj, blocks, offered}
}

func vpC01Commit(st vpC01State) {
	n, vs, vals, maj, blocks, offered := st.n, st.vs, st.vals, st.maj, st.blocks, st.offered
	if maj != nil && !maj.IsZero() {
		vp.Reach("commit")
		commit := vs.MakeCommit()
		vp.Assert(commit.BlockID.Equals(*maj) && commit.Height == vpHeight && commit.Round == vpRound, "C01.voteset.commit-is-for-maj23")
		vp.Assert(len(commit.Signatures) == n, "C01.voteset.commit-has-one-slot-per-validator")
		for i, cs := range commit.Signatures {
			if cs.ForBlock() {
				bi := 0
				if blocks[1].Equals(*maj) {
					bi = 1
				}
				vp.Assert(offered[i][bi], "C01.voteset.commit-for-block-slots-carry-votes-for-maj23")
			}
		}
		vp.Assert(vals.VerifyCommit(vpChainID, *maj, vpHeight, commit) == nil, "C01.voteset.made-commit-verifies")
	}
}

func VP_C01_VoteSet_n2_k3()    { vpC01Commit(vpC01VoteSet(2, 3, tmproto.PrecommitType, 1<<16, 0, 0)) }
func VP_C01_VoteSet_n3_k2()    { vpC01Commit(vpC01VoteSet(3, 2, tmproto.PrecommitType, 1<<16, 0, 1)) }
func VP_C01_VoteSet_n2_k2_pv() { _ = vpC01VoteSet(2, 2, tmproto.PrevoteType, 1<<16, 0, 1) }
func VP_C01_VoteSet_n3_k3()    { vpC01Commit(vpC01VoteSet(3, 3, tmproto.PrecommitType, 1<<16, 0, 0)) }
func VP_C01_VoteSet_n3_k3_pv() { _ = vpC01VoteSet(3, 3, tmproto.PrevoteType, 1<<16, 0, 0) }
func VP_C01_VoteSet_n2_k5_conflict() {
	vpC01Conflict = true
	vpC01Commit(vpC01VoteSet(2, 5, tmproto.PrecommitType, 1<<16, 0, 0))
}
func VP_C01_VoteSet_n2_k4() { vpC01Commit(vpC01VoteSet(2, 4, tmproto.PrecommitType, 1<<16, 0, 0)) }
func VP_C01_VoteSet_n4_k3() { vpC01Commit(vpC01VoteSet(4, 3, tmproto.PrecommitType, 1<<16, 0, 0)) }
func VP_C01_VoteSet_n2_k2_full() {
	vpC01Commit(vpC01VoteSet(2, 2, tmproto.PrecommitType, MaxTotalVotingPower, 1, 0))
}
func VP_C01_VoteSet_n3_k3_full() {
	vpC01Commit(vpC01VoteSet(3, 3, tmproto.PrecommitType, MaxTotalVotingPower, 1, 0))
}
