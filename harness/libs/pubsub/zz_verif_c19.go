//go:build verif

package pubsub

import (
	"context"
	"errors"

	vp "github.com/tendermint/tendermint/internal/verifvp"
)

// vpQuery is a subscriber's query whose verdict on each publication the harness decides
// (the query language itself is outside the engine's reach, see DESIGN.md C19).
type vpQuery struct {
	name    string
	verdict func(msgNo int) (bool, error)
	cur     *int
}

func (q *vpQuery) Matches(events map[string][]string) (bool, error) { return q.verdict(*q.cur) }
func (q *vpQuery) String() string                                    { return q.name }

type vpSub struct {
	id    string
	q     *vpQuery
	sub   *Subscription
	got   []int // message numbers received, in order
	slow  bool
	unsub bool
}

func (s *vpSub) drain() {
	for {
		select {
		case m := <-s.sub.Out():
			s.got = append(s.got, m.Data().(int))
		default:
			return
		}
	}
}

func (s *vpSub) cancelled() bool {
	select {
	case <-s.sub.Cancelled():
		return true
	default:
		return false
	}
}

// C19-H1: dispatch isolation on the real pubsub Server: n subscribers (own or shared queries,
// buffered with capacity 1; slow ones never read), k operations (publish / unsubscribe), symbolic
// query verdicts including errors, every map-iteration order.
func vpC19Pubsub(n int, k int, shared bool) {
	vp.Opt("maporder", 4)
	s := NewServer()
	if err := s.Start(); err != nil {
		panic(err)
	}
	ctx := context.Background()
	cur := 0
	// verdicts[q][msg]: 0 no match, 1 match, 2 error
	nq := n
	if shared {
		nq = n - 1 // the last two subscribers share a query
	}
	verdicts := make([][]uint8, nq)
	queries := make([]*vpQuery, nq)
	for i := 0; i < nq; i++ {
		i := i
		verdicts[i] = make([]uint8, k)
		for m := 0; m < k; m++ {
			v := vp.Uint8("verdict")
			vp.Assume(v <= 2)
			verdicts[i][m] = v
		}
		queries[i] = &vpQuery{name: string(rune('a' + i)), cur: &cur}
		queries[i].verdict = func(m int) (bool, error) {
			switch verdicts[i][m] {
			case 1:
				return true, nil
			case 2:
				return false, errors.New("query cannot be evaluated on this event")
			}
			return false, nil
		}
	}
	subs := make([]*vpSub, n)
	for i := 0; i < n; i++ {
		qi := i
		if qi >= nq {
			qi = nq - 1
		}
		sub, err := s.Subscribe(ctx, string(rune('A'+i)), queries[qi], 1)
		if err != nil {
			panic(err)
		}
		subs[i] = &vpSub{id: string(rune('A' + i)), q: queries[qi], sub: sub, slow: vp.Choice("slow", 2) == 1}
	}
	published := 0
	for step := 0; step < k; step++ {
		switch vp.Choice("op", 2) {
		case 0:
			cur = published
			if err := s.Publish(ctx, published); err != nil {
				panic(err)
			}
			vp.Settle()
			published++
			for _, x := range subs {
				if !x.slow {
					x.drain()
				}
			}
		case 1:
			x := subs[vp.Choice("who", n)]
			x.unsub = true
			_ = s.Unsubscribe(ctx, x.id, x.q)
			vp.Settle()
		}
	}
	vp.Reach("ran")
	for qi, x := range subs {
		_ = qi
		x.drain()
		if x.unsub || x.cancelled() {
			// told explicitly (or asked for it): whatever it received must still be in order
			for j := 1; j < len(x.got); j++ {
				vp.Assert(x.got[j-1] < x.got[j], "C19.pubsub.messages-arrive-in-publication-order")
			}
			continue
		}
		// every publication its own query matched (without error) arrived, once, in order
		qidx := 0
		for i := range queries {
			if queries[i] == x.q {
				qidx = i
			}
		}
		var want []int
		for m := 0; m < published; m++ {
			if verdicts[qidx][m] == 1 {
				want = append(want, m)
			}
		}
		vp.Assert(len(x.got) == len(want), "C19.pubsub.subscriber-gets-every-matching-event-or-is-told-it-was-cancelled")
		for j := range want {
			if j < len(x.got) {
				vp.Assert(x.got[j] == want[j], "C19.pubsub.subscriber-gets-exactly-its-matching-events-in-order")
			}
		}
	}
	vp.Assert(vp.Blocked() <= 1, "C19.pubsub.server-loop-is-the-only-goroutine-left-waiting")
}

func VP_C19_Pubsub_n2_k2()        { vpC19Pubsub(2, 2, false) }
func VP_C19_Pubsub_n2_k3()        { vpC19Pubsub(2, 3, false) }
func VP_C19_Pubsub_n3_k2()        { vpC19Pubsub(3, 2, false) }
func VP_C19_Pubsub_n2_k3_shared() { vpC19Pubsub(2, 3, true) }
func VP_C19_Pubsub_n3_k3_shared() { vpC19Pubsub(3, 3, true) }
func VP_C19_Pubsub_n2_k4_shared() { vpC19Pubsub(2, 4, true) }
