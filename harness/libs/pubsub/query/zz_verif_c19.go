//go:build verif

package query

import (
	vp "github.com/tendermint/tendermint/internal/verifvp"
)

// C19 (a subscriber's query decides by the meaning of the values): time and date operands.
// The operand is 2013-05-03T14:45:05Z; the event carries the same wall-clock minute with a symbolic
// seconds digit, written in UTC ("Z"), as "+00:00", or in a +02:00 zone (same instants, two hours
// later on the wall clock).  Matches must compare instants.
func VP_C19_QueryTimeOperands() {
	vp.Opt("realqueries", 1)
	ops := []string{"=", "<", "<=", ">", ">="}
	op := vp.Choice("operator", len(ops))
	q, err := New("tx.time " + ops[op] + " TIME 2013-05-03T14:45:05Z")
	if err != nil {
		panic(err)
	}
	d := vp.Byte("seconds-digit")
	vp.Assume(d >= '0' && d <= '9')
	forms := []struct{ pre, suf string }{
		{"2013-05-03T14:45:0", "Z"},
		{"2013-05-03T14:45:0", "+00:00"},
		{"2013-05-03T16:45:0", "+02:00"},
		{"2013-05-03T12:15:0", "-02:30"},
	}
	f := forms[vp.Choice("zone-form", len(forms))]
	val := f.pre + string([]byte{d}) + f.suf
	got, err := q.Matches(map[string][]string{"tx.time": {val}})
	vp.Assert(err == nil, "C19.query.time-value-in-any-zone-form-is-understood")
	var want bool
	switch op {
	case 0:
		want = d == '5'
	case 1:
		want = d < '5'
	case 2:
		want = d <= '5'
	case 3:
		want = d > '5'
	case 4:
		want = d >= '5'
	}
	vp.Assert(got == want, "C19.query.time-operand-compares-instants-not-representations")
	vp.Reach("matched")
}
