//go:build verif

package autofile

import (
	"bytes"
	"io"
	"os"

	vp "github.com/tendermint/tendermint/internal/verifvp"
)

// C15 (size limits): the head-size limit only rotates, the total-size limit discards only whole
// oldest files: after any sequence of synced writes and limit checks a reader of the group gets a
// suffix of what was written that begins at a file boundary and includes everything written since
// the last rotation.
func vpC15Limits(k int) {
	dir := vp.TempDir()
	head := int64(vp.Range("head-size-limit", 2, 6)) * 100
	total := int64(vp.Range("total-size-limit", 3, 9)) * 100
	g, err := OpenGroup(dir+"/wal", GroupHeadSizeLimit(head), GroupTotalSizeLimit(total))
	if err != nil {
		panic(err)
	}
	var stream []byte
	boundaries := []int{0} // offsets in stream where a file starts
	sinceRotation := 0
	for i := 0; i < k; i++ {
		switch vp.Choice("op", 3) {
		case 0:
			n := []int{100, 300, 700}[vp.Choice("record-size", 3)]
			rec := bytes.Repeat([]byte{byte('a' + i)}, n)
			if _, err := g.Write(rec); err != nil {
				panic(err)
			}
			if err := g.FlushAndSync(); err != nil {
				panic(err)
			}
			stream = append(stream, rec...)
			sinceRotation += n
		case 1:
			before := g.MaxIndex()
			g.checkHeadSizeLimit()
			if g.MaxIndex() != before {
				vp.Reach("rotated?")
				boundaries = append(boundaries, len(stream))
				sinceRotation = 0
			}
		case 2:
			g.checkTotalSizeLimit()
		}
	}
	g.Close()
	// a later reader
	g2, err := OpenGroup(dir + "/wal")
	vp.Assert(err == nil, "C15.limits.group-reopens")
	gr, err := g2.NewReader(g2.MinIndex())
	vp.Assert(err == nil, "C15.limits.reader-opens-at-the-oldest-file")
	got, err := io.ReadAll(gr)
	vp.Assert(err == nil, "C15.limits.reader-reads-to-the-end")
	vp.Assert(len(got) <= len(stream) && bytes.Equal(got, stream[len(stream)-len(got):]), "C15.limits.reader-gets-a-suffix-of-what-was-written")
	startsAtBoundary := false
	for _, b := range boundaries {
		if len(stream)-len(got) == b {
			startsAtBoundary = true
		}
	}
	vp.Assert(startsAtBoundary, "C15.limits.only-whole-oldest-files-are-discarded")
	vp.Assert(len(got) >= sinceRotation, "C15.limits.the-head-is-never-discarded")
	if len(got) < len(stream) {
		vp.Reach("pruned?")
	}
	vp.Reach("read-back")
}

func VP_C15_Limits_k4() { vpC15Limits(4) }
func VP_C15_Limits_k5() { vpC15Limits(5) }
func VP_C15_Limits_k6() { vpC15Limits(6) }

// C15 (rotation + reopen at any index width): a group directory whose rotated files start at index
// `base` (the boundaries of the decimal width of the %03d suffix) is reopened, read, rotated once
// more and reopened again: every record is read back exactly once, in order, and the head is the
// file after the highest rotated one.
func VP_C15_ReopenAtIndex() {
	dir := vp.TempDir()
	bases := []int{0, 8, 98, 997, 998, 999, 1000, 9998, 99998}
	base := bases[vp.Choice("first-rotated-index", len(bases))]
	if err := os.WriteFile(filePathForIndex(dir+"/wal", base, base+2), []byte("aaaa"), 0o600); err != nil {
		panic(err)
	}
	if err := os.WriteFile(filePathForIndex(dir+"/wal", base+1, base+2), []byte("bbbb"), 0o600); err != nil {
		panic(err)
	}
	if err := os.WriteFile(dir+"/wal", []byte("cccc"), 0o600); err != nil {
		panic(err)
	}
	readAll := func(g *Group) []byte {
		gr, err := g.NewReader(g.MinIndex())
		vp.Assert(err == nil, "C15.reopen.reader-opens-at-the-oldest-file")
		got, err := io.ReadAll(gr)
		vp.Assert(err == nil, "C15.reopen.reader-reads-to-the-end")
		gr.Close()
		return got
	}
	g, err := OpenGroup(dir + "/wal")
	vp.Assert(err == nil, "C15.reopen.group-reopens")
	vp.Assert(g.MinIndex() == base && g.MaxIndex() == base+2, "C15.reopen.indices-recomputed-from-the-directory(any-decimal-width)")
	vp.Assert(bytes.Equal(readAll(g), []byte("aaaabbbbcccc")), "C15.reopen.every-record-read-back-once-in-order")
	if _, err := g.Write([]byte("dddd")); err != nil {
		panic(err)
	}
	if err := g.FlushAndSync(); err != nil {
		panic(err)
	}
	g.RotateFile()
	if _, err := g.Write([]byte("eeee")); err != nil {
		panic(err)
	}
	if err := g.FlushAndSync(); err != nil {
		panic(err)
	}
	g.Close()
	g2, err := OpenGroup(dir + "/wal")
	vp.Assert(err == nil, "C15.reopen.group-reopens")
	vp.Assert(g2.MinIndex() == base && g2.MaxIndex() == base+3, "C15.reopen.indices-recomputed-from-the-directory(any-decimal-width)")
	vp.Assert(bytes.Equal(readAll(g2), []byte("aaaabbbbccccddddeeee")), "C15.reopen.rotation-after-reopen-loses-and-overwrites-nothing")
	vp.Reach("read-back")
}
