//go:build verif

package autofile

import (
	"bytes"
	"io"

	vp "github.com/tendermint/tendermint/internal/verifvp"
)

// C15 (size limits): the head-size limit only rotates, the total-size limit discards only whole
// oldest files: after any sequence of synced writes and limit checks a reader of the group gets a
// suffix of what was written that begins at a file boundary and includes everything written since
// the last rotation.
func vpC15Limits(k int) {
	dir := vp.TempDir()
	head := int64(vp.Range("head-size-limit", 2, 6)) * 100
	total := int64(vp.Range("total-size-limit", 3, 9)) * 100
	g, err := OpenGroup(dir+"/wal", GroupHeadSizeLimit(head), GroupTotalSizeLimit(total))
	if err != nil {
		panic(err)
	}
	var stream []byte
	boundaries := []int{0} // offsets in stream where a file starts
	sinceRotation := 0
	for i := 0; i < k; i++ {
		switch vp.Choice("op", 3) {
		case 0:
			n := []int{100, 300, 700}[vp.Choice("record-size", 3)]
			rec := bytes.Repeat([]byte{byte('a' + i)}, n)
			if _, err := g.Write(rec); err != nil {
				panic(err)
			}
			if err := g.FlushAndSync(); err != nil {
				panic(err)
			}
			stream = append(stream, rec...)
			sinceRotation += n
		case 1:
			before := g.MaxIndex()
			g.checkHeadSizeLimit()
			if g.MaxIndex() != before {
				vp.Reach("rotated?")
				boundaries = append(boundaries, len(stream))
				sinceRotation = 0
			}
		case 2:
			g.checkTotalSizeLimit()
		}
	}
	g.Close()
	// a later reader
	g2, err := OpenGroup(dir + "/wal")
	vp.Assert(err == nil, "C15.limits.group-reopens")
	gr, err := g2.NewReader(g2.MinIndex())
	vp.Assert(err == nil, "C15.limits.reader-opens-at-the-oldest-file")
	got, err := io.ReadAll(gr)
	vp.Assert(err == nil, "C15.limits.reader-reads-to-the-end")
	vp.Assert(len(got) <= len(stream) && bytes.Equal(got, stream[len(stream)-len(got):]), "C15.limits.reader-gets-a-suffix-of-what-was-written")
	startsAtBoundary := false
	for _, b := range boundaries {
		if len(stream)-len(got) == b {
			startsAtBoundary = true
		}
	}
	vp.Assert(startsAtBoundary, "C15.limits.only-whole-oldest-files-are-discarded")
	vp.Assert(len(got) >= sinceRotation, "C15.limits.the-head-is-never-discarded")
	if len(got) < len(stream) {
		vp.Reach("pruned?")
	}
	vp.Reach("read-back")
}

func VP_C15_Limits_k4() { vpC15Limits(4) }
func VP_C15_Limits_k5() { vpC15Limits(5) }
func VP_C15_Limits_k6() { vpC15Limits(6) }
