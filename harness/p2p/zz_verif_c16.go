//go:build verif

package p2p

import (
	"io"
	"net"
	"time"

	"github.com/tendermint/tendermint/crypto/ed25519"
	vp "github.com/tendermint/tendermint/internal/verifvp"
	"github.com/tendermint/tendermint/libs/protoio"
	"github.com/tendermint/tendermint/p2p/conn"
)

// in-memory duplex link implementing net.Conn
type vpHalf struct {
	ch     chan []byte
	rest   []byte
	closed chan struct{}
}

func newVPHalf() *vpHalf { return &vpHalf{ch: make(chan []byte, 1024), closed: make(chan struct{})} }
func (l *vpHalf) write(p []byte) (int, error) {
	l.ch <- append([]byte{}, p...)
	return len(p), nil
}
func (l *vpHalf) read(p []byte) (int, error) {
	if len(l.rest) == 0 {
		select {
		case b := <-l.ch:
			l.rest = b
		case <-l.closed:
			return 0, io.EOF
		}
	}
	n := copy(p, l.rest)
	l.rest = l.rest[n:]
	return n, nil
}
func (l *vpHalf) close() {
	select {
	case <-l.closed:
	default:
		close(l.closed)
	}
}

type vpAddr struct{}

func (vpAddr) Network() string { return "tcp" }
func (vpAddr) String() string  { return "127.0.0.1:26656" }

type vpConn struct{ in, out *vpHalf }

func (c *vpConn) Read(p []byte) (int, error)         { return c.in.read(p) }
func (c *vpConn) Write(p []byte) (int, error)        { return c.out.write(p) }
func (c *vpConn) Close() error                       { c.in.close(); c.out.close(); return nil }
func (c *vpConn) LocalAddr() net.Addr                { return vpAddr{} }
func (c *vpConn) RemoteAddr() net.Addr               { return vpAddr{} }
func (c *vpConn) SetDeadline(t time.Time) error      { return nil }
func (c *vpConn) SetReadDeadline(t time.Time) error  { return nil }
func (c *vpConn) SetWriteDeadline(t time.Time) error { return nil }

func vpConnPair() (*vpConn, *vpConn) {
	a, b := newVPHalf(), newVPHalf()
	return &vpConn{in: a, out: b}, &vpConn{in: b, out: a}
}

func vpNodeInfo(id ID) DefaultNodeInfo {
	return DefaultNodeInfo{
		ProtocolVersion: defaultProtocolVersion, DefaultNodeID: id, ListenAddr: "127.0.0.1:26656", Network: "vp-net",
		Version: "1.0", Channels: []byte{0x20}, Moniker: "node",
	}
}

// C16-H3: the transport admits a peer only under the identity it authenticated: the key proven in
// the secret connection must be the dialed one (outgoing) and the one its NodeInfo names.
func VP_C16_Upgrade() {
	keyUs, keyX, keyY := ed25519.GenPrivKeyFromSecret([]byte("us")), ed25519.GenPrivKeyFromSecret([]byte("X")), ed25519.GenPrivKeyFromSecret([]byte("Y"))
	idX, idY := PubKeyToID(keyX.PubKey()), PubKeyToID(keyY.PubKey())
	mt := NewMultiplexTransport(vpNodeInfo(PubKeyToID(keyUs.PubKey())), NodeKey{PrivKey: keyUs}, conn.DefaultMConnConfig())
	ours, theirs := vpConnPair()
	outgoing := vp.Bool("outgoing")
	var dialed *NetAddress
	if outgoing {
		dialedID := idX
		if vp.Bool("dialed-someone-else") {
			dialedID = idY
		}
		dialed = NewNetAddressIPPort(net.ParseIP("127.0.0.1"), 26656)
		dialed.ID = dialedID
	}
	claimed := idX
	if vp.Bool("node-info-claims-another-id") {
		claimed = idY
	}
	// the remote party holds key X and follows the protocol, but reports whatever NodeInfo it likes
	go func() {
		sc, err := conn.MakeSecretConnection(theirs, keyX)
		if err != nil {
			theirs.Close()
			return
		}
		go func() {
			var pb = vpNodeInfo(claimed).ToProto()
			protoio.NewDelimitedWriter(sc).WriteMsg(pb)
		}()
		buf := make([]byte, 4096)
		sc.Read(buf) // our NodeInfo
	}()
	_, ni, err := mt.upgrade(ours, dialed)
	if err == nil {
		vp.Reach("admitted")
		vp.Assert(ni.ID() == idX, "C16.upgrade.peer-is-admitted-only-under-the-identity-whose-key-it-proved")
		vp.Assert(dialed == nil || dialed.ID == idX, "C16.upgrade.outgoing-connection-reaches-the-dialed-identity")
	} else {
		vp.Reach("rejected")
		vp.Assert(claimed != idX || (dialed != nil && dialed.ID != idX), "C16.upgrade.honest-peer-is-admitted")
	}
}
