//go:build verif

package conn

import (
	"bytes"
	"crypto/cipher"
	"errors"
	"io"

	"golang.org/x/crypto/chacha20poly1305"

	vp "github.com/tendermint/tendermint/internal/verifvp"
)

// vpNonceWatch wraps the sending AEAD and records every nonce it is asked to seal under.
type vpNonceWatch struct {
	cipher.AEAD
	seen [][]byte
}

func (w *vpNonceWatch) Seal(dst, nonce, plaintext, ad []byte) []byte {
	for _, n := range w.seen {
		vp.Assert(!bytes.Equal(n, nonce), "C16.frames.a-nonce-is-never-used-twice-under-one-key")
	}
	w.seen = append(w.seen, append([]byte{}, nonce...))
	return w.AEAD.Seal(dst, nonce, plaintext, ad)
}

// vpWire is the link under adversarial control: it stores the sealed frames the writer emits and
// hands the reader whatever the harness queued.
type vpWire struct {
	frames   [][]byte // as written
	seq      []int    // position of each stored frame in the sender's sequence of sealed frames
	calls    int
	failNext bool
	rd       bytes.Buffer
}

func (w *vpWire) Write(p []byte) (int, error) {
	w.calls++
	if w.failNext {
		w.failNext = false
		return 0, errors.New("link write failed (e.g. deadline exceeded)")
	}
	w.frames = append(w.frames, append([]byte{}, p...))
	w.seq = append(w.seq, w.calls-1)
	return len(p), nil
}
func (w *vpWire) Read(p []byte) (int, error) { return w.rd.Read(p) }
func (w *vpWire) Close() error               { return nil }

func vpPair() (*SecretConnection, *SecretConnection, *vpWire, *vpNonceWatch) {
	key := bytes.Repeat([]byte{0x11}, 32)
	a1, _ := chacha20poly1305.New(key)
	a2, _ := chacha20poly1305.New(key)
	wire := &vpWire{}
	watch := &vpNonceWatch{AEAD: a1}
	wr := &SecretConnection{conn: wire, sendAead: watch, recvAead: a2, sendNonce: new([aeadNonceSize]byte), recvNonce: new([aeadNonceSize]byte)}
	rd := &SecretConnection{conn: wire, sendAead: a2, recvAead: a2, sendNonce: new([aeadNonceSize]byte), recvNonce: new([aeadNonceSize]byte)}
	return wr, rd, wire, watch
}

func vpPayload(n int, tag byte) []byte {
	return vp.Bytes("payload-"+string(rune('a'+tag)), n) // arbitrary bytes
}

// C16-H1: whatever the link does to the frames, the reader returns a prefix of what was written, in
// order, and fails at the first frame that is not the next one written; nonces never repeat.
func vpC16Frames(writes int, deliveries int) {
	wr, rd, wire, _ := vpPair()
	sizes := []int{1, 1023, 1024, 1025, 2049}
	flipAt := []int{0, 3, 4, 500, -17, -1}
	readSizes := []int{1, 7, 1024, 4096}
	if writes > 1 {
		// several writes: smaller alphabets (the single-write entry covers the full ones)
		sizes, flipAt, readSizes = []int{1, 1024, 1025}, []int{0, 4, -17}, []int{7, 4096}
	}
	var written []byte
	for i := 0; i < writes; i++ {
		msg := vpPayload(sizes[vp.Choice("write-size", len(sizes))], byte(i))
		if vp.Choice("link-write-fails", 3) == 2 {
			wire.failNext = true
		}
		n, err := wr.Write(msg)
		if err == nil {
			vp.Assert(n == len(msg), "C16.frames.write-reports-all-bytes")
			written = append(written, msg...)
		} else {
			vp.Reach("link-write-failed?")
			written = append(written, msg[:n]...)
			// the frame that failed is a removal from the stream: the reader must refuse everything after it
		}
	}
	// the adversary delivers frames
	expectNext := 0 // index of the next frame the reader must accept
	var readBack []byte
	failed := false
	for d := 0; d < deliveries && len(wire.frames) > 0; d++ {
		j := vp.Choice("deliver-frame", len(wire.frames))
		f := append([]byte{}, wire.frames[j]...)
		tampered := false
		switch vp.Choice("tamper", 3) {
		case 1:
			pos := flipAt[vp.Choice("flip-at", len(flipAt))]
			if pos < 0 {
				pos += len(f)
			}
			mask := vp.Byte("flip-mask")
			vp.Assume(mask != 0)
			f[pos] ^= mask
			tampered = true
		case 2:
			f = f[:len(f)-1] // truncated: the reader sees EOF inside the frame
			tampered = true
		}
		wire.rd.Reset()
		wire.rd.Write(f)
		buf := make([]byte, readSizes[vp.Choice("read-size", len(readSizes))])
		// read the whole frame's content
		for {
			n, err := rd.Read(buf)
			if err != nil {
				failed = true
				break
			}
			readBack = append(readBack, buf[:n]...)
			if len(rd.recvBuffer) == 0 {
				break
			}
		}
		if failed {
			vp.Reach("reader-failed")
			vp.Assert(tampered || wire.seq[j] != expectNext, "C16.frames.the-next-written-frame-untouched-is-accepted")
			// the reader may be asked again: what it still accepts is only the frame it was waiting for
			failed = false
			continue
		}
		vp.Reach("frame-accepted")
		vp.Assert(!tampered && wire.seq[j] == expectNext, "C16.frames.only-the-next-written-frame-untouched-is-accepted")
		expectNext++
	}
	vp.Assert(len(readBack) <= len(written) && bytes.Equal(readBack, written[:len(readBack)]), "C16.frames.reader-returns-a-prefix-of-what-was-written-in-order")
	_ = io.EOF
}

func VP_C16_Frames_w1_d2() { vpC16Frames(1, 2) }
func VP_C16_Frames_w2_d2() { vpC16Frames(2, 2) }
func VP_C16_Frames_w2_d3() { vpC16Frames(2, 3) }
func VP_C16_Frames_w3_d3() { vpC16Frames(3, 3) }

// incrNonce on an arbitrary counter: strictly increasing, never wraps (panics at the maximum instead)
func VP_C16_IncrNonce() {
	var nonce [aeadNonceSize]byte
	b := vp.Bytes("nonce", aeadNonceSize)
	copy(nonce[:], b)
	before := append([]byte{}, nonce[:]...)
	allFF := true
	for _, x := range before[4:] {
		if x != 0xFF {
			allFF = false
		}
	}
	paniced := false
	func() {
		defer func() {
			if recover() != nil {
				paniced = true
			}
		}()
		incrNonce(&nonce)
	}()
	if allFF {
		vp.Reach("at-maximum")
		vp.Assert(paniced, "C16.nonce.counter-at-maximum-terminates-instead-of-wrapping")
		return
	}
	vp.Reach("incremented")
	vp.Assert(!paniced, "C16.nonce.increment-below-maximum-does-not-panic")
	vp.Assert(!bytes.Equal(before, nonce[:]) && bytes.Equal(before[:4], nonce[:4]), "C16.nonce.increment-changes-the-counter-only")
	// little-endian counter strictly greater
	gt := false
	for i := aeadNonceSize - 1; i >= 4; i-- {
		if nonce[i] != before[i] {
			gt = nonce[i] > before[i]
			break
		}
	}
	vp.Assert(gt, "C16.nonce.counter-strictly-increases")
}
