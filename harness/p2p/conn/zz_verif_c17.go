//go:build verif

package conn

import (
	"bytes"
	"errors"
	"io"
	"net"
	"time"

	"github.com/gogo/protobuf/proto"

	vp "github.com/tendermint/tendermint/internal/verifvp"
	"github.com/tendermint/tendermint/libs/log"
	"github.com/tendermint/tendermint/libs/protoio"
	"github.com/tendermint/tendermint/libs/timer"
	tmp2p "github.com/tendermint/tendermint/proto/tendermint/p2p"
)

// vpLink is one direction of an in-memory link: writes are queued, reads block until data arrives.
type vpLink struct {
	ch     chan []byte
	rest   []byte
	closed chan struct{}
}

type vpAddr struct{}

func (vpAddr) Network() string { return "vp" }
func (vpAddr) String() string  { return "vp" }

func newVPLink() *vpLink { return &vpLink{ch: make(chan []byte, 1024), closed: make(chan struct{})} }

func (l *vpLink) Write(p []byte) (int, error) {
	l.ch <- append([]byte{}, p...)
	return len(p), nil
}
func (l *vpLink) Read(p []byte) (int, error) {
	if len(l.rest) == 0 {
		select {
		case b := <-l.ch:
			l.rest = b
		case <-l.closed:
			return 0, io.EOF
		}
	}
	n := copy(p, l.rest)
	l.rest = l.rest[n:]
	return n, nil
}
func (l *vpLink) Close() error {
	select {
	case <-l.closed:
	default:
		close(l.closed)
	}
	return nil
}
func (l *vpLink) LocalAddr() net.Addr                { return vpAddr{} }
func (l *vpLink) RemoteAddr() net.Addr               { return vpAddr{} }
func (l *vpLink) SetDeadline(t time.Time) error      { return nil }
func (l *vpLink) SetReadDeadline(t time.Time) error  { return nil }
func (l *vpLink) SetWriteDeadline(t time.Time) error { return nil }

type vpRecv struct {
	ch  byte
	msg []byte
}

type vpEnd struct {
	got    []vpRecv
	errs   []interface{}
	maxBuf int
}

const vpPayloadSize = 4

func vpMConn(link *vpLink, end *vpEnd, recvCap int) *MConnection {
	cfg := DefaultMConnConfig()
	cfg.MaxPacketMsgPayloadSize = vpPayloadSize
	descs := []*ChannelDescriptor{
		{ID: 0x20, Priority: 5, SendQueueCapacity: 4, RecvMessageCapacity: recvCap},
		{ID: 0x30, Priority: 1, SendQueueCapacity: 4, RecvMessageCapacity: recvCap},
	}
	onReceive := func(chID byte, msg []byte) {
		end.got = append(end.got, vpRecv{chID, append([]byte{}, msg...)})
	}
	onError := func(r interface{}) { end.errs = append(end.errs, r) }
	c := NewMConnectionWithConfig(link, descs, onReceive, onError, cfg)
	c.SetLogger(log.NewNopLogger()) // as p2p/peer.go does
	return c
}

// C17-H1: the real send side (Channel queues, sendPacketMsg's channel selection, nextPacketMsg,
// protoio framing, flush) drives the real receive routine; whatever the sizes and the interleaving,
// each channel's receiver sees exactly the messages sent on it, in order, unmodified.
func vpC17Deliver(nmsgs int, maxLen int) {
	link := newVPLink()
	sendEnd, recvEnd := &vpEnd{}, &vpEnd{}
	snd := vpMConn(link, sendEnd, 64)
	rcv := vpMConn(link, recvEnd, 64)
	if err := rcv.Start(); err != nil {
		panic(err)
	}
	snd.flushTimer = timer.NewThrottleTimer("flush", snd.config.FlushThrottle)
	ids := []byte{0x20, 0x30}
	var sent [2][][]byte
	for i := 0; i < nmsgs; i++ {
		c := vp.Choice("channel", 2)
		n := vp.Range("msg-len", 0, maxLen)
		msg := vp.Bytes("msg", n)
		if snd.channelsIdx[ids[c]].trySendBytes(msg) {
			sent[c] = append(sent[c], msg)
		}
		// the send routine may get to run between two sends
		for k := vp.Choice("packets-sent-in-between", 3); k > 0; k-- {
			snd.sendPacketMsg()
		}
	}
	for steps := 0; !snd.sendPacketMsg(); steps++ {
		vp.Assert(steps < 64, "C17.deliver.send-side-drains")
	}
	snd.flush()
	vp.Settle()
	vp.Assert(len(sendEnd.errs) == 0 && len(recvEnd.errs) == 0, "C17.deliver.no-error-on-a-healthy-link")
	var got [2][][]byte
	for _, g := range recvEnd.got {
		for c := range ids {
			if g.ch == ids[c] {
				got[c] = append(got[c], g.msg)
			}
		}
	}
	for c := range ids {
		vp.Assert(len(got[c]) == len(sent[c]), "C17.deliver.every-accepted-message-arrives-exactly-once")
		for i := range got[c] {
			if i < len(sent[c]) {
				vp.Assert(bytes.Equal(got[c][i], sent[c][i]), "C17.deliver.messages-arrive-unmodified-in-channel-order")
			}
		}
	}
	vp.Reach("delivered")
	rcv.Stop() //nolint
}

func VP_C17_Deliver_2x9() { vpC17Deliver(2, 9) }
func VP_C17_Deliver_3x9() { vpC17Deliver(3, 9) }
func VP_C17_Deliver_4x5() { vpC17Deliver(4, 5) }

// C17-H1b: arbitrary packets from the peer: at worst the connection reports an error; nothing panics
// out of the receive routine and a channel never buffers more than its message capacity.
func VP_C17_HostilePackets_2() { vpC17Hostile(2) }
func VP_C17_HostilePackets_3() { vpC17Hostile(3) }

func vpC17Hostile(npkts int) {
	link := newVPLink()
	recvEnd := &vpEnd{}
	const capacity = 6
	rcv := vpMConn(link, recvEnd, capacity)
	if err := rcv.Start(); err != nil {
		panic(err)
	}
	w := protoio.NewDelimitedWriter(link)
	total := map[int32]int{}
	for i := 0; i < npkts; i++ {
		var pkt tmp2p.Packet
		switch vp.Choice("packet-kind", 4) {
		case 0:
			id := vp.Int32("channel-id")
			n := []int{0, 4, 7}[vp.Choice("data-len", 3)]
			eof := vp.Bool("eof")
			pkt = tmp2p.Packet{Sum: &tmp2p.Packet_PacketMsg{PacketMsg: &tmp2p.PacketMsg{ChannelID: id, EOF: eof, Data: vp.Bytes("data", n)}}}
			_ = total
		case 1:
			pkt = tmp2p.Packet{Sum: &tmp2p.Packet_PacketPing{PacketPing: &tmp2p.PacketPing{}}}
		case 2:
			pkt = tmp2p.Packet{Sum: &tmp2p.Packet_PacketPong{PacketPong: &tmp2p.PacketPong{}}}
		case 3:
			pkt = tmp2p.Packet{} // no payload at all
		}
		if _, err := w.WriteMsg(&pkt); err != nil {
			panic(err)
		}
		vp.Settle()
		for _, ch := range rcv.channels {
			vp.Assert(len(ch.recving) <= capacity, "C17.hostile.a-channel-never-buffers-more-than-its-capacity")
		}
	}
	for _, g := range recvEnd.got {
		vp.Assert(g.ch == 0x20 || g.ch == 0x30, "C17.hostile.only-known-channels-deliver")
		vp.Assert(len(g.msg) <= capacity, "C17.hostile.delivered-message-within-capacity")
	}
	if len(recvEnd.errs) > 0 {
		vp.Reach("peer-error-reported?")
	}
	vp.Reach("survived")
	_ = errors.New
	_ = proto.Marshal
}
