//go:build verif

package conn

import (
	"bytes"
	"encoding/hex"

	gogotypes "github.com/gogo/protobuf/types"
	"github.com/gtank/merlin"
	"golang.org/x/crypto/chacha20poly1305"

	"github.com/tendermint/tendermint/crypto"
	"github.com/tendermint/tendermint/crypto/ed25519"
	cryptoenc "github.com/tendermint/tendermint/crypto/encoding"
	vp "github.com/tendermint/tendermint/internal/verifvp"
	"github.com/tendermint/tendermint/libs/protoio"
	tmp2p "github.com/tendermint/tendermint/proto/tendermint/p2p"
)

// vpDuplex is one end of an in-memory duplex link.
type vpDuplex struct {
	in, out *vpLink
}

func (d *vpDuplex) Read(p []byte) (int, error)  { return d.in.Read(p) }
func (d *vpDuplex) Write(p []byte) (int, error) { return d.out.Write(p) }
func (d *vpDuplex) Close() error                { d.in.Close(); d.out.Close(); return nil }

func vpDuplexPair() (*vpDuplex, *vpDuplex) {
	a, b := newVPLink(), newVPLink()
	return &vpDuplex{in: a, out: b}, &vpDuplex{in: b, out: a}
}

type vpHSResult struct {
	sc  *SecretConnection
	err error
}

func vpRunHandshake(c *vpDuplex, key crypto.PrivKey) chan vpHSResult {
	ch := make(chan vpHSResult, 1)
	go func() {
		sc, err := MakeSecretConnection(c, key)
		if err != nil {
			c.Close() // as the transport does: a failed upgrade closes the connection
		}
		ch <- vpHSResult{sc, err}
	}()
	return ch
}

// vpMitmLeg is the adversary's side of one leg: it speaks the protocol with its own ephemeral key
// and then holds the session keys of that leg.
type vpMitmLeg struct {
	sc        *SecretConnection
	challenge [32]byte
}

// ephemeral exchange and key derivation exactly as an implementation of the protocol does it;
// `eph` lets the adversary present any 32 bytes as its ephemeral public key.
func vpMitmExchange(c *vpDuplex, substitute *[32]byte) (*vpMitmLeg, bool) {
	locEphPub, locEphPriv := genEphKeys()
	present := locEphPub
	if substitute != nil {
		present = substitute
	}
	if _, err := protoio.NewDelimitedWriter(c).WriteMsg(&gogotypes.BytesValue{Value: present[:]}); err != nil {
		return nil, false
	}
	var bv gogotypes.BytesValue
	if _, err := protoio.NewDelimitedReader(c, 1024*1024).ReadMsg(&bv); err != nil || len(bv.Value) != 32 {
		return nil, false
	}
	var remEphPub [32]byte
	copy(remEphPub[:], bv.Value)
	if substitute != nil {
		locEphPub = substitute // what the victim believes our key is
	}
	lo, hi := sort32(locEphPub, &remEphPub)
	transcript := merlin.NewTranscript("TENDERMINT_SECRET_CONNECTION_TRANSCRIPT_HASH")
	transcript.AppendMessage(labelEphemeralLowerPublicKey, lo[:])
	transcript.AppendMessage(labelEphemeralUpperPublicKey, hi[:])
	locIsLeast := bytes.Equal(locEphPub[:], lo[:])
	dh, err := computeDHSecret(&remEphPub, locEphPriv)
	if err != nil {
		return nil, false
	}
	if substitute != nil {
		// the points the adversary presents here have small order: whatever the victim's secret
		// key, the "shared secret" it would compute from them is all zeros, and everybody knows it
		dh = new([32]byte)
	}
	transcript.AppendMessage(labelDHSecret, dh[:])
	recvSecret, sendSecret := deriveSecrets(dh, locIsLeast)
	leg := &vpMitmLeg{}
	copy(leg.challenge[:], transcript.ExtractBytes(labelSecretConnectionMac, 32))
	sendAead, _ := chacha20poly1305.New(sendSecret[:])
	recvAead, _ := chacha20poly1305.New(recvSecret[:])
	leg.sc = &SecretConnection{conn: c, recvNonce: new([aeadNonceSize]byte), sendNonce: new([aeadNonceSize]byte), recvAead: recvAead, sendAead: sendAead}
	return leg, true
}

func (l *vpMitmLeg) sendAuth(pub crypto.PubKey, sig []byte) bool {
	pk, err := cryptoenc.PubKeyToProto(pub)
	if err != nil {
		return false
	}
	_, err = protoio.NewDelimitedWriter(l.sc).WriteMsg(&tmp2p.AuthSigMessage{PubKey: pk, Sig: sig})
	return err == nil
}

func (l *vpMitmLeg) recvAuth() (crypto.PubKey, []byte, bool) {
	var pba tmp2p.AuthSigMessage
	if _, err := protoio.NewDelimitedReader(l.sc, 1024*1024).ReadMsg(&pba); err != nil {
		return nil, nil, false
	}
	pk, err := cryptoenc.PubKeyFromProto(pba.PubKey)
	if err != nil {
		return nil, nil, false
	}
	return pk, pba.Sig, true
}

// C16-H2a: two honest parties: both authenticate the other's real key and read what the other wrote.
func VP_C16_HandshakeHonest() {
	keyA, keyB := ed25519.GenPrivKeyFromSecret([]byte("A")), ed25519.GenPrivKeyFromSecret([]byte("B"))
	ca, cb := vpDuplexPair()
	ra, rb := vpRunHandshake(ca, keyA), vpRunHandshake(cb, keyB)
	a, b := <-ra, <-rb
	vp.Assert(a.err == nil && b.err == nil, "C16.handshake.honest-parties-connect")
	vp.Assert(a.sc.RemotePubKey().Equals(keyB.PubKey()) && b.sc.RemotePubKey().Equals(keyA.PubKey()), "C16.handshake.each-end-authenticates-the-other's-key")
	msg := vp.Bytes("message", 5)
	go func() { a.sc.Write(msg) }()
	buf := make([]byte, 5)
	n, err := b.sc.Read(buf)
	vp.Assert(err == nil && n == 5 && bytes.Equal(buf, msg), "C16.handshake.bytes-written-are-the-bytes-read")
	vp.Reach("connected")
}

// C16-H2b: a man in the middle. B (and A) run the real MakeSecretConnection; the adversary M speaks
// to each of them with ephemeral keys of its own choosing and then tries to pass as A towards B.
func VP_C16_HandshakeMITM() {
	keyA, keyB, keyM := ed25519.GenPrivKeyFromSecret([]byte("A")), ed25519.GenPrivKeyFromSecret([]byte("B")), ed25519.GenPrivKeyFromSecret([]byte("M"))
	// leg 2: M <-> B
	mb, cb := vpDuplexPair()
	rb := vpRunHandshake(cb, keyB)
	var presented crypto.PubKey
	provedPossession := false
	switch vp.Choice("attack", 7) {
	case 0: // M presents its own identity and signs the challenge of this leg: a legitimate peer
		leg, ok := vpMitmExchange(mb, nil)
		vp.Assert(ok, "C16.mitm.adversary-completes-the-ephemeral-exchange")
		sig, _ := keyM.Sign(leg.challenge[:])
		presented, provedPossession = keyM.PubKey(), true
		leg.sendAuth(presented, sig)
	case 1: // relay: A signs the challenge of its own leg with M; M passes key and signature on to B
		ma, ca := vpDuplexPair()
		ra := vpRunHandshake(ca, keyA)
		legA, ok := vpMitmExchange(ma, nil)
		vp.Assert(ok, "C16.mitm.adversary-completes-the-ephemeral-exchange")
		pubA, sigA, ok := legA.recvAuth()
		vp.Assert(ok && pubA.Equals(keyA.PubKey()), "C16.mitm.adversary-reads-A's-auth-message-on-its-own-leg")
		legB, ok := vpMitmExchange(mb, nil)
		vp.Assert(ok, "C16.mitm.adversary-completes-the-ephemeral-exchange")
		presented = keyA.PubKey()
		legB.sendAuth(presented, sigA)
		ma.Close()
		<-ra
	case 2: // replay: A's signature from an earlier session of A with B itself
		ca0, cb0 := vpDuplexPair()
		ra0, rb0 := vpRunHandshake(ca0, keyA), vpRunHandshake(cb0, keyB)
		a0, b0 := <-ra0, <-rb0
		vp.Assert(a0.err == nil && b0.err == nil, "C16.handshake.honest-parties-connect")
		// M cannot read that session; but suppose the old signature leaked: it signs the old challenge
		oldSig := []byte(nil)
		{
			ma, ca := vpDuplexPair()
			ra := vpRunHandshake(ca, keyA)
			legA, ok := vpMitmExchange(ma, nil)
			vp.Assert(ok, "C16.mitm.adversary-completes-the-ephemeral-exchange")
			_, oldSig, _ = legA.recvAuth()
			ma.Close()
			<-ra
		}
		legB, ok := vpMitmExchange(mb, nil)
		vp.Assert(ok, "C16.mitm.adversary-completes-the-ephemeral-exchange")
		presented = keyA.PubKey()
		legB.sendAuth(presented, oldSig)
	case 3: // A's key with M's signature
		leg, ok := vpMitmExchange(mb, nil)
		vp.Assert(ok, "C16.mitm.adversary-completes-the-ephemeral-exchange")
		sig, _ := keyM.Sign(leg.challenge[:])
		presented = keyA.PubKey()
		leg.sendAuth(presented, sig)
	case 4: // A's key with arbitrary signature bytes
		leg, ok := vpMitmExchange(mb, nil)
		vp.Assert(ok, "C16.mitm.adversary-completes-the-ephemeral-exchange")
		presented = keyA.PubKey()
		leg.sendAuth(presented, vp.Bytes("forged-signature", 64))
	case 5: // a low-order point as ephemeral key
		var lowOrder [32]byte
		h, _ := hex.DecodeString(vpLowOrderPoints[vp.Choice("low-order-point", len(vpLowOrderPoints))])
		copy(lowOrder[:], h)
		if leg, ok := vpMitmExchange(mb, &lowOrder); ok {
			sig, _ := keyM.Sign(leg.challenge[:])
			presented = keyM.PubKey()
			leg.sendAuth(presented, sig)
		}
	case 6: // reflection: B's own ephemeral key and B's own auth message are sent back to it
		var bv gogotypes.BytesValue
		if _, err := protoio.NewDelimitedReader(mb, 1024*1024).ReadMsg(&bv); err == nil {
			protoio.NewDelimitedWriter(mb).WriteMsg(&bv)
			// whatever B sends next is echoed
			buf := make([]byte, 2048)
			if n, err := mb.Read(buf); err == nil {
				mb.Write(buf[:n])
			}
		}
		presented = keyB.PubKey()
	}
	b := <-rb
	if b.err == nil {
		vp.Reach("accepted?")
		vp.Assert(provedPossession && b.sc.RemotePubKey().Equals(presented), "C16.handshake.accepted-only-if-the-presented-identity-signed-this-very-exchange")
	} else {
		vp.Reach("refused")
	}
	mb.Close()
}

// the points of order 1, 2, 4 and 8 on Curve25519 (and their non-canonical encodings)
var vpLowOrderPoints = []string{
	"0000000000000000000000000000000000000000000000000000000000000000",
	"0100000000000000000000000000000000000000000000000000000000000000",
	"e0eb7a7c3b41b8ae1656e3faf19fc46ada098deb9c32b1fd866205165f49b800",
	"5f9c95bca3508c24b1d0b1559c83ef5b04445cc4581c8e86d8224eddd09f1157",
	"ecffffffffffffffffffffffffffffffffffffffffffffffffffffffffffff7f",
	"edffffffffffffffffffffffffffffffffffffffffffffffffffffffffffff7f",
	"eeffffffffffffffffffffffffffffffffffffffffffffffffffffffffffff7f",
}

// translator validation: the engine's keccak-f (StrobeGo's is assembly) against the value the
// natively compiled merlin produces
func VP_C16_KeccakMatchesNative() {
	tr := merlin.NewTranscript("verif-keccak-check")
	tr.AppendMessage([]byte("a"), []byte("hello world"))
	got := hex.EncodeToString(tr.ExtractBytes([]byte("out"), 32))
	vp.Assert(got == "cfdc1aa3c74ae0e1be4ab864cb16c7170422d9afc4a296879c1c87405c36aa2b", "C16.engine.merlin-transcript-equals-the-native-one")
	vp.Reach("checked")
}
