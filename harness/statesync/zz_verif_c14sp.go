//go:build verif

package statesync

import (
	"bytes"
	"context"
	"time"

	dbm "github.com/tendermint/tm-db"

	"github.com/tendermint/tendermint/crypto/ed25519"
	"github.com/tendermint/tendermint/crypto/tmhash"
	vp "github.com/tendermint/tendermint/internal/verifvp"
	"github.com/tendermint/tendermint/libs/log"
	"github.com/tendermint/tendermint/light"
	"github.com/tendermint/tendermint/light/provider"
	dbs "github.com/tendermint/tendermint/light/store/db"
	tmproto "github.com/tendermint/tendermint/proto/tendermint/types"
	tmversion "github.com/tendermint/tendermint/proto/tendermint/version"
	rpchttp "github.com/tendermint/tendermint/rpc/client/http"
	ctypes "github.com/tendermint/tendermint/rpc/core/types"
	sm "github.com/tendermint/tendermint/state"
	"github.com/tendermint/tendermint/types"
	"github.com/tendermint/tendermint/version"
)

const vpSPChain = "vp-sp"

type vpChainProvider struct{ blocks map[int64]*types.LightBlock }

func (p *vpChainProvider) ChainID() string { return vpSPChain }
func (p *vpChainProvider) ReportEvidence(context.Context, types.Evidence) error { return nil }
func (p *vpChainProvider) LightBlock(ctx context.Context, h int64) (*types.LightBlock, error) {
	if h == 0 {
		h = int64(len(p.blocks))
	}
	if b, ok := p.blocks[h]; ok {
		return b, nil
	}
	return nil, provider.ErrLightBlockNotFound
}

// C14 (state provider): the state a restoring node starts from is assembled from light-verified
// blocks only: its three validator sets, its app hash and its results hash are those of the verified
// headers at the snapshot height H, H+1 and H+2, also when the validator set changes right after H.
func VP_C14_StateProvider() {
	keys := make([]ed25519.PrivKey, 5)
	for i := range keys {
		keys[i] = ed25519.GenPrivKeyFromSecret([]byte{'s', 'p', byte(i)})
	}
	setOf := func(idx ...int) *types.ValidatorSet {
		var vs []*types.Validator
		for _, i := range idx {
			vs = append(vs, types.NewValidator(keys[i].PubKey(), 10))
		}
		return types.NewValidatorSet(vs)
	}
	// the set changes at one arbitrary height (a fifth validator joins)
	changeAt := int64(vp.Range("validator-set-changes-at", 2, 7))
	valsAt := func(h int64) *types.ValidatorSet {
		if h >= changeAt {
			return setOf(0, 1, 2, 3, 4)
		}
		return setOf(0, 1, 2, 3)
	}
	params := *types.DefaultConsensusParams()
	base := int64(1_599_990_000)
	blocks := map[int64]*types.LightBlock{}
	var prev *types.Header
	for h := int64(1); h <= 7; h++ {
		vals, next := valsAt(h), valsAt(h+1)
		hd := &types.Header{
			Version: tmversion.Consensus{Block: version.BlockProtocol, App: 1}, ChainID: vpSPChain, Height: h, Time: time.Unix(base+10*h, 0).UTC(),
			LastCommitHash: tmhash.Sum([]byte("lc")), DataHash: tmhash.Sum([]byte("d")), ValidatorsHash: vals.Hash(), NextValidatorsHash: next.Hash(),
			ConsensusHash: types.HashConsensusParams(params), AppHash: []byte{0xA0, byte(h)}, LastResultsHash: tmhash.Sum([]byte{byte(h)}), EvidenceHash: tmhash.Sum([]byte("e")),
			ProposerAddress: vals.Validators[0].Address,
		}
		if prev != nil {
			hd.LastBlockID = types.BlockID{Hash: prev.Hash(), PartSetHeader: types.PartSetHeader{Total: 1, Hash: tmhash.Sum([]byte("parts"))}}
		}
		bid := types.BlockID{Hash: hd.Hash(), PartSetHeader: types.PartSetHeader{Total: 1, Hash: tmhash.Sum([]byte("parts"))}}
		sigs := make([]types.CommitSig, len(vals.Validators))
		for i, v := range vals.Validators {
			for _, k := range keys {
				if bytes.Equal(k.PubKey().Address(), v.Address) {
					vote := &types.Vote{Type: tmproto.PrecommitType, Height: h, Round: 0, BlockID: bid, Timestamp: hd.Time, ValidatorAddress: v.Address, ValidatorIndex: int32(i)}
					sig, err := k.Sign(types.VoteSignBytes(vpSPChain, vote.ToProto()))
					if err != nil {
						panic(err)
					}
					sigs[i] = types.CommitSig{BlockIDFlag: types.BlockIDFlagCommit, ValidatorAddress: v.Address, Timestamp: hd.Time, Signature: sig}
				}
			}
		}
		blocks[h] = &types.LightBlock{SignedHeader: &types.SignedHeader{Header: hd, Commit: types.NewCommit(h, 0, bid, sigs)}, ValidatorSet: vals}
		prev = hd
	}
	primary, witness := &vpChainProvider{blocks}, &vpChainProvider{blocks}
	lc, err := light.NewClient(context.Background(), vpSPChain, light.TrustOptions{Period: 100 * 365 * 24 * time.Hour, Height: 1, Hash: blocks[1].Hash()},
		primary, []provider.Provider{witness}, dbs.New(dbm.NewMemDB(), vpSPChain), light.Logger(log.NewNopLogger()))
	if err != nil {
		panic(err)
	}
	// the RPC side of the provider: only the consensus parameters are fetched there
	vp.Stub("github.com/tendermint/tendermint/rpc/client/http.New", func(remote, ws string) (*rpchttp.HTTP, error) { return &rpchttp.HTTP{}, nil })
	vp.Stub("(*github.com/tendermint/tendermint/rpc/client/http.baseRPCClient).ConsensusParams", func(recv interface{}, ctx context.Context, h *int64) (*ctypes.ResultConsensusParams, error) {
		return &ctypes.ResultConsensusParams{BlockHeight: *h, ConsensusParams: params}, nil
	})
	sp := &lightClientStateProvider{lc: lc, initialHeight: 1, providers: map[provider.Provider]string{primary: "primary:26657"}}
	H := uint64(vp.Range("snapshot-height", 2, 4))
	appHash, err := sp.AppHash(context.Background(), H)
	vp.Assert(err == nil && bytes.Equal(appHash, blocks[int64(H)+1].AppHash), "C14.provider.app-hash-is-the-verified-one-at-snapshot-height-plus-one")
	st, err := sp.State(context.Background(), H)
	vp.Assert(err == nil, "C14.provider.state-is-built-for-a-verifiable-height")
	h := int64(H)
	vp.Assert(bytes.Equal(st.LastValidators.Hash(), blocks[h].ValidatorsHash), "C14.provider.last-validators-are-the-light-verified-set")
	vp.Assert(bytes.Equal(st.Validators.Hash(), blocks[h+1].ValidatorsHash), "C14.provider.validators-are-the-light-verified-set")
	vp.Assert(bytes.Equal(st.NextValidators.Hash(), blocks[h+1].NextValidatorsHash) && bytes.Equal(st.NextValidators.Hash(), blocks[h+2].ValidatorsHash), "C14.provider.next-validators-are-the-light-verified-set")
	vp.Assert(bytes.Equal(st.AppHash, blocks[h+1].AppHash) && bytes.Equal(st.LastResultsHash, blocks[h+1].LastResultsHash) && st.LastBlockHeight == h, "C14.provider.hashes-and-height-are-the-verified-ones")
	vp.Reach("state-built")
	// what the node does next (node.startStateSync): the state store is bootstrapped from this state;
	// afterwards the store serves exactly the verified sets and parameters for H, H+1 and H+2
	store := sm.NewStore(dbm.NewMemDB(), sm.StoreOptions{})
	vp.Assert(store.Bootstrap(st) == nil, "C14.bootstrap.state-store-accepts-the-provider's-state")
	for d := int64(0); d <= 2; d++ {
		vs, err := store.LoadValidators(h + d)
		vp.Assert(err == nil && bytes.Equal(vs.Hash(), blocks[h+d].ValidatorsHash), "C14.bootstrap.state-store-serves-the-light-verified-validator-set-of-each-height")
	}
	cp, err := store.LoadConsensusParams(h + 1)
	vp.Assert(err == nil && bytes.Equal(types.HashConsensusParams(cp), blocks[h+1].ConsensusHash), "C14.bootstrap.state-store-serves-the-verified-parameters")
	loaded, err := store.Load()
	vp.Assert(err == nil && loaded.LastBlockHeight == h && bytes.Equal(loaded.AppHash, st.AppHash), "C14.bootstrap.stored-state-is-the-provider's-state")
}
