//go:build verif

package statesync

import (
	"bytes"
	"context"
	"errors"
	"fmt"
	"github.com/gogo/protobuf/proto"

	abci "github.com/tendermint/tendermint/abci/types"
	"github.com/tendermint/tendermint/config"
	vp "github.com/tendermint/tendermint/internal/verifvp"
	"github.com/tendermint/tendermint/libs/log"
	"github.com/tendermint/tendermint/p2p"
	ssproto "github.com/tendermint/tendermint/proto/tendermint/statesync"
	sm "github.com/tendermint/tendermint/state"
	"github.com/tendermint/tendermint/types"
)

// ---------------------------------------------------------------- what the light client verified

// vpProvider stands for the light client (C09 is about it): heights 10 and 11 exist on the chain.
type vpProvider struct{ w *vpC14 }

func vpTrustedHash(h uint64) []byte { return []byte{0xAA, byte(h)} }

const vpAppVersion = 7

func (p *vpProvider) AppHash(ctx context.Context, h uint64) ([]byte, error) {
	if h != 10 && h != 11 {
		return nil, errors.New("light client: no verified header at that height")
	}
	return vpTrustedHash(h), nil
}
func (p *vpProvider) Commit(ctx context.Context, h uint64) (*types.Commit, error) {
	return &types.Commit{Height: int64(h)}, nil
}
func (p *vpProvider) State(ctx context.Context, h uint64) (sm.State, error) {
	st := sm.State{LastBlockHeight: int64(h), AppHash: vpTrustedHash(h)}
	st.Version.Consensus.App = vpAppVersion
	return st, nil
}

// ---------------------------------------------------------------- peers

type vpPeer struct {
	p2p.Peer
	id p2p.ID
	w  *vpC14
}

func (p *vpPeer) ID() p2p.ID { return p.id }
func (p *vpPeer) SendEnvelope(e p2p.Envelope) bool {
	p.w.onSend(p, e)
	return true
}
func (p *vpPeer) TrySendEnvelope(e p2p.Envelope) bool { return p.SendEnvelope(e) }

// ---------------------------------------------------------------- the recording application

type vpArrival struct {
	bytes  []byte
	sender p2p.ID
	// the chunk had already been applied when its sender was rejected: by the ABCI contract it is
	// kept ("chunks already applied will not be refetched unless explicitly requested")
	keptAfterRejection bool
}

type vpC14 struct {
	s      *syncer
	peers  map[p2p.ID]*vpPeer
	budget int // adversarial actions left on this path
	// what arrived first for each chunk index of the snapshot being restored (cleared on discard)
	arrived map[uint32]vpArrival
	cur     *abci.Snapshot // the snapshot the app accepted last
	expect  uint32         // next chunk index the app must see
	applied int

	rejectedSnapshots       [][]byte // hashes
	rejectedFormats         map[uint32]bool
	rejectedSenders         map[p2p.ID]bool
	offers                  int
	lastVerdictEndedRestore bool
	advertisers             map[string][]p2p.ID // snapshot hash -> peers that advertised it
	refetchWanted           map[uint32]bool     // chunk indexes the application asked to refetch and that were not requested again yet
	infoExact               bool
	infoCalls               int
}

func (w *vpC14) adversarial(name string, n int) int {
	if w.budget == 0 {
		return 0
	}
	c := vp.Choice(name, n)
	if c != 0 {
		w.budget--
	}
	return c
}

func vpChunkBytes(s *abci.Snapshot, idx uint32, variant byte) []byte {
	return []byte{byte(s.Height), byte(s.Format), byte(idx), variant}
}

func (w *vpC14) Error() error { return nil }
func (w *vpC14) ListSnapshotsSync(abci.RequestListSnapshots) (*abci.ResponseListSnapshots, error) {
	return &abci.ResponseListSnapshots{}, nil
}
func (w *vpC14) LoadSnapshotChunkSync(abci.RequestLoadSnapshotChunk) (*abci.ResponseLoadSnapshotChunk, error) {
	return &abci.ResponseLoadSnapshotChunk{}, nil
}

func (w *vpC14) OfferSnapshotSync(req abci.RequestOfferSnapshot) (*abci.ResponseOfferSnapshot, error) {
	w.offers++
	vp.Assert(w.offers <= 12, "C14.offer.offers-are-bounded")
	sn := req.Snapshot
	vp.Assert(bytes.Equal(req.AppHash, vpTrustedHash(sn.Height)), "C14.offer.app-hash-comes-from-the-light-client-not-from-a-peer")
	for _, h := range w.rejectedSnapshots {
		vp.Assert(!bytes.Equal(h, sn.Hash), "C14.offer.a-rejected-snapshot-is-never-offered-again")
	}
	vp.Assert(!w.rejectedFormats[sn.Format], "C14.offer.a-rejected-format-is-never-offered-again")
	// at least one peer that is not rejected must be advertising it
	live := 0
	for _, p := range w.s.snapshots.GetPeers(&snapshot{Height: sn.Height, Format: sn.Format, Chunks: sn.Chunks, Hash: sn.Hash, Metadata: sn.Metadata}) {
		if !w.rejectedSenders[p.ID()] {
			live++
		}
	}
	vp.Assert(live > 0, "C14.offer.snapshot-of-rejected-senders-only-is-never-offered")
	res := abci.ResponseOfferSnapshot_ACCEPT
	switch w.adversarial("offer-verdict", 5) {
	case 1:
		res = abci.ResponseOfferSnapshot_REJECT
		w.rejectedSnapshots = append(w.rejectedSnapshots, sn.Hash)
	case 2:
		res = abci.ResponseOfferSnapshot_REJECT_FORMAT
		w.rejectedFormats[sn.Format] = true
	case 3:
		res = abci.ResponseOfferSnapshot_REJECT_SENDER
		for _, p := range w.s.snapshots.GetPeers(&snapshot{Height: sn.Height, Format: sn.Format, Chunks: sn.Chunks, Hash: sn.Hash, Metadata: sn.Metadata}) {
			w.rejectedSenders[p.ID()] = true
		}
	case 4:
		res = abci.ResponseOfferSnapshot_ABORT
	}
	// a restore that ended (this is a new offer) must not have left a refetch request unanswered
	// while a peer that could serve it was still there
	w.checkRefetchHonoured()
	if res == abci.ResponseOfferSnapshot_ACCEPT {
		vp.Reach("snapshot-accepted")
		if w.cur == nil || !bytes.Equal(w.cur.Hash, sn.Hash) {
			w.arrived = map[uint32]vpArrival{}
		}
		w.cur, w.expect, w.applied = sn, 0, 0
	}
	return &abci.ResponseOfferSnapshot{Result: res}, nil
}

func (w *vpC14) ApplySnapshotChunkSync(req abci.RequestApplySnapshotChunk) (*abci.ResponseApplySnapshotChunk, error) {
	vp.Assert(w.cur != nil, "C14.apply.chunks-only-after-an-accepted-offer")
	vp.Assert(req.Index == w.expect, "C14.apply.chunks-reach-the-application-in-index-order")
	arr, ok := w.arrived[req.Index]
	vp.Assert(ok && bytes.Equal(arr.bytes, req.Chunk) && string(arr.sender) == req.Sender, "C14.apply.bytes-and-sender-are-those-recorded-at-arrival")
	vp.Assert(!w.rejectedSenders[p2p.ID(req.Sender)] || arr.keptAfterRejection, "C14.apply.no-queued-or-new-chunk-of-a-rejected-sender-is-applied")
	w.applied++
	vp.Assert(w.applied <= 16, "C14.apply.applications-are-bounded")
	resp := &abci.ResponseApplySnapshotChunk{Result: abci.ResponseApplySnapshotChunk_ACCEPT}
	switch w.adversarial("apply-verdict", 7) {
	case 1:
		resp.Result = abci.ResponseApplySnapshotChunk_RETRY
	case 2:
		resp.Result = abci.ResponseApplySnapshotChunk_RETRY_SNAPSHOT
	case 3:
		resp.Result = abci.ResponseApplySnapshotChunk_REJECT_SNAPSHOT
		w.rejectedSnapshots = append(w.rejectedSnapshots, w.cur.Hash)
	case 4:
		resp.Result = abci.ResponseApplySnapshotChunk_ABORT
	case 5: // refetch this chunk and try it again
		resp.Result = abci.ResponseApplySnapshotChunk_RETRY
		resp.RefetchChunks = []uint32{req.Index}
		delete(w.arrived, req.Index)
		w.refetchWanted[req.Index] = true
	case 6: // the sender of this chunk is rejected; refetch and retry
		resp.Result = abci.ResponseApplySnapshotChunk_RETRY
		resp.RefetchChunks = []uint32{req.Index}
		resp.RejectSenders = []string{req.Sender}
		w.rejectedSenders[p2p.ID(req.Sender)] = true
		w.refetchWanted[req.Index] = true
		for i, a := range w.arrived {
			if string(a.sender) != req.Sender {
				continue
			}
			if i >= req.Index {
				delete(w.arrived, i)
			} else {
				a.keptAfterRejection = true
				w.arrived[i] = a
			}
		}
		vp.Reach("sender-rejected?")
	}
	w.lastVerdictEndedRestore = resp.Result != abci.ResponseApplySnapshotChunk_ACCEPT && resp.Result != abci.ResponseApplySnapshotChunk_RETRY
	switch resp.Result {
	case abci.ResponseApplySnapshotChunk_ACCEPT:
		w.expect = req.Index + 1
	case abci.ResponseApplySnapshotChunk_RETRY_SNAPSHOT:
		// the same snapshot is offered again and restored from chunk 0 without refetching
	}
	return resp, nil
}

func (w *vpC14) EchoSync(string) (*abci.ResponseEcho, error) { return &abci.ResponseEcho{}, nil }
func (w *vpC14) QuerySync(abci.RequestQuery) (*abci.ResponseQuery, error) {
	return &abci.ResponseQuery{}, nil
}
func (w *vpC14) InfoSync(abci.RequestInfo) (*abci.ResponseInfo, error) {
	w.infoCalls++
	h := w.cur.Height
	res := &abci.ResponseInfo{AppVersion: vpAppVersion, LastBlockAppHash: vpTrustedHash(h), LastBlockHeight: int64(h)}
	w.infoExact = true
	switch w.adversarial("restored-app-reports", 4) {
	case 1:
		// any other hash of length 0..2 (the trusted one has 2 bytes): empty, a strict prefix, a different one
		b := vp.Bytes("reported-hash", vp.Choice("reported-hash-len", 3))
		vp.Assume(!bytes.Equal(b, vpTrustedHash(h)))
		res.LastBlockAppHash = b
		w.infoExact = false
	case 2:
		res.LastBlockHeight--
		w.infoExact = false
	case 3:
		res.AppVersion++
		w.infoExact = false
	}
	return res, nil
}

func (w *vpC14) checkRefetchHonoured() {
	if w.cur == nil || len(w.refetchWanted) == 0 {
		return
	}
	live := 0
	for _, id := range w.advertisers[string(w.cur.Hash)] {
		if !w.rejectedSenders[id] {
			live++
		}
	}
	vp.Assert(live == 0 || w.lastVerdictEndedRestore, "C14.fetch.a-refetch-request-is-honoured-while-a-peer-can-serve-it")
	w.refetchWanted = map[uint32]bool{}
}

// onSend: a peer is asked for something.
func (w *vpC14) onSend(p *vpPeer, e p2p.Envelope) {
	req, ok := e.Message.(*ssproto.ChunkRequest)
	if !ok {
		return
	}
	vp.Assert(!w.rejectedSenders[p.id], "C14.fetch.no-request-goes-to-a-rejected-sender")
	if w.cur == nil || req.Height != w.cur.Height || req.Format != w.cur.Format {
		return
	}
	delete(w.refetchWanted, req.Index)
	deliver := func(from p2p.ID, idx uint32, variant byte) {
		c := &chunk{Height: req.Height, Format: req.Format, Index: idx, Chunk: vpChunkBytes(w.cur, idx, variant), Sender: from}
		added, _ := w.s.AddChunk(c)
		if added {
			if _, dup := w.arrived[idx]; !dup {
				w.arrived[idx] = vpArrival{bytes: c.Chunk, sender: from}
			}
		}
	}
	switch w.adversarial("peer-behaviour", 5) {
	case 0:
		deliver(p.id, req.Index, 0)
	case 1: // silent: the request times out and is repeated
	case 2: // an outsider that advertised nothing gets its chunk in first; the real one arrives late
		deliver("outsider", req.Index, 9)
		deliver(p.id, req.Index, 0)
	case 3: // answers with another chunk than the one asked for, then the right one
		if req.Index+1 < w.cur.Chunks {
			deliver(p.id, req.Index+1, 1)
		}
		deliver(p.id, req.Index, 0)
	case 4: // duplicate with different bytes
		deliver(p.id, req.Index, 0)
		deliver(p.id, req.Index, 2)
	}
}

// ---------------------------------------------------------------- the harness

func vpC14Sync(budget int) {
	w := &vpC14{peers: map[p2p.ID]*vpPeer{}, budget: budget, arrived: map[uint32]vpArrival{}, refetchWanted: map[uint32]bool{}, advertisers: map[string][]p2p.ID{}, rejectedFormats: map[uint32]bool{}, rejectedSenders: map[p2p.ID]bool{}}
	cfg := *config.DefaultStateSyncConfig()
	cfg.ChunkFetchers = 1
	vp.Opt("timerfires", 2000)
	w.s = newSyncer(cfg, log.NewNopLogger(), w, w, &vpProvider{w}, vp.TempDir())
	for _, id := range []p2p.ID{"p1", "p2", "outsider"} {
		w.peers[id] = &vpPeer{id: id, w: w}
	}
	s1 := func() *snapshot { return &snapshot{Height: 10, Format: 1, Chunks: 2, Hash: []byte{0x51}} }
	s2 := func() *snapshot { return &snapshot{Height: 10, Format: 2, Chunks: 1, Hash: []byte{0x52}} }
	s3 := func() *snapshot { return &snapshot{Height: 20, Format: 1, Chunks: 1, Hash: []byte{0x53}} } // no such height on the chain
	s4 := func() *snapshot { return &snapshot{Height: 11, Format: 1, Chunks: 1, Hash: []byte{0x54}} }
	adv := func(id p2p.ID, sn *snapshot) {
		w.s.AddSnapshot(w.peers[id], sn)
		w.advertisers[string(sn.Hash)] = append(w.advertisers[string(sn.Hash)], id)
	}
	switch vp.Choice("advertised", 3) {
	case 0:
		adv("p1", s1())
		adv("p2", s1())
		adv("p2", s2())
	case 1:
		adv("p1", s3())
		adv("p1", s1())
	case 2:
		adv("p1", s4())
		adv("p2", s1())
		adv("p2", s2())
	}
	state, commit, err := w.s.SyncAny(0, func() {})
	w.checkRefetchHonoured()
	if err == nil {
		vp.Reach("restored")
		vp.Assert(w.cur != nil && state.LastBlockHeight == int64(w.cur.Height) && bytes.Equal(state.AppHash, vpTrustedHash(w.cur.Height)) && commit.Height == int64(w.cur.Height), "C14.result.state-and-commit-are-the-light-verified-ones-for-the-restored-height")
		vp.Assert(w.infoCalls > 0 && w.infoExact, "C14.result.only-after-the-application-reported-exactly-that-hash-height-version")
		vp.Assert(w.expect == w.cur.Chunks, "C14.result.every-chunk-was-accepted-in-order")
	} else {
		vp.Reach("not-restored?")
	}
	// a sender the application rejected stays rejected: whatever it advertises later is refused
	for id := range w.rejectedSenders {
		added, _ := w.s.AddSnapshot(w.peers[id], &snapshot{Height: 11, Format: 3, Chunks: 1, Hash: []byte{0x60, id[0]}})
		vp.Assert(!added, "C14.reject.a-rejected-sender-is-never-used-again")
	}
	for f := range w.rejectedFormats {
		added, _ := w.s.AddSnapshot(w.peers["p1"], &snapshot{Height: 11, Format: f, Chunks: 1, Hash: []byte{0x61}})
		vp.Assert(!added || w.rejectedSenders["p1"], "C14.reject.a-rejected-format-is-never-used-again")
	}
	_ = fmt.Sprint
}

func VP_C14_Sync_b0() { vpC14Sync(0) }
func VP_C14_Sync_b1() { vpC14Sync(1) }
func VP_C14_Sync_b2() { vpC14Sync(2) }
func VP_C14_Sync_b3() { vpC14Sync(3) }
func VP_C14_Sync_b4() { vpC14Sync(4) }

// ---------------------------------------------------------------- C17-H2 (state sync reactor): a hostile message never wedges the node

// A message that fails validation reaches the real Reactor.ReceiveEnvelope while the node starts or
// finishes a state sync (Reactor.Sync takes the reactor's lock for writing); the switch's reaction to
// the invalid message is to stop the peer, which calls back into the reactor's RemovePeer.  Under every
// interleaving (pre-emption at lock operations) both activities finish: the peer is dropped, nothing
// is left waiting for a lock.
func VP_C17_StateSyncHostileMessage() {
	vp.Opt("preempt", 3)
	w := &vpC14{peers: map[p2p.ID]*vpPeer{}, arrived: map[uint32]vpArrival{}, refetchWanted: map[uint32]bool{}, advertisers: map[string][]p2p.ID{}, rejectedFormats: map[uint32]bool{}, rejectedSenders: map[p2p.ID]bool{}}
	cfg := *config.DefaultStateSyncConfig()
	cfg.ChunkFetchers = 1
	r := NewReactor(cfg, w, w, vp.TempDir())
	r.SetLogger(log.NewNopLogger())
	hostile := &vpPeer{id: "hostile", w: w}
	stopped := 0
	vp.Stub("(*github.com/tendermint/tendermint/libs/service.BaseService).IsRunning", func() bool { return true })
	// what p2p.Switch.StopPeerForError does as far as this reactor is concerned
	vp.Stub("(*github.com/tendermint/tendermint/p2p.Switch).StopPeerForError", func(sw *p2p.Switch, peer p2p.Peer, reason interface{}) {
		stopped++
		r.RemovePeer(peer, reason)
	})
	vp.Stub("(*github.com/tendermint/tendermint/p2p.Switch).BroadcastEnvelope", func(sw *p2p.Switch, e p2p.Envelope) chan bool { return nil })
	var msg proto.Message
	ch := byte(ChunkChannel)
	switch vp.Choice("invalid-message", 3) {
	case 0:
		msg = &ssproto.ChunkResponse{Height: 0, Format: 1, Index: 0, Chunk: []byte{1}}
	case 1:
		msg, ch = &ssproto.SnapshotsResponse{Height: 5, Format: 1, Chunks: 0, Hash: []byte{1}}, SnapshotChannel
	case 2:
		msg, ch = &ssproto.SnapshotsResponse{Height: 5, Format: 1, Chunks: 2, Hash: nil}, SnapshotChannel
	}
	done := make(chan int, 2)
	go func() {
		defer func() { recover(); done <- 1 }()
		r.ReceiveEnvelope(p2p.Envelope{Src: hostile, ChannelID: ch, Message: msg})
	}()
	go func() {
		r.Sync(&vpProvider{w}, 0) //nolint
		done <- 2
	}()
	vp.Settle()
	vp.Assert(len(done) == 2, "C17.reactor.statesync-hostile-message-never-leaves-the-node-waiting-for-a-lock")
	vp.Assert(stopped == 1, "C17.reactor.statesync-invalid-message-drops-the-peer")
	vp.Reach("both-finished")
}

// C14 (a rejected sender is never used again): k operations on the real snapshot pool from
// {peer advertises a snapshot, the application rejects the peer as a sender, the peer disconnects},
// two peers, two snapshots.  Once a peer has been rejected, nothing it advertises is taken, it is never
// offered as a source, and the syncer's sender check keeps refusing it, reconnects included.
func vpC14PoolRejectedSender(k int) {
	pool := newSnapshotPool()
	peers := []*vpPeer{{id: "p0"}, {id: "p1"}}
	snaps := []*snapshot{
		{Height: 5, Format: 1, Chunks: 2, Hash: []byte{0x51}},
		{Height: 6, Format: 1, Chunks: 2, Hash: []byte{0x61}},
	}
	rejected := []bool{false, false}
	for step := 0; step < k; step++ {
		pi := vp.Choice("peer", 2)
		switch vp.Choice("op", 3) {
		case 0:
			si := vp.Choice("snapshot", 2)
			_, err := pool.Add(peers[pi], snaps[si])
			vp.Assert(err == nil, "C14.pool.advertisement-is-processed")
		case 1:
			pool.RejectPeer(peers[pi].ID())
			rejected[pi] = true
		case 2:
			pool.RemovePeer(peers[pi].ID()) // the connection drops; the peer may come back and advertise again
		}
		for i := range peers {
			if !rejected[i] {
				continue
			}
			vp.Reach("rejected?")
			vp.Assert(pool.IsPeerRejected(peers[i].ID()), "C14.pool.rejected-sender-stays-rejected(reconnects-included)")
			for _, s := range snaps {
				for _, src := range pool.GetPeers(s) {
					vp.Assert(src.ID() != peers[i].ID(), "C14.pool.rejected-sender-is-never-offered-as-a-source")
				}
			}
		}
	}
	vp.Reach("done")
}

func VP_C14_PoolRejectedSender_k3() { vpC14PoolRejectedSender(3) }
func VP_C14_PoolRejectedSender_k4() { vpC14PoolRejectedSender(4) }
