//go:build verif

package evidence

import (
	"bytes"
	"time"

	dbm "github.com/tendermint/tm-db"

	"github.com/tendermint/tendermint/crypto/ed25519"
	"github.com/tendermint/tendermint/crypto/tmhash"
	vp "github.com/tendermint/tendermint/internal/verifvp"
	tmproto "github.com/tendermint/tendermint/proto/tendermint/types"
	tmversion "github.com/tendermint/tendermint/proto/tendermint/version"
	sm "github.com/tendermint/tendermint/state"
	"github.com/tendermint/tendermint/types"
	"github.com/tendermint/tendermint/version"
)

const vpChain = "vp-chain"

var vpT0 = time.Date(2022, 1, 1, 0, 0, 0, 0, time.UTC)

func vpBlockTime(h int64) time.Time { return vpT0.Add(time.Duration(h) * time.Minute) }

// ---- environment: a concrete little chain served by harness stores

type vpStateStore struct {
	sm.Store
	state sm.State
	vals  *types.ValidatorSet
}

func (s *vpStateStore) Load() (sm.State, error) { return s.state, nil }
func (s *vpStateStore) LoadValidators(h int64) (*types.ValidatorSet, error) {
	return s.vals.Copy(), nil
}

type vpBlockStore struct {
	height  int64
	keys    []ed25519.PrivKey
	vals    *types.ValidatorSet
	headers map[int64]*types.Header
}

func (b *vpBlockStore) Height() int64 { return b.height }
func (b *vpBlockStore) header(h int64) *types.Header {
	if hd, ok := b.headers[h]; ok {
		return hd
	}
	hd := &types.Header{
		Version: tmversion.Consensus{Block: version.BlockProtocol}, ChainID: vpChain, Height: h, Time: vpBlockTime(h),
		ValidatorsHash: b.vals.Hash(), NextValidatorsHash: b.vals.Hash(), ConsensusHash: tmhash.Sum([]byte("consensus")),
		AppHash: []byte("app"), LastResultsHash: tmhash.Sum([]byte("results")), LastBlockID: types.BlockID{Hash: tmhash.Sum([]byte("prev")), PartSetHeader: types.PartSetHeader{Total: 1, Hash: tmhash.Sum([]byte("prevparts"))}}, LastCommitHash: tmhash.Sum([]byte("lastcommit")), EvidenceHash: tmhash.Sum([]byte("evidence")), ProposerAddress: b.vals.Validators[0].Address,
		DataHash: tmhash.Sum([]byte("data")),
	}
	b.headers[h] = hd
	return hd
}
func (b *vpBlockStore) LoadBlockMeta(h int64) *types.BlockMeta {
	if h < 1 || h > b.height {
		return nil
	}
	hd := b.header(h)
	return &types.BlockMeta{BlockID: types.BlockID{Hash: hd.Hash(), PartSetHeader: types.PartSetHeader{Total: 1, Hash: hd.Hash()}}, Header: *hd}
}
func (b *vpBlockStore) LoadBlockCommit(h int64) *types.Commit {
	if h < 1 || h > b.height {
		return nil
	}
	return vpCommitFor(b.keys, b.vals, b.header(h), 0)
}

func vpCommitFor(keys []ed25519.PrivKey, vals *types.ValidatorSet, hd *types.Header, round int32) *types.Commit {
	bid := types.BlockID{Hash: hd.Hash(), PartSetHeader: types.PartSetHeader{Total: 1, Hash: hd.Hash()}}
	sigs := make([]types.CommitSig, len(vals.Validators))
	for i, v := range vals.Validators {
		var key ed25519.PrivKey
		for _, k := range keys {
			if bytes.Equal(k.PubKey().Address(), v.Address) {
				key = k
			}
		}
		vote := &types.Vote{Type: tmproto.PrecommitType, Height: hd.Height, Round: round, BlockID: bid, Timestamp: hd.Time,
			ValidatorAddress: v.Address, ValidatorIndex: int32(i)}
		sig, err := key.Sign(types.VoteSignBytes(vpChain, vote.ToProto()))
		if err != nil {
			panic(err)
		}
		sigs[i] = types.CommitSig{BlockIDFlag: types.BlockIDFlagCommit, ValidatorAddress: v.Address, Timestamp: hd.Time, Signature: sig}
	}
	return types.NewCommit(hd.Height, round, bid, sigs)
}

type vpEnv struct {
	keys  []ed25519.PrivKey
	vals  *types.ValidatorSet
	ss    *vpStateStore
	bs    *vpBlockStore
	db    dbm.DB
	state sm.State
}

func vpNewEnv(height int64, maxAgeBlocks int64, maxAge time.Duration) *vpEnv {
	keys := []ed25519.PrivKey{ed25519.GenPrivKeyFromSecret([]byte("ev0")), ed25519.GenPrivKeyFromSecret([]byte("ev1"))}
	vals := types.NewValidatorSet([]*types.Validator{
		types.NewValidator(keys[0].PubKey(), 10), types.NewValidator(keys[1].PubKey(), 5)})
	params := *types.DefaultConsensusParams()
	params.Evidence.MaxAgeNumBlocks = maxAgeBlocks
	params.Evidence.MaxAgeDuration = maxAge
	// the set changes after the latest block: what the state holds as current and next set (for the
	// coming height) is not the set any evidence height was under
	coming := types.NewValidatorSet([]*types.Validator{
		types.NewValidator(keys[0].PubKey(), 4), types.NewValidator(keys[1].PubKey(), 5)})
	state := sm.State{ChainID: vpChain, InitialHeight: 1, LastBlockHeight: height, LastBlockTime: vpBlockTime(height),
		Validators: coming, NextValidators: coming, LastValidators: vals, ConsensusParams: params}
	e := &vpEnv{keys: keys, vals: vals, db: dbm.NewMemDB(), state: state}
	e.ss = &vpStateStore{state: state, vals: vals}
	e.bs = &vpBlockStore{height: height, keys: keys, vals: vals, headers: map[int64]*types.Header{}}
	return e
}

func (e *vpEnv) advance(h int64) sm.State {
	e.state.LastBlockHeight = h
	e.state.LastBlockTime = vpBlockTime(h)
	e.ss.state = e.state
	e.bs.height = h
	return e.state
}

func vpVote(key ed25519.PrivKey, idx int32, h int64, r int32, typ tmproto.SignedMsgType, tag byte, ts time.Time) *types.Vote {
	bh := make([]byte, 32)
	bh[0] = tag
	v := &types.Vote{Type: typ, Height: h, Round: r, Timestamp: ts, ValidatorAddress: key.PubKey().Address(), ValidatorIndex: idx,
		BlockID: types.BlockID{Hash: bh, PartSetHeader: types.PartSetHeader{Total: 1, Hash: bh}}}
	sig, err := key.Sign(types.VoteSignBytes(vpChain, v.ToProto()))
	if err != nil {
		panic(err)
	}
	v.Signature = sig
	return v
}

// genuine duplicate-vote evidence by validator `who` at height h (distinct `variant`s give distinct evidence)
func (e *vpEnv) dve(who int, h int64, variant byte) *types.DuplicateVoteEvidence {
	idx, _ := e.vals.GetByAddress(e.keys[who].PubKey().Address())
	a := vpVote(e.keys[who], idx, h, 0, tmproto.PrecommitType, 0x10+variant, vpBlockTime(h))
	b := vpVote(e.keys[who], idx, h, 0, tmproto.PrecommitType, 0x80+variant, vpBlockTime(h))
	return types.NewDuplicateVoteEvidence(a, b, vpBlockTime(h), e.vals)
}

// genuine duplicate-vote evidence whose two votes name the same block hash with different part-set
// headers (an equivocation all the same: the block ids differ)
func (e *vpEnv) dveSameHash(who int, h int64) *types.DuplicateVoteEvidence {
	idx, _ := e.vals.GetByAddress(e.keys[who].PubKey().Address())
	mk := func(pshTag byte) *types.Vote {
		bh, ph := make([]byte, 32), make([]byte, 32)
		bh[0], ph[0] = 0x33, pshTag
		v := &types.Vote{Type: tmproto.PrecommitType, Height: h, Round: 0, Timestamp: vpBlockTime(h), ValidatorAddress: e.keys[who].PubKey().Address(), ValidatorIndex: idx,
			BlockID: types.BlockID{Hash: bh, PartSetHeader: types.PartSetHeader{Total: 1, Hash: ph}}}
		sig, err := e.keys[who].Sign(types.VoteSignBytes(vpChain, v.ToProto()))
		if err != nil {
			panic(err)
		}
		v.Signature = sig
		return v
	}
	return types.NewDuplicateVoteEvidence(mk(0x91), mk(0x12), vpBlockTime(h), e.vals)
}

// genuine light-client-attack evidence (equivocation at height h: a second, correctly derived header
// with another data hash, committed by the same validators in the same round)
func (e *vpEnv) lca(h int64) *types.LightClientAttackEvidence {
	trusted := e.bs.header(h)
	conf := *trusted
	conf.DataHash = tmhash.Sum([]byte("other data"))
	commit := vpCommitFor(e.keys, e.vals, &conf, 0)
	ev := &types.LightClientAttackEvidence{
		ConflictingBlock: &types.LightBlock{SignedHeader: &types.SignedHeader{Header: &conf, Commit: commit}, ValidatorSet: e.vals},
		CommonHeight:     h,
		TotalVotingPower: e.vals.TotalVotingPower(),
		Timestamp:        vpBlockTime(h),
	}
	ev.ByzantineValidators = ev.GetByzantineValidators(e.vals, &types.SignedHeader{Header: trusted, Commit: e.bs.LoadBlockCommit(h)})
	return ev
}

// ---------------------------------------------------------------- C11-H1: duplicate-vote verification vs reference

func vpC11DuplicateVote() {
	height := int64(10)
	maxAgeBlocks := int64(vp.Range("max-age-blocks", 2, 4))
	maxAge := []time.Duration{2 * time.Minute, 4 * time.Minute}[vp.Choice("max-age", 2)]
	e := vpNewEnv(height, maxAgeBlocks, maxAge)
	pool, err := NewPool(e.db, e.ss, e.bs)
	if err != nil {
		panic(err)
	}
	evH := int64(vp.Range("evidence-height", 5, 10))
	who := 0
	idx, val := e.vals.GetByAddress(e.keys[who].PubKey().Address())
	ts := vpBlockTime(evH)
	// the two votes, each field equal to the genuine one or perturbed
	hA, hB, rA, rB := evH, evH, int32(0), int32(0)
	tA, tB := tmproto.PrecommitType, tmproto.PrecommitType
	tagA, tagB := byte(0x11), byte(0x22)
	keyA, keyB := e.keys[who], e.keys[who]
	signerB := who
	power, total, evTime := val.VotingPower, e.vals.TotalVotingPower(), ts
	switch vp.Choice("perturb", 10) {
	case 1:
		hB = evH - 1
	case 2:
		rB = 1
	case 3:
		tB = tmproto.PrevoteType
	case 4:
		tagB = tagA // same block: not a duplicate vote
	case 5:
		keyB, signerB = e.keys[1], 1 // vote B by another validator
	case 6:
		power = vp.Int64("ev-power")
		vp.Assume(power != val.VotingPower)
	case 7:
		total = vp.Int64("ev-total")
		vp.Assume(total != e.vals.TotalVotingPower())
	case 8:
		evTime = ts.Add([]time.Duration{time.Second, time.Nanosecond, -time.Nanosecond, 999 * time.Millisecond}[vp.Choice("ev-time-skew", 4)])
	case 9:
		keyB = ed25519.GenPrivKeyFromSecret([]byte("stranger")) // B signed by a key that is not the validator's, under the validator's address
	}
	a := vpVote(keyA, idx, hA, rA, tA, tagA, ts)
	b := vpVote(keyB, idx, hB, rB, tB, tagB, ts)
	if signerB == who {
		b.ValidatorAddress = e.keys[who].PubKey().Address()
	}
	if vp.Choice("perturb-is", 1) == 0 && keyB.PubKey().Address().String() != e.keys[who].PubKey().Address().String() && signerB == who {
		b.ValidatorAddress = e.keys[who].PubKey().Address() // stranger signs in the validator's name
	}
	ev := &types.DuplicateVoteEvidence{VoteA: a, VoteB: b, TotalVotingPower: total, ValidatorPower: power, Timestamp: evTime}
	if bytes.Compare([]byte(a.BlockID.Key()), []byte(b.BlockID.Key())) > 0 {
		ev.VoteA, ev.VoteB = b, a
	}
	verr := pool.verify(ev)
	genuine := hA == hB && rA == rB && tA == tB && tagA != tagB && signerB == who && bytes.Equal(keyB.PubKey().Address(), e.keys[who].PubKey().Address()) &&
		power == val.VotingPower && total == e.vals.TotalVotingPower() && evTime.Equal(ts)
	ageBlocks := height - evH
	ageDur := vpBlockTime(height).Sub(ts)
	expired := ageBlocks > maxAgeBlocks && ageDur > maxAge
	if verr == nil {
		vp.Reach("accepted")
	} else {
		vp.Reach("rejected")
	}
	vp.Assert((verr == nil) == (genuine && !expired), "C11.verify.duplicate-vote-accepted-exactly-when-genuine-and-not-expired-by-both-limits")
}

func VP_C11_DuplicateVote() { vpC11DuplicateVote() }

// ---------------------------------------------------------------- C11-H3: pool lifecycle

func vpPendingCount(db dbm.DB) int {
	it, err := dbm.IteratePrefix(db, []byte{baseKeyPending})
	if err != nil {
		panic(err)
	}
	defer it.Close()
	n := 0
	for ; it.Valid(); it.Next() {
		n++
	}
	return n
}

func vpC11Lifecycle(k int, withLCA bool) {
	height := int64(10)
	e := vpNewEnv(height, 3, 3*time.Minute)
	pool, err := NewPool(e.db, e.ss, e.bs)
	if err != nil {
		panic(err)
	}
	items := []types.Evidence{e.dve(0, 8, 1), e.dveSameHash(1, 9)}
	if withLCA {
		items = append(items, e.lca(9))
	}
	for _, it := range items {
		if err := it.ValidateBasic(); err != nil {
			panic(err) // harness self-check: the evidence items are well formed
		}
	}
	committed := make([]bool, len(items))
	for step := 0; step < k; step++ {
		switch vp.Choice("op", 5) {
		case 0: // gossip / RPC
			i := vp.Choice("item", len(items))
			err := pool.AddEvidence(items[i])
			expired := height-items[i].Height() > 3 && vpBlockTime(height).Sub(items[i].Time()) > 3*time.Minute
			if !expired {
				vp.Assert(err == nil, "C11.pool.genuine-fresh-evidence-is-not-refused-with-an-error")
			} else if !committed[i] && !pool.isPending(items[i]) {
				vp.Assert(err != nil, "C11.pool.evidence-expired-by-both-limits-is-refused")
			}
			if committed[i] {
				vp.Assert(!pool.isPending(items[i]), "C11.pool.committed-evidence-never-pending-again")
			}
		case 1: // a proposed block carries evidence
			var list types.EvidenceList
			for i := range items {
				if vp.Bool("in-block") {
					list = append(list, items[i])
				}
			}
			if vp.Bool("repeat-first") && len(list) > 0 {
				list = append(list, list[0])
				vp.Assert(pool.CheckEvidence(list) != nil, "C11.pool.repeated-evidence-in-one-block-is-rejected")
			} else {
				anyBad := false
				for i := range items {
					for _, x := range list {
						if bytes.Equal(x.Hash(), items[i].Hash()) {
							_, isLCA := items[i].(*types.LightClientAttackEvidence)
							expired := height-items[i].Height() > 3 && vpBlockTime(height).Sub(items[i].Time()) > 3*time.Minute
							if committed[i] || (expired && (isLCA || !pool.isPending(items[i]))) {
								anyBad = true
							}
						}
					}
				}
				err := pool.CheckEvidence(list)
				vp.Assert((err != nil) == anyBad, "C11.pool.block-evidence-accepted-exactly-when-fresh-and-not-committed-before")
			}
		case 2: // a block is committed with a subset of the pending evidence
			var list types.EvidenceList
			for i := range items {
				if !committed[i] && vp.Bool("commit-item") {
					list = append(list, items[i])
					committed[i] = true
				}
			}
			height++
			pool.Update(e.advance(height), list)
			vp.Reach("block")
		case 3: // consensus reports conflicting votes it saw (the votes of one of the duplicate-vote items)
			d := items[vp.Choice("reported", 2)].(*types.DuplicateVoteEvidence)
			if vp.Bool("reported-in-the-other-order") {
				pool.ReportConflictingVotes(d.VoteB, d.VoteA)
			} else {
				pool.ReportConflictingVotes(d.VoteA, d.VoteB)
			}
		case 4: // restart on the same database
			pool, err = NewPool(e.db, e.ss, e.bs)
			if err != nil {
				panic(err)
			}
		}
		// ---- invariants
		n := vpPendingCount(e.db)
		vp.Assert(int(pool.Size()) == n, "C11.pool.size-equals-number-of-pending-items")
		pend, _ := pool.PendingEvidence(-1)
		vp.Assert(len(pend) == n, "C11.pool.pending-list-equals-pending-store")
		for i := range items {
			if committed[i] {
				vp.Assert(!pool.isPending(items[i]), "C11.pool.committed-evidence-never-pending-again")
				vp.Assert(pool.isCommitted(items[i]), "C11.pool.committed-marker-persists")
			}
		}
		for i, x := range pend {
			for j := 0; j < i; j++ {
				vp.Assert(!bytes.Equal(pend[j].Hash(), x.Hash()), "C11.pool.pending-evidence-unique")
			}
		}
	}
}

func VP_C11_Lifecycle_k3()     { vpC11Lifecycle(3, false) }
func VP_C11_Lifecycle_k2_lca() { vpC11Lifecycle(2, true) }
func VP_C11_Lifecycle_k3_lca() { vpC11Lifecycle(3, true) }
func VP_C11_Lifecycle_k4()     { vpC11Lifecycle(4, false) }
func VP_C11_Lifecycle_k4_lca() { vpC11Lifecycle(4, true) }

// C11 (expiry): evidence expires only when it is older than BOTH limits.  An item that is too old by
// blocks only (or by time only) is admitted, stays pending across a restart and across the next
// block, and is still acceptable in a proposed block.
func VP_C11_ExpiryNeedsBothLimits() {
	height := int64(10)
	byBlocks := vp.Bool("old-by-blocks-only")
	var e *vpEnv
	if byBlocks {
		e = vpNewEnv(height, 3, 60*time.Minute) // height 5 is 5 blocks back (> 3), 5 minutes old (< 60)
	} else {
		e = vpNewEnv(height, 20, 2*time.Minute) // 5 blocks back (< 20), 5 minutes old (> 2)
	}
	pool, err := NewPool(e.db, e.ss, e.bs)
	if err != nil {
		panic(err)
	}
	ev := e.dve(0, 5, 1)
	vp.Assert(pool.AddEvidence(ev) == nil, "C11.expiry.evidence-old-by-one-limit-only-is-admitted")
	vp.Assert(pool.isPending(ev), "C11.expiry.evidence-old-by-one-limit-only-is-pending")
	for step := 0; step < 2; step++ {
		switch vp.Choice("then", 2) {
		case 0: // restart on the same database
			pool, err = NewPool(e.db, e.ss, e.bs)
			if err != nil {
				panic(err)
			}
		case 1: // the next block is committed without it
			height++
			pool.Update(e.advance(height), nil)
		}
		stillOne := (byBlocks && vpBlockTime(height).Sub(ev.Time()) <= 60*time.Minute) || (!byBlocks && height-ev.Height() <= 20)
		if stillOne {
			vp.Assert(pool.isPending(ev), "C11.expiry.pending-evidence-survives-until-committed-or-expired-by-both-limits")
			vp.Assert(pool.CheckEvidence(types.EvidenceList{ev}) == nil, "C11.expiry.it-is-still-acceptable-in-a-block")
			vp.Assert(pool.Size() == 1, "C11.expiry.it-is-still-counted")
		}
	}
	vp.Reach("kept")
}

// C11-H1b: light-client-attack evidence is admitted only as the exact statement the node derives
// itself: the list of byzantine validators (who, with what power, in the canonical order), the total
// power and the time are each equal to the genuine value or perturbed in one respect.
func VP_C11_LightClientAttack() {
	e := vpNewEnv(10, 20, 40*time.Minute)
	pool, err := NewPool(e.db, e.ss, e.bs)
	if err != nil {
		panic(err)
	}
	ev := e.lca(9)
	if len(ev.ByzantineValidators) != 2 {
		panic("both validators signed both blocks")
	}
	v0, v1 := ev.ByzantineValidators[0].Copy(), ev.ByzantineValidators[1].Copy()
	perturb := vp.Choice("perturb", 10)
	switch perturb {
	case 0:
		ev.ByzantineValidators = []*types.Validator{v0, v1}
	case 1:
		ev.ByzantineValidators = []*types.Validator{v0, v0.Copy()} // one culprit twice, the other left out
	case 2:
		ev.ByzantineValidators = []*types.Validator{v1, v0} // not the canonical order
	case 3:
		ev.ByzantineValidators = []*types.Validator{v0}
	case 4:
		ev.ByzantineValidators = []*types.Validator{v0, types.NewValidator(ed25519.GenPrivKeyFromSecret([]byte("stranger")).PubKey(), 5)}
	case 5:
		p := vp.Int64("listed-power")
		vp.Assume(p != v1.VotingPower)
		v1.VotingPower = p
		ev.ByzantineValidators = []*types.Validator{v0, v1}
	case 6:
		t := vp.Int64("ev-total")
		vp.Assume(t != ev.TotalVotingPower)
		ev.TotalVotingPower = t
	case 7:
		ev.Timestamp = ev.Timestamp.Add([]time.Duration{time.Second, time.Nanosecond, -time.Nanosecond, 999 * time.Millisecond}[vp.Choice("ev-time-skew", 4)])
	case 8:
		ev.ByzantineValidators = []*types.Validator{v0, v1, v0.Copy()}
	case 9:
		ev.ByzantineValidators = []*types.Validator{v1, v1.Copy()}
	}
	verr := pool.verify(ev)
	if perturb == 0 {
		vp.Reach("accepted")
		vp.Assert(verr == nil, "C11.verify.genuine-light-client-attack-evidence-is-accepted")
	} else {
		vp.Reach("rejected")
		vp.Assert(verr != nil, "C11.verify.light-client-attack-evidence-perturbed-in-one-field-is-rejected")
	}
}
