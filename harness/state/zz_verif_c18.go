//go:build verif

package state

import (
	"bytes"

	dbm "github.com/tendermint/tm-db"

	vp "github.com/tendermint/tendermint/internal/verifvp"
	tmproto "github.com/tendermint/tendermint/proto/tendermint/types"
	"github.com/tendermint/tendermint/types"
)

// every database write is a possible crash point (batches are applied atomically)
type vpCrashDB struct{ dbm.DB }

func (d vpCrashDB) Set(k, v []byte) error     { vp.CrashNow("db.Set"); return d.DB.Set(k, v) }
func (d vpCrashDB) SetSync(k, v []byte) error { vp.CrashNow("db.SetSync"); return d.DB.SetSync(k, v) }
func (d vpCrashDB) Delete(k []byte) error     { vp.CrashNow("db.Delete"); return d.DB.Delete(k) }
func (d vpCrashDB) DeleteSync(k []byte) error {
	vp.CrashNow("db.DeleteSync")
	return d.DB.DeleteSync(k)
}
func (d vpCrashDB) NewBatch() dbm.Batch { return &vpCrashBatch{Batch: d.DB.NewBatch()} }

type vpCrashBatch struct{ dbm.Batch }

func (b *vpCrashBatch) Write() error     { vp.CrashNow("batch.Write"); return b.Batch.Write() }
func (b *vpCrashBatch) WriteSync() error { vp.CrashNow("batch.WriteSync"); return b.Batch.WriteSync() }

// C18 (state store half): after any prunes (and a crash at any write of a prune) the state store still
// produces the validator set and the consensus parameters of every height from the retain height up.
//
// A chain of `span` heights starting at `first` is saved as State.Save does it (full validator set /
// parameters only at the height they changed, and validator sets at checkpoint heights too); the
// validator set and the parameters each change at one arbitrary height or not at all; then up to two
// prunes with arbitrary retain heights run, the first possibly interrupted by a crash.
func vpC18StatePrune(first int64, span int, crashes int) {
	mem := dbm.NewMemDB()
	store := dbStore{vpCrashDB{mem}, StoreOptions{}}
	cur := types.NewValidatorSet([]*types.Validator{vpVal(0, 3), vpVal(1, 2)})
	params := *types.DefaultConsensusParams()
	valsChanged, paramsChanged := first, first
	changeVals := first + int64(vp.Range("validators-change-at", 0, span-1)) // == first: no change
	changeParams := first + int64(vp.Range("params-change-at", 0, span-1))
	wantVals := map[int64]*types.ValidatorSet{}
	wantParams := map[int64]tmproto.ConsensusParams{}
	last := first + int64(span) - 1
	for h := first; h <= last; h++ {
		if h == changeVals && h != first {
			nv := cur.Copy()
			if err := nv.UpdateWithChangeSet([]*types.Validator{vpVal(0, 5)}); err != nil {
				panic(err)
			}
			cur, valsChanged = nv, h
		}
		if h == changeParams && h != first {
			params.Block.MaxBytes += 1024
			paramsChanged = h
		}
		if err := store.saveValidatorsInfo(h, valsChanged, cur); err != nil {
			panic(err)
		}
		if err := store.saveConsensusParamsInfo(h, paramsChanged, params); err != nil {
			panic(err)
		}
		wantVals[h], wantParams[h] = cur.Copy(), params
		cur = cur.CopyIncrementProposerPriority(1)
	}
	audit := func(from int64) {
		for h := from; h <= last; h++ {
			got, err := store.LoadValidators(h)
			vp.Assert(err == nil, "C18.state.validator-set-of-every-retained-height-loads")
			if err == nil {
				vp.Assert(vpSameVals(got, wantVals[h]), "C18.state.loaded-validator-set-is-the-one-in-force")
			}
			p, err := store.LoadConsensusParams(h)
			vp.Assert(err == nil, "C18.state.consensus-parameters-of-every-retained-height-load")
			if err == nil {
				want := wantParams[h]
				vp.Assert(p.Equal(&want), "C18.state.loaded-parameters-are-the-ones-in-force")
			}
		}
	}
	base := first
	vp.CrashPoints(crashes)
	for k := 0; k < 2; k++ {
		retain := base + int64(vp.Range("retain-height-offset", 1, int(last-base)))
		crashed := false
		func() {
			defer func() {
				if rec := recover(); rec != nil {
					if !vp.Crashed() {
						panic(rec)
					}
					vp.Reboot()
					crashed = true
					vp.Reach("crashed?")
				}
			}()
			err := store.PruneStates(base, retain)
			vp.Assert(err == nil, "C18.state.prune-of-a-retained-range-succeeds")
		}()
		// whatever is on disk now serves everything from the retain height up; after an interrupted
		// prune the block store's base has not moved, and the same prune is simply run again
		audit(retain)
		if crashed {
			continue
		}
		vp.Reach("pruned")
		keptVals := first // the height whose full set the retain height points at
		if changeVals != first && changeVals <= retain {
			keptVals = changeVals
		}
		for h := base; h < retain; h++ {
			if h != keptVals && h%valSetCheckpointInterval != 0 {
				_, err := loadValidatorsInfo(store.db, h)
				vp.Assert(err != nil, "C18.state.pruned-heights-are-gone")
			}
		}
		base = retain
		if base >= last {
			break
		}
	}
	vp.CrashPoints(0)
	_ = bytes.Equal
}

func VP_C18_StatePrune_low()              { vpC18StatePrune(3, 5, 0) }
func VP_C18_StatePrune_low_crash()        { vpC18StatePrune(3, 5, 1) }
func VP_C18_StatePrune_checkpoint()       { vpC18StatePrune(99998, 5, 0) }
func VP_C18_StatePrune_checkpoint_crash() { vpC18StatePrune(99998, 5, 1) }
