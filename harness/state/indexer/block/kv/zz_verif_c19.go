//go:build verif

package kv

import (
	"context"
	"fmt"

	dbm "github.com/tendermint/tm-db"

	abci "github.com/tendermint/tendermint/abci/types"
	vp "github.com/tendermint/tendermint/internal/verifvp"
	"github.com/tendermint/tendermint/libs/pubsub/query"
	"github.com/tendermint/tendermint/types"
)

// C19 (block search): every committed block is indexed under its height and events, and a search
// returns exactly the heights of the blocks that satisfy the query.  Three blocks carry a begin-block
// attribute proposer in {A,B} and an end-block attribute foo drawn from values of different digit
// counts; the query combines a range over foo (possibly empty) with an equality over proposer and/or a
// bound on block.height; the reference answer is computed from the values.
func VP_C19_BlockSearch() {
	vp.Opt("realqueries", 1)
	idx := New(dbm.NewMemDB())
	foos := []int64{2, 9, 10, 100}
	props := []string{"A", "B"}
	type blk struct {
		foo  int64
		prop string
	}
	var blocks []blk
	for h := int64(1); h <= 3; h++ {
		b := blk{foos[vp.Choice("foo", len(foos))], props[vp.Choice("proposer", 2)]}
		blocks = append(blocks, b)
		err := idx.Index(types.EventDataNewBlockHeader{
			Header:           types.Header{Height: h},
			ResultBeginBlock: abci.ResponseBeginBlock{Events: []abci.Event{{Type: "begin_event", Attributes: []abci.EventAttribute{{Key: []byte("proposer"), Value: []byte(b.prop), Index: true}}}}},
			ResultEndBlock:   abci.ResponseEndBlock{Events: []abci.Event{{Type: "end_event", Attributes: []abci.EventAttribute{{Key: []byte("foo"), Value: []byte(fmt.Sprint(b.foo)), Index: true}}}}},
		})
		if err != nil {
			panic(err)
		}
	}
	bound := []int64{1, 9, 50, 1000}[vp.Choice("bound", 4)]
	var qs string
	match := func(h int64, b blk) bool { return false }
	switch vp.Choice("query-shape", 5) {
	case 0:
		qs = fmt.Sprintf("end_event.foo > %d AND begin_event.proposer = 'A'", bound)
		match = func(h int64, b blk) bool { return b.foo > bound && b.prop == "A" }
	case 1:
		qs = fmt.Sprintf("begin_event.proposer = 'B' AND end_event.foo <= %d", bound)
		match = func(h int64, b blk) bool { return b.foo <= bound && b.prop == "B" }
	case 2:
		qs = fmt.Sprintf("end_event.foo >= %d", bound)
		match = func(h int64, b blk) bool { return b.foo >= bound }
	case 3:
		qs = fmt.Sprintf("block.height > 1 AND end_event.foo < %d", bound)
		match = func(h int64, b blk) bool { return h > 1 && b.foo < bound }
	case 4:
		qs = "begin_event.proposer = 'A'"
		match = func(h int64, b blk) bool { return b.prop == "A" }
	}
	q, err := query.New(qs)
	if err != nil {
		panic(err)
	}
	got, err := idx.Search(context.Background(), q)
	vp.Assert(err == nil, "C19.blocksearch.well-formed-query-is-answered")
	want := 0
	for i, b := range blocks {
		h := int64(i + 1)
		n := 0
		for _, g := range got {
			if g == h {
				n++
			}
		}
		if match(h, b) {
			want++
			vp.Assert(n == 1, "C19.blocksearch.every-indexed-block-that-satisfies-the-query-is-returned-once")
		} else {
			vp.Assert(n == 0, "C19.blocksearch.no-block-that-does-not-satisfy-the-query-is-returned")
		}
	}
	vp.Assert(len(got) == want, "C19.blocksearch.nothing-else-is-returned")
	vp.Reach("searched")
}
