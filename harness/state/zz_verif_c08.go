//go:build verif

package state

import (
	"bytes"

	dbm "github.com/tendermint/tm-db"

	"github.com/tendermint/tendermint/crypto/ed25519"
	vp "github.com/tendermint/tendermint/internal/verifvp"
	"github.com/tendermint/tendermint/types"
)

func vpVal(i int, power int64) *types.Validator {
	pk := ed25519.GenPrivKeyFromSecret([]byte{'v', 'p', byte(i)}).PubKey()
	return &types.Validator{Address: pk.Address(), PubKey: pk, VotingPower: power}
}

func vpSameVals(a, b *types.ValidatorSet) bool {
	if len(a.Validators) != len(b.Validators) {
		return false
	}
	for i := range a.Validators {
		x, y := a.Validators[i], b.Validators[i]
		if !bytes.Equal(x.Address, y.Address) || x.VotingPower != y.VotingPower || x.ProposerPriority != y.ProposerPriority {
			return false
		}
	}
	return true
}

// C08-H3: historical lookup.  A chain segment of `span` heights starting at `first` is saved the way
// State.Save/updateState do it (validators of height h stored under h, full set only at the change
// height and at checkpoint heights, rotation by one step per height); then every height is looked up.
func vpC08History(n int, first int64, span int, maxPower int64, withChange bool) {
	db := dbm.NewMemDB()
	store := dbStore{db, StoreOptions{DiscardABCIResponses: false}}
	vals := make([]*types.Validator, n)
	for i := range vals {
		// concretised (one branch per value): a symbolic power would have to travel through the
		// protobuf varint codec and the priority arithmetic of every height, which costs ~100 s of
		// solver time per path for no additional coverage at this range
		p := int64(vp.Range("power", 1, int(maxPower)))
		vals[i] = vpVal(i, p)
	}
	cur := types.NewValidatorSet(vals)
	lastChanged := first // the set is stored in full at the first height
	changeAt := int64(-1)
	if withChange {
		changeAt = first + int64(vp.Range("change-at", 1, span-1))
	}
	want := map[int64]*types.ValidatorSet{}
	for h := first; h < first+int64(span); h++ {
		if h == changeAt {
			p := int64(vp.Range("new-power", 1, int(maxPower)))
			nv := cur.Copy()
			if err := nv.UpdateWithChangeSet([]*types.Validator{vpVal(0, p)}); err != nil {
				panic(err)
			}
			cur = nv
			lastChanged = h
		}
		if err := store.saveValidatorsInfo(h, lastChanged, cur); err != nil {
			panic(err)
		}
		want[h] = cur.Copy()
		cur = cur.CopyIncrementProposerPriority(1) // what updateState does for the next height
	}
	for h := first; h < first+int64(span); h++ {
		got, err := store.LoadValidators(h)
		vp.Assert(err == nil, "C08.history.retained-height-loads")
		vp.Assert(vpSameVals(got, want[h]), "C08.history.loaded-set-equals-set-in-force(members,powers,priorities)")
		vp.Assert(bytes.Equal(got.GetProposer().Address, want[h].GetProposer().Address), "C08.history.loaded-proposer-equals-proposer-in-force")
	}
	vp.Reach("looked-up")
	_, err := store.LoadValidators(first + int64(span))
	vp.Assert(err != nil, "C08.history.unsaved-height-is-an-error")
}

func VP_C08_History_n2_low()               { vpC08History(2, 5, 4, 4, false) }
func VP_C08_History_n2_low_change()        { vpC08History(2, 5, 4, 4, true) }
func VP_C08_History_n2_checkpoint()        { vpC08History(2, 99998, 5, 4, false) }
func VP_C08_History_n3_checkpoint()        { vpC08History(3, 99998, 5, 3, false) }
func VP_C08_History_n2_checkpoint_change() { vpC08History(2, 99998, 5, 3, true) }
