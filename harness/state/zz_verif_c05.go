//go:build verif

package state

import (
	dbm "github.com/tendermint/tm-db"

	abcicli "github.com/tendermint/tendermint/abci/client"
	abci "github.com/tendermint/tendermint/abci/types"
	"github.com/tendermint/tendermint/config"
	vp "github.com/tendermint/tendermint/internal/verifvp"
	"github.com/tendermint/tendermint/libs/log"
	"github.com/tendermint/tendermint/mempool"
	mempoolv0 "github.com/tendermint/tendermint/mempool/v0"
	mempoolv1 "github.com/tendermint/tendermint/mempool/v1"
	"github.com/tendermint/tendermint/proxy"
	"github.com/tendermint/tendermint/types"
)

// vpMemConn is the mempool's ABCI connection as a socket/grpc client behaves: requests are queued
// and answered later, in order; Flush returns once everything queued has been answered.
type vpMemConn struct {
	global     abcicli.Callback
	queue      []*abcicli.ReqRes
	committing bool // between the app's Commit and the end of the mempool update
	started    int
}

func (a *vpMemConn) SetResponseCallback(cb abcicli.Callback) { a.global = cb }
func (a *vpMemConn) Error() error                            { return nil }
func (a *vpMemConn) FlushAsync() *abcicli.ReqRes             { return abcicli.NewReqRes(abci.ToRequestFlush()) }
func (a *vpMemConn) FlushSync() error {
	for a.deliverOne() {
	}
	return nil
}
func (a *vpMemConn) CheckTxSync(req abci.RequestCheckTx) (*abci.ResponseCheckTx, error) {
	if req.Type == abci.CheckTxType_New {
		vp.Assert(!a.committing, "C05.quiesce.no-check-of-a-new-transaction-starts-between-commit-and-mempool-update")
		a.started++
	}
	return &abci.ResponseCheckTx{Code: abci.CodeTypeOK, GasWanted: 1}, nil
}
func (a *vpMemConn) CheckTxAsync(req abci.RequestCheckTx) *abcicli.ReqRes {
	if req.Type == abci.CheckTxType_New {
		vp.Assert(!a.committing, "C05.quiesce.no-check-of-a-new-transaction-starts-between-commit-and-mempool-update")
		a.started++
	}
	rr := abcicli.NewReqRes(abci.ToRequestCheckTx(req))
	a.queue = append(a.queue, rr)
	return rr
}
func (a *vpMemConn) deliverOne() bool {
	if len(a.queue) == 0 {
		return false
	}
	rr := a.queue[0]
	a.queue = a.queue[1:]
	res := abci.ToResponseCheckTx(abci.ResponseCheckTx{Code: abci.CodeTypeOK, GasWanted: 1})
	rr.Response = res
	rr.Done()
	if a.global != nil {
		a.global(rr.Request, res)
	}
	rr.InvokeCallback()
	return true
}

// vpFullClient lets the mempool connection be wrapped by the node's real proxy.NewAppConnMempool
// (whose FlushSync is the barrier BlockExecutor.Commit relies on); only the mempool methods exist.
type vpFullClient struct {
	abcicli.Client
	m *vpMemConn
}

func (c vpFullClient) SetResponseCallback(cb abcicli.Callback) { c.m.SetResponseCallback(cb) }
func (c vpFullClient) Error() error                            { return c.m.Error() }
func (c vpFullClient) FlushAsync() *abcicli.ReqRes             { return c.m.FlushAsync() }
func (c vpFullClient) FlushSync() error                        { return c.m.FlushSync() }
func (c vpFullClient) CheckTxSync(req abci.RequestCheckTx) (*abci.ResponseCheckTx, error) {
	return c.m.CheckTxSync(req)
}
func (c vpFullClient) CheckTxAsync(req abci.RequestCheckTx) *abcicli.ReqRes { return c.m.CheckTxAsync(req) }

// vpConsConn is the consensus connection; it looks at the mempool connection when Commit arrives.
type vpConsConn struct {
	mem     *vpMemConn
	commits int
}

func (c *vpConsConn) SetResponseCallback(abcicli.Callback) {}
func (c *vpConsConn) Error() error                         { return nil }
func (c *vpConsConn) InitChainSync(abci.RequestInitChain) (*abci.ResponseInitChain, error) {
	return &abci.ResponseInitChain{}, nil
}
func (c *vpConsConn) BeginBlockSync(abci.RequestBeginBlock) (*abci.ResponseBeginBlock, error) {
	return &abci.ResponseBeginBlock{}, nil
}
func (c *vpConsConn) DeliverTxAsync(req abci.RequestDeliverTx) *abcicli.ReqRes {
	return abcicli.NewReqRes(abci.ToRequestDeliverTx(req))
}
func (c *vpConsConn) EndBlockSync(abci.RequestEndBlock) (*abci.ResponseEndBlock, error) {
	return &abci.ResponseEndBlock{}, nil
}
func (c *vpConsConn) CommitSync() (*abci.ResponseCommit, error) {
	c.commits++
	inFlightNew := 0
	for _, rr := range c.mem.queue {
		if rr.Request.GetCheckTx().Type == abci.CheckTxType_New {
			inFlightNew++
		}
	}
	vp.Assert(inFlightNew == 0, "C05.quiesce.no-check-of-a-new-transaction-is-in-flight-when-commit-is-requested")
	c.mem.committing = true
	return &abci.ResponseCommit{Data: []byte("app2")}, nil
}

// vpUpdWatch is the real mempool; it only notes the moment its Update returns.
type vpUpdWatch struct {
	*mempoolv0.CListMempool
	conn *vpMemConn
}

func (m vpUpdWatch) Update(h int64, txs types.Txs, rs []*abci.ResponseDeliverTx, pre mempool.PreCheckFunc, post mempool.PostCheckFunc) error {
	err := m.CListMempool.Update(h, txs, rs, pre, post)
	m.conn.committing = false // updated, rechecks issued
	return err
}

// C05-H3: from the commit request until the mempool has been updated no CheckTx of a new
// transaction is started or in flight, whatever was submitted (and answered or not) before and
// whatever is submitted concurrently.
func vpC05Quiesce(nBefore int, concurrent bool) {
	st, _, _, _ := vpC06State()
	memConn := &vpMemConn{}
	cons := &vpConsConn{mem: memConn}
	mp := mempoolv0.NewCListMempool(config.DefaultMempoolConfig(), proxy.NewAppConnMempool(vpFullClient{m: memConn}), 1)
	be := NewBlockExecutor(NewStore(dbm.NewMemDB(), StoreOptions{}), log.NewNopLogger(), cons, vpUpdWatch{mp, memConn}, EmptyEvidencePool{})
	var submitted []types.Tx
	for i := 0; i < nBefore; i++ {
		tx := types.Tx(append([]byte{byte(0x10 + i)}, vp.Bytes("tx", 1+vp.Choice("tx-len", 2))...))
		if err := mp.CheckTx(tx, nil, mempool.TxInfo{}); err == nil {
			submitted = append(submitted, tx)
		}
		if vp.Bool("answered-before-the-commit") {
			memConn.deliverOne()
		}
	}
	var blockTxs []types.Tx
	if len(submitted) > 0 && vp.Bool("block-contains-the-first-transaction") {
		blockTxs = append(blockTxs, submitted[0])
	}
	block, _ := st.MakeBlock(2, blockTxs, types.NewCommit(1, 0, st.LastBlockID, nil), nil, st.Validators.GetProposer().Address)
	resps := make([]*abci.ResponseDeliverTx, len(blockTxs))
	for i := range resps {
		resps[i] = &abci.ResponseDeliverTx{Code: abci.CodeTypeOK}
	}
	done := make(chan struct{})
	if concurrent {
		vp.Opt("preempt", 3)
		go func() {
			_ = mp.CheckTx(types.Tx{0x77, 0x01}, nil, mempool.TxInfo{})
			close(done)
		}()
	}
	_, _, err := be.Commit(st, block, resps)
	vp.Assert(err == nil && cons.commits == 1, "C05.quiesce.commit-goes-through")
	if concurrent {
		<-done
	}
	vp.Reach("committed")
}

func VP_C05_Quiesce_0()            { vpC05Quiesce(0, true) }
func VP_C05_Quiesce_1()            { vpC05Quiesce(1, false) }
func VP_C05_Quiesce_2()            { vpC05Quiesce(2, false) }
func VP_C05_Quiesce_1_concurrent() { vpC05Quiesce(1, true) }
func VP_C05_Quiesce_2_concurrent() { vpC05Quiesce(2, true) }

// vpUpdWatchV1: the same for the v1 (priority) mempool.
type vpUpdWatchV1 struct {
	*mempoolv1.TxMempool
	conn *vpMemConn
}

func (m vpUpdWatchV1) Update(h int64, txs types.Txs, rs []*abci.ResponseDeliverTx, pre mempool.PreCheckFunc, post mempool.PostCheckFunc) error {
	err := m.TxMempool.Update(h, txs, rs, pre, post)
	m.conn.committing = false
	return err
}

// C05-H3 for the v1 mempool: one CheckTx of a new transaction races with a commit.
func VP_C05_Quiesce_v1_concurrent() {
	st, _, _, _ := vpC06State()
	memConn := &vpMemConn{}
	cons := &vpConsConn{mem: memConn}
	mp := mempoolv1.NewTxMempool(log.NewNopLogger(), config.DefaultMempoolConfig(), proxy.NewAppConnMempool(vpFullClient{m: memConn}), 1)
	be := NewBlockExecutor(NewStore(dbm.NewMemDB(), StoreOptions{}), log.NewNopLogger(), cons, vpUpdWatchV1{mp, memConn}, EmptyEvidencePool{})
	block, _ := st.MakeBlock(2, nil, types.NewCommit(1, 0, st.LastBlockID, nil), nil, st.Validators.GetProposer().Address)
	done := make(chan struct{})
	vp.Opt("preempt", 3)
	go func() {
		_ = mp.CheckTx(types.Tx{0x77, 0x01}, nil, mempool.TxInfo{})
		close(done)
	}()
	_, _, err := be.Commit(st, block, nil)
	vp.Assert(err == nil && cons.commits == 1, "C05.quiesce.commit-goes-through")
	<-done
	vp.Reach("committed")
}
