//go:build verif

package state

import (
	"bytes"
	abci "github.com/tendermint/tendermint/abci/types"
	tmstate "github.com/tendermint/tendermint/proto/tendermint/state"
	"time"

	"github.com/tendermint/tendermint/crypto"
	"github.com/tendermint/tendermint/crypto/ed25519"
	"github.com/tendermint/tendermint/crypto/tmhash"
	vp "github.com/tendermint/tendermint/internal/verifvp"
	tmproto "github.com/tendermint/tendermint/proto/tendermint/types"
	"github.com/tendermint/tendermint/types"
)

const vpC06Chain = "vp-chain"

func vpSign(priv crypto.PrivKey, msg []byte) []byte {
	if vp.Symbolic() {
		return vp.IdealSig(priv.PubKey().Bytes(), msg, true)
	}
	sig, err := priv.Sign(msg)
	if err != nil {
		panic(err)
	}
	return sig
}

// vpStateAfterBlock1 builds the state a node has after executing block 1 of a 3-validator chain.
func vpC06State() (State, []ed25519.PrivKey, types.BlockID, time.Time) {
	var keys []ed25519.PrivKey
	var gvals []types.GenesisValidator
	for i := 0; i < 3; i++ {
		k := ed25519.GenPrivKeyFromSecret([]byte{'c', '6', byte(i)})
		keys = append(keys, k)
		gvals = append(gvals, types.GenesisValidator{Address: k.PubKey().Address(), PubKey: k.PubKey(), Power: int64(10 + i), Name: "v"})
	}
	genTime := time.Date(2022, 1, 1, 0, 0, 0, 0, time.UTC)
	gen := &types.GenesisDoc{GenesisTime: genTime, ChainID: vpC06Chain, InitialHeight: 1, ConsensusParams: types.DefaultConsensusParams(), Validators: gvals, AppHash: []byte("app0")}
	st, err := MakeGenesisState(gen)
	if err != nil {
		panic(err)
	}
	// block 1 (time = genesis time) and the state after it
	b1, ps1 := st.MakeBlock(1, []types.Tx{{1}}, types.NewCommit(0, 0, types.BlockID{}, nil), nil, st.Validators.GetProposer().Address)
	id1 := types.BlockID{Hash: b1.Hash(), PartSetHeader: ps1.Header()}
	st.LastBlockHeight = 1
	st.LastBlockID = id1
	st.LastBlockTime = b1.Time
	st.LastValidators = st.Validators.Copy()
	st.Validators = st.NextValidators.Copy()
	st.NextValidators = st.NextValidators.CopyIncrementProposerPriority(1)
	st.LastResultsHash = tmhash.Sum([]byte("results1"))
	st.AppHash = []byte("app1")
	return st, keys, id1, b1.Time
}

// commit for block 1 with one symbolic timestamp (whole seconds) per validator
func vpC06Commit(st State, keys []ed25519.PrivKey, id1 types.BlockID, base time.Time) (*types.Commit, []int64) {
	sigs := make([]types.CommitSig, len(st.LastValidators.Validators))
	offs := make([]int64, len(sigs))
	for i, v := range st.LastValidators.Validators {
		var key ed25519.PrivKey
		for _, k := range keys {
			if string(k.PubKey().Address()) == string(v.Address) {
				key = k
			}
		}
		off := vp.Int64("precommit-time-offset")
		vp.Assume(vp.And(off >= -2, off <= 5))
		offs[i] = off
		ts := time.Unix(base.Unix()+off, 0).UTC()
		vote := &types.Vote{Type: tmproto.PrecommitType, Height: 1, Round: 0, BlockID: id1, Timestamp: ts, ValidatorAddress: v.Address, ValidatorIndex: int32(i)}
		sigs[i] = types.CommitSig{BlockIDFlag: types.BlockIDFlagCommit, ValidatorAddress: v.Address, Timestamp: ts, Signature: vpSign(key, types.VoteSignBytes(vpC06Chain, vote.ToProto()))}
	}
	return types.NewCommit(1, 0, id1, sigs), offs
}

// reference weighted median of the offsets (independent of the implementation: by counting)
func vpRefMedian(offs []int64, powers []int64) int64 {
	var total int64
	for _, p := range powers {
		total += p
	}
	// the smallest offset t such that the power of votes with offset <= t reaches total/2 (implementation: median := total/2; first time with cumulative weight >= median ... )
	best := int64(1 << 40)
	for _, t := range offs {
		var below int64 // power strictly before t in sorted order is at most the power with offset < t
		for j := range offs {
			if offs[j] < t {
				below += powers[j]
			}
		}
		var upto int64
		for j := range offs {
			if offs[j] <= t {
				upto += powers[j]
			}
		}
		if below <= total/2 && total/2 <= upto && t < best {
			best = t
		}
	}
	return best
}

// C06-H1/H2: the block a correct proposer builds validates; every single-field deviation is rejected.
func vpC06Validate() {
	st, keys, id1, t1 := vpC06State()
	commit, offs := vpC06Commit(st, keys, id1, t1)
	proposer := st.Validators.GetProposer().Address
	// a validator-set change may be in flight: the next set then lacks this height's proposer and has a newcomer
	changing := vp.Bool("validator-set-change-in-flight")
	joiner := types.NewValidator(ed25519.GenPrivKeyFromSecret([]byte("c6-joiner")).PubKey(), 10)
	if changing {
		var next []*types.Validator
		for _, v := range st.NextValidators.Validators {
			if !bytes.Equal(v.Address, proposer) {
				next = append(next, types.NewValidator(v.PubKey, v.VotingPower))
			}
		}
		st.NextValidators = types.NewValidatorSet(append(next, joiner))
		vp.Reach("set-changing?")
	}
	block, _ := st.MakeBlock(2, []types.Tx{{2}, {3, 4}}, commit, nil, proposer)
	genuine := true
	switch vp.Choice("perturb", 17) {
	case 16:
		// proposed by someone who is in the next set only
		block.ProposerAddress = joiner.Address
		genuine = false
	case 0:
	case 1:
		block.Version.App++
		genuine = false
	case 2:
		block.Version.Block++
		genuine = false
	case 3:
		block.ChainID = "other"
		genuine = false
	case 4:
		block.Height = 3
		genuine = false
	case 5:
		block.LastBlockID = types.BlockID{Hash: tmhash.Sum([]byte("x")), PartSetHeader: id1.PartSetHeader}
		genuine = false
	case 6:
		block.AppHash = []byte("app-other")
		genuine = false
	case 7:
		block.ConsensusHash = tmhash.Sum([]byte("other params"))
		genuine = false
	case 8:
		block.LastResultsHash = tmhash.Sum([]byte("other results"))
		genuine = false
	case 9:
		block.ValidatorsHash = tmhash.Sum([]byte("other vals"))
		genuine = false
	case 10:
		block.NextValidatorsHash = tmhash.Sum([]byte("other next vals"))
		genuine = false
	case 11:
		block.ProposerAddress = tmhash.SumTruncated([]byte("stranger"))
		genuine = false
	case 12:
		block.DataHash = tmhash.Sum([]byte("other data")) // content hash no longer matches
		genuine = false
	case 13:
		// content changed under the same data hash (as a peer would send it: through the wire format)
		pb, err := block.ToProto()
		if err != nil {
			panic(err)
		}
		pb.Data.Txs = append(pb.Data.Txs, []byte{9})
		block, err = types.BlockFromProto(pb)
		if err == nil {
			panic("a block whose data does not hash to its data hash must not decode")
		}
		vp.Reach("perturbed")
		return
	case 14:
		dt := vp.Int64("time-shift")
		vp.Assume(vp.And(dt >= -3, dt <= 3, dt != 0))
		block.Time = block.Time.Add(time.Duration(dt) * time.Second)
		genuine = false
	case 15:
		// a commit lacking two of three signatures: not a two-thirds commit
		block.LastCommit.Signatures[0] = types.NewCommitSigAbsent()
		block.LastCommit.Signatures[1] = types.NewCommitSigAbsent()
		block.LastCommitHash = block.LastCommit.Hash()
		genuine = false
	}
	err := validateBlock(st, block)
	// time rule: the (genuine) block time is the weighted median of the commit; it must also be later than block 1's time
	powers := make([]int64, len(st.LastValidators.Validators))
	for i, v := range st.LastValidators.Validators {
		powers[i] = v.VotingPower
	}
	med := vpRefMedian(offs, powers)
	if genuine {
		vp.Assert(block.Time.Unix()-t1.Unix() == med, "C06.proposer-block-time-is-the-weighted-median-of-the-last-commit")
		if med > 0 {
			vp.Reach("genuine-accepted")
			vp.Assert(err == nil, "C06.validate.block-built-by-a-correct-proposer-is-accepted")
		} else {
			vp.Reach("median-not-after-previous-block")
			vp.Assert(err != nil, "C06.validate.block-time-must-be-later-than-the-previous-block")
		}
	} else {
		vp.Reach("perturbed")
		vp.Assert(err != nil, "C06.validate.any-single-field-deviation-is-rejected")
	}
}

func VP_C06_Validate() { vpC06Validate() }

// the first block: time equals the genesis time, no last-commit signatures
func VP_C06_ValidateInitial() {
	var gvals []types.GenesisValidator
	k := ed25519.GenPrivKeyFromSecret([]byte("c6-init"))
	gvals = append(gvals, types.GenesisValidator{Address: k.PubKey().Address(), PubKey: k.PubKey(), Power: 10, Name: "v"})
	genTime := time.Date(2022, 1, 1, 0, 0, 0, 0, time.UTC)
	ih := int64(vp.Range("initial-height", 1, 3))
	gen := &types.GenesisDoc{GenesisTime: genTime, ChainID: vpC06Chain, InitialHeight: ih, ConsensusParams: types.DefaultConsensusParams(), Validators: gvals}
	st, err := MakeGenesisState(gen)
	if err != nil {
		panic(err)
	}
	block, _ := st.MakeBlock(ih, nil, types.NewCommit(0, 0, types.BlockID{}, nil), nil, st.Validators.GetProposer().Address)
	genuine := true
	switch vp.Choice("perturb", 4) {
	case 1:
		dt := vp.Int64("time-shift")
		vp.Assume(vp.And(dt >= -3, dt <= 3, dt != 0))
		block.Time = block.Time.Add(time.Duration(dt) * time.Second)
		genuine = false
	case 2:
		block.Height = ih + 1
		genuine = false
	case 3:
		block.LastCommit = types.NewCommit(0, 0, types.BlockID{}, []types.CommitSig{types.NewCommitSigAbsent()})
		block.LastCommitHash = block.LastCommit.Hash()
		genuine = false
	}
	verr := validateBlock(st, block)
	vp.Reach("checked")
	vp.Assert((verr == nil) == genuine, "C06.validate.initial-block-accepted-exactly-when-genuine")
}

// ---------------------------------------------------------------- C06-H2: the transition is a function, and its result validates

func vpSignCommit(st State, keys []ed25519.PrivKey, h int64, id types.BlockID, vals *types.ValidatorSet, t time.Time) *types.Commit {
	sigs := make([]types.CommitSig, len(vals.Validators))
	for i, v := range vals.Validators {
		var key ed25519.PrivKey
		for _, k := range keys {
			if string(k.PubKey().Address()) == string(v.Address) {
				key = k
			}
		}
		vote := &types.Vote{Type: tmproto.PrecommitType, Height: h, Round: 0, BlockID: id, Timestamp: t, ValidatorAddress: v.Address, ValidatorIndex: int32(i)}
		sigs[i] = types.CommitSig{BlockIDFlag: types.BlockIDFlagCommit, ValidatorAddress: v.Address, Timestamp: t, Signature: vpSign(key, types.VoteSignBytes(vpC06Chain, vote.ToProto()))}
	}
	return types.NewCommit(h, 0, id, sigs)
}

// Blocks 2, 3 and 4 are built by correct proposers and applied with the real updateState; the
// application answers block 2 with arbitrary validator and parameter updates.  Every block validates
// against the state it was built from, and computing a transition twice (under any map iteration
// orders) gives byte-identical states.
func VP_C06_Transition() {
	vp.Opt("maporder", 1)
	st, keys, id1, t1 := vpC06State()
	joiner := ed25519.GenPrivKeyFromSecret([]byte("c6-transition-joiner"))
	keys = append(keys, joiner)
	var updates []*types.Validator
	switch vp.Choice("validator-update", 5) {
	case 1: // a power change
		updates = append(updates, types.NewValidator(keys[0].PubKey(), int64(vp.Range("new-power", 1, 3))*7))
	case 2: // a removal
		updates = append(updates, types.NewValidator(keys[1].PubKey(), 0))
	case 3: // a newcomer
		updates = append(updates, types.NewValidator(joiner.PubKey(), 4))
	case 4: // all at once, in either order
		updates = append(updates, types.NewValidator(keys[1].PubKey(), 0), types.NewValidator(joiner.PubKey(), 4))
		if vp.Bool("reversed") {
			updates[0], updates[1] = updates[1], updates[0]
		}
	}
	resp := &tmstate.ABCIResponses{BeginBlock: &abci.ResponseBeginBlock{}, EndBlock: &abci.ResponseEndBlock{},
		DeliverTxs: []*abci.ResponseDeliverTx{{Code: 0, Data: []byte{1}}, {Code: uint32(vp.Range("tx-code", 0, 1)), GasUsed: 5}}}
	wantBytes, wantGas := st.ConsensusParams.Block.MaxBytes, st.ConsensusParams.Block.MaxGas
	paramUpdate := vp.Bool("parameter-update")
	if paramUpdate {
		wantBytes = int64(vp.Range("max-bytes-kb", 1, 3)) * 1024 * 1024
		wantGas = []int64{-1, 0, 7}[vp.Choice("max-gas", 3)] // every valid kind of value: unlimited, zero, a limit
		resp.EndBlock.ConsensusParamUpdates = &abci.ConsensusParams{Block: &abci.BlockParams{MaxBytes: wantBytes, MaxGas: wantGas}}
	}
	cur := st
	prevID, prevTime := id1, t1
	for h := int64(2); h <= 4; h++ {
		commit := vpSignCommit(cur, keys, h-1, prevID, cur.LastValidators, prevTime.Add(time.Second))
		block, parts := cur.MakeBlock(h, []types.Tx{{byte(h)}, {byte(h), 1}}, commit, nil, cur.Validators.GetProposer().Address)
		vp.Assert(validateBlock(cur, block) == nil, "C06.transition.block-built-by-a-correct-proposer-validates-against-the-state-it-extends")
		id := types.BlockID{Hash: block.Hash(), PartSetHeader: parts.Header()}
		r := &tmstate.ABCIResponses{BeginBlock: &abci.ResponseBeginBlock{}, EndBlock: &abci.ResponseEndBlock{}, DeliverTxs: []*abci.ResponseDeliverTx{{}, {}}}
		var ups []*types.Validator
		if h == 2 {
			r, ups = resp, updates
		}
		copyUps := func() []*types.Validator {
			out := make([]*types.Validator, len(ups))
			for i, u := range ups {
				out[i] = u.Copy()
			}
			return out
		}
		n1, err1 := updateState(cur.Copy(), id, &block.Header, r, copyUps())
		// another node's application reports the same deterministic results (code, data, gas) but other
		// log text, info, codespace and events
		r2 := &tmstate.ABCIResponses{BeginBlock: r.BeginBlock, EndBlock: r.EndBlock}
		for k, d := range r.DeliverTxs {
			c := *d
			c.Log, c.Info, c.Codespace = "other node's log", "other info", []string{"sdk", "app"}[k%2]
			c.Events = []abci.Event{{Type: "local"}}
			r2.DeliverTxs = append(r2.DeliverTxs, &c)
		}
		n2, err2 := updateState(cur.Copy(), id, &block.Header, r2, copyUps())
		vp.Assert((err1 == nil) == (err2 == nil), "C06.transition.same-inputs-same-verdict")
		if err1 != nil {
			vp.Reach("update-refused?")
			return
		}
		n1.AppHash, n2.AppHash = []byte{byte(h)}, []byte{byte(h)}
		vp.Assert(bytes.Equal(n1.Bytes(), n2.Bytes()), "C06.transition.same-block-on-the-same-state-gives-byte-identical-next-states")
		vp.Assert(n1.LastBlockHeight == h && n1.LastBlockID.Equals(id) && vpSameSet(n1.Validators, cur.NextValidators) && vpSameSet(n1.LastValidators, cur.Validators), "C06.transition.next-state-takes-over-height-id-and-validator-sets")
		vp.Assert(n1.ConsensusParams.Block.MaxBytes == wantBytes && n1.ConsensusParams.Block.MaxGas == wantGas, "C06.transition.next-state-carries-exactly-the-block-parameters-the-application-set")
		if paramUpdate {
			vp.Assert(n1.LastHeightConsensusParamsChanged == 3, "C06.transition.parameter-change-is-recorded-for-the-height-it-takes-effect")
		}
		cur, prevID, prevTime = n1, id, block.Time
	}
	vp.Reach("three-blocks-applied")
}

func vpSameSet(a, b *types.ValidatorSet) bool {
	return bytes.Equal(a.Hash(), b.Hash())
}

// C06 / C01 (the last commit of a block is a valid two-thirds commit of the previous validator set):
// block 2 carries a commit for block 1 in which every validator of the previous set (powers 12, 11, 10)
// independently precommitted the block, precommitted nil, was absent, or has a slot with a signature
// that is not its own (on a for-block or a nil slot).  Full validation accepts the block exactly when
// every present signature is genuine and the for-block power alone exceeds two thirds.
func VP_C06_ValidateLastCommit() {
	st, keys, id1, t1 := vpC06State()
	n := len(st.LastValidators.Validators)
	sigs := make([]types.CommitSig, n)
	var total, forBlock int64
	allGenuine := true
	ts := time.Unix(t1.Unix()+1, 0).UTC()
	for i, v := range st.LastValidators.Validators {
		var key ed25519.PrivKey
		for _, k := range keys {
			if string(k.PubKey().Address()) == string(v.Address) {
				key = k
			}
		}
		total += v.VotingPower
		kind := vp.Choice("precommit-kind", 5)
		bid, flag := id1, types.BlockIDFlagCommit
		if kind == 1 || kind == 4 {
			bid, flag = types.BlockID{}, types.BlockIDFlagNil
		}
		vote := &types.Vote{Type: tmproto.PrecommitType, Height: 1, Round: 0, BlockID: bid, Timestamp: ts, ValidatorAddress: v.Address, ValidatorIndex: int32(i)}
		sig := vpSign(key, types.VoteSignBytes(vpC06Chain, vote.ToProto()))
		switch kind {
		case 0:
			forBlock += v.VotingPower
		case 2:
			sigs[i] = types.NewCommitSigAbsent()
			continue
		case 3, 4:
			sig = bytes.Repeat([]byte{0x5a}, 64)
			allGenuine = false
		}
		sigs[i] = types.CommitSig{BlockIDFlag: flag, ValidatorAddress: v.Address, Timestamp: ts, Signature: sig}
	}
	commit := types.NewCommit(1, 0, id1, sigs)
	block, _ := st.MakeBlock(2, []types.Tx{{2}}, commit, nil, st.Validators.GetProposer().Address)
	err := validateBlock(st, block)
	if allGenuine && forBlock*3 > total*2 {
		vp.Reach("accepted")
		vp.Assert(err == nil, "C06.validate.block-with-a-genuine-two-thirds-last-commit-is-accepted")
	} else if !allGenuine {
		vp.Reach("forged-slot")
		vp.Assert(err != nil, "C06.validate.last-commit-with-a-signature-that-does-not-verify-is-rejected(any-position)")
	} else {
		vp.Reach("short")
		vp.Assert(err != nil, "C06.validate.last-commit-needs-more-than-two-thirds-for-the-block(nil-precommits-do-not-count)")
	}
}
