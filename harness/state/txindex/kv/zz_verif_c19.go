//go:build verif

package kv

import (
	"context"
	"errors"
	"fmt"

	dbm "github.com/tendermint/tm-db"

	abci "github.com/tendermint/tendermint/abci/types"
	vp "github.com/tendermint/tendermint/internal/verifvp"
	"github.com/tendermint/tendermint/libs/log"
	"github.com/tendermint/tendermint/libs/pubsub/query"
	"github.com/tendermint/tendermint/state/txindex"
	"github.com/tendermint/tendermint/types"
)

// C19 (search half): every committed transaction is indexed under its height, position and events,
// and a search returns exactly the indexed transactions that satisfy the query.
//
// n transactions carry an attribute account.number with values of different digit counts; the query
// is a range / equality over that attribute and optionally tx.height, built from chosen bounds; the
// reference answer is computed from the values themselves.
func vpC19Search(n int) {
	vp.Opt("realqueries", 1)
	txi := NewTxIndex(dbm.NewMemDB())
	pool := []int64{1, 2, 9, 10, 15, 100}
	vals := make([]int64, n)
	heights := make([]int64, n)
	keys := make([]string, n)
	for i := 0; i < n; i++ {
		keys[i] = "number"
		if i == n-1 {
			// the last transaction may carry its value under a key of which "number" is a strict prefix
			keys[i] = []string{"number", "number_id"}[vp.Choice("attr-key", 2)]
		}
		vals[i] = pool[vp.Choice("value", len(pool))]
		heights[i] = int64(1 + i/2)
		tx := types.Tx{byte(0xA0 + i), byte(vals[i])}
		res := &abci.TxResult{Height: heights[i], Index: uint32(i % 2), Tx: tx, Result: abci.ResponseDeliverTx{
			Events: []abci.Event{{Type: "account", Attributes: []abci.EventAttribute{{Key: []byte(keys[i]), Value: []byte(fmt.Sprint(vals[i])), Index: true}}}},
		}}
		if err := txi.Index(res); err != nil {
			panic(err)
		}
	}
	bounds := []int64{2, 10, 15, 50}
	lo, hi := bounds[vp.Choice("lower", len(bounds))], bounds[vp.Choice("upper", len(bounds))]
	var qs string
	match := func(v, h int64) bool { return false }
	switch vp.Choice("query-shape", 6) {
	case 5:
		qs = "account.number EXISTS"
		match = func(v, h int64) bool { return true }
	case 0:
		qs = fmt.Sprintf("account.number >= %d AND account.number <= %d", lo, hi)
		match = func(v, h int64) bool { return v >= lo && v <= hi }
	case 1:
		qs = fmt.Sprintf("account.number <= %d", hi)
		match = func(v, h int64) bool { return v <= hi }
	case 2:
		qs = fmt.Sprintf("account.number > %d AND account.number < %d", lo, hi)
		match = func(v, h int64) bool { return v > lo && v < hi }
	case 3:
		qs = fmt.Sprintf("account.number = %d", lo)
		match = func(v, h int64) bool { return v == lo }
	case 4:
		qs = fmt.Sprintf("tx.height = 1 AND account.number <= %d", hi)
		match = func(v, h int64) bool { return h == 1 && v <= hi }
	}
	q, err := query.New(qs)
	if err != nil {
		panic(err)
	}
	got, err := txi.Search(context.Background(), q)
	vp.Assert(err == nil, "C19.search.well-formed-query-is-answered")
	want := 0
	for i := range vals {
		if keys[i] == "number" && match(vals[i], heights[i]) {
			want++
			found := 0
			for _, r := range got {
				if r.Height == heights[i] && r.Index == uint32(i%2) {
					found++
				}
			}
			vp.Assert(found == 1, "C19.search.every-indexed-transaction-that-satisfies-the-query-is-returned-once")
		}
	}
	vp.Assert(len(got) == want, "C19.search.nothing-else-is-returned")
	vp.Reach("searched")
}

func VP_C19_Search_n3() { vpC19Search(3) }
func VP_C19_Search_n4() { vpC19Search(4) }

// ---------------------------------------------------------------- C19: the indexer service

type vpBlockIndexer struct {
	failAt map[int64]bool
	seen   []int64
}

func (b *vpBlockIndexer) Has(h int64) (bool, error) { return false, nil }
func (b *vpBlockIndexer) Index(e types.EventDataNewBlockHeader) error {
	b.seen = append(b.seen, e.Header.Height)
	if b.failAt[e.Header.Height] {
		return errors.New("block events rejected")
	}
	return nil
}
func (b *vpBlockIndexer) Search(ctx context.Context, q *query.Query) ([]int64, error) {
	return nil, nil
}

// Every committed transaction is indexed under its height and position, also when indexing the
// block's own events fails for some block (the service is configured to carry on, as the node does).
func VP_C19_IndexerService() {
	bus := types.NewEventBus()
	if err := bus.Start(); err != nil {
		panic(err)
	}
	txi := NewTxIndex(dbm.NewMemDB())
	bi := &vpBlockIndexer{failAt: map[int64]bool{}}
	svc := txindex.NewIndexerService(txi, bi, bus, false)
	svc.SetLogger(log.NewNopLogger())
	if err := svc.Start(); err != nil {
		panic(err)
	}
	type committed struct {
		h  int64
		i  uint32
		tx types.Tx
	}
	var all []committed
	for h := int64(1); h <= 2; h++ {
		n := int64(vp.Range("txs-in-block", 0, 2))
		bi.failAt[h] = vp.Bool("block-events-rejected")
		if err := bus.PublishEventNewBlockHeader(types.EventDataNewBlockHeader{Header: types.Header{Height: h}, NumTxs: n}); err != nil {
			panic(err)
		}
		for i := int64(0); i < n; i++ {
			tx := types.Tx{byte(h), byte(i), 0x74}
			if err := bus.PublishEventTx(types.EventDataTx{TxResult: abci.TxResult{Height: h, Index: uint32(i), Tx: tx, Result: abci.ResponseDeliverTx{}}}); err != nil {
				panic(err)
			}
			all = append(all, committed{h, uint32(i), tx})
		}
	}
	vp.Settle()
	for _, c := range all {
		r, err := txi.Get(c.tx.Hash())
		vp.Assert(err == nil && r != nil, "C19.index.every-committed-transaction-is-indexed")
		if r != nil {
			vp.Assert(r.Height == c.h && r.Index == c.i, "C19.index.under-its-height-and-position")
		}
	}
	vp.Assert(len(bi.seen) == 2 && bi.seen[0] == 1 && bi.seen[1] == 2, "C19.index.every-committed-block-is-handed-to-the-block-indexer-once-in-order")
	vp.Reach("indexed")
}
