//go:build verif

package v0

import (
	"bytes"

	abcicli "github.com/tendermint/tendermint/abci/client"
	abci "github.com/tendermint/tendermint/abci/types"
	"github.com/tendermint/tendermint/config"
	"github.com/tendermint/tendermint/libs/clist"
	vp "github.com/tendermint/tendermint/internal/verifvp"
	"github.com/tendermint/tendermint/mempool"
	"github.com/tendermint/tendermint/types"
)

// vpApp is a mempool connection whose answers the harness decides. In async mode requests are
// queued and answered later in order (socket/grpc clients); in sync mode at once (local client).
type vpApp struct {
	async   bool
	global  abcicli.Callback
	queue   []*abcicli.ReqRes
	verdict func(req abci.RequestCheckTx) *abci.ResponseCheckTx
	log     []string
}

func (a *vpApp) SetResponseCallback(cb abcicli.Callback) { a.global = cb }
func (a *vpApp) Error() error                             { return nil }
func (a *vpApp) FlushAsync() *abcicli.ReqRes              { return abcicli.NewReqRes(abci.ToRequestFlush()) }
func (a *vpApp) FlushSync() error                         { a.deliverAll(); return nil }
func (a *vpApp) CheckTxSync(req abci.RequestCheckTx) (*abci.ResponseCheckTx, error) {
	return a.verdict(req), nil
}
func (a *vpApp) CheckTxAsync(req abci.RequestCheckTx) *abcicli.ReqRes {
	rr := abcicli.NewReqRes(abci.ToRequestCheckTx(req))
	a.queue = append(a.queue, rr)
	if !a.async {
		// the local client runs the global callback inline and hands back a completed ReqRes
		a.queue = a.queue[:len(a.queue)-1]
		res := abci.ToResponseCheckTx(*a.verdict(req))
		rr.Response = res
		rr.Done()
		if a.global != nil {
			a.global(rr.Request, res)
		}
		rr.InvokeCallback()
	}
	return rr
}
func (a *vpApp) deliverOne() bool {
	if len(a.queue) == 0 {
		return false
	}
	rr := a.queue[0]
	a.queue = a.queue[1:]
	res := abci.ToResponseCheckTx(*a.verdict(*rr.Request.GetCheckTx()))
	rr.Response = res
	rr.Done()
	if a.global != nil {
		a.global(rr.Request, res)
	}
	rr.InvokeCallback()
	return true
}
func (a *vpApp) deliverAll() {
	for a.deliverOne() {
	}
}

var vpTxs = []types.Tx{{0xA1}, {0xB1, 0xB2}, {0xC1, 0xC2, 0xC3}}

func vpPoolTxs(mem *CListMempool) []types.Tx {
	var out []types.Tx
	for e := mem.txs.Front(); e != nil; e = e.Next() {
		out = append(out, e.Value.(*mempoolTx).tx)
	}
	return out
}

func vpIndexOf(tx types.Tx) int {
	for i, t := range vpTxs {
		if bytes.Equal(t, tx) {
			return i
		}
	}
	return -1
}

// vpInvariant: unique, map consistent with list, bounded, byte count exact.
func vpInvariant(mem *CListMempool, cfg *config.MempoolConfig) {
	pool := vpPoolTxs(mem)
	var total int64
	for i, tx := range pool {
		total += int64(len(tx))
		for j := 0; j < i; j++ {
			vp.Assert(!bytes.Equal(pool[j], tx), "C12.v0.each-transaction-at-most-once")
		}
		e, ok := mem.txsMap.Load(tx.Key())
		vp.Assert(ok && bytes.Equal(e.(*clist.CElement).Value.(*mempoolTx).tx, tx), "C12.v0.key-index-points-at-the-list-element")
	}
	vp.Assert(mem.Size() == len(pool), "C12.v0.size-is-list-length")
	vp.Assert(mem.SizeBytes() == total, "C12.v0.size-bytes-is-sum-of-lengths")
	vp.Assert(len(pool) <= cfg.Size, "C12.v0.count-within-configured-limit")
	vp.Assert(total <= cfg.MaxTxsBytes, "C12.v0.bytes-within-configured-limit")
}

func vpCheckReap(mem *CListMempool, gas []int64) {
	pool := vpPoolTxs(mem)
	max := vp.Range("reap-max", -1, 3)
	got := mem.ReapMaxTxs(max)
	want := len(pool)
	if max >= 0 && max < want {
		want = max
	}
	if max >= 0 && len(pool) > max {
		vp.Assert(len(got) == want, "C12.v0.reap-max-txs-respects-the-count-limit")
	} else {
		vp.Assert(len(got) == want, "C12.v0.reap-max-txs-returns-everything-when-unlimited")
	}
	for i := range got {
		if i < len(pool) {
			vp.Assert(bytes.Equal(got[i], pool[i]), "C12.v0.reap-max-txs-is-a-prefix-in-arrival-order")
		}
	}
	maxBytes := vp.Int64("reap-max-bytes")
	maxGas := vp.Int64("reap-max-gas")
	vp.Assume(maxBytes >= -1 && maxBytes <= 16 && maxGas >= -1 && maxGas <= 16)
	r := mem.ReapMaxBytesMaxGas(maxBytes, maxGas)
	vp.Assert(len(r) <= len(pool), "C12.v0.reap-bytes-gas-is-a-prefix")
	var sz, g int64
	for i := range r {
		vp.Assert(bytes.Equal(r[i], pool[i]), "C12.v0.reap-bytes-gas-is-a-prefix-in-arrival-order")
		sz += types.ComputeProtoSizeForTxs([]types.Tx{r[i]})
		g += gas[vpIndexOf(r[i])]
	}
	vp.Assert(maxBytes < 0 || sz <= maxBytes, "C12.v0.reap-respects-byte-limit")
	vp.Assert(maxGas < 0 || g <= maxGas, "C12.v0.reap-respects-gas-limit")
	if len(r) < len(pool) {
		nx := pool[len(r)]
		over := (maxBytes >= 0 && sz+types.ComputeProtoSizeForTxs([]types.Tx{nx}) > maxBytes) || (maxGas >= 0 && g+gas[vpIndexOf(nx)] > maxGas)
		vp.Assert(over, "C12.v0.reap-prefix-is-maximal")
	}
}

// C12 (v0): bounded histories on the real CListMempool.
// The application's opinion of each transaction is a symbolic code (0 = OK) that may change at
// every block; which transactions a block contains and their DeliverTx codes are symbolic too.
func vpC12V0(k int, ntx int, size, cacheSize int, async bool, recheck bool) {
	cfg := config.DefaultMempoolConfig()
	cfg.Size = size
	cfg.CacheSize = cacheSize
	cfg.MaxTxsBytes = vp.Int64("max-txs-bytes")
	vp.Assume(cfg.MaxTxsBytes >= 3 && cfg.MaxTxsBytes <= 6)
	cfg.MaxTxBytes = 3
	cfg.Recheck = recheck
	cfg.KeepInvalidTxsInCache = vp.Bool("keep-invalid")
	app := &vpApp{async: async}
	gas := []int64{1, 2, 3}
	codeNow := []uint32{0, 0, 0}
	newCode := func(name string) uint32 {
		c := vp.Uint32(name)
		vp.Assume(c <= 1)
		return c
	}
	app.verdict = func(req abci.RequestCheckTx) *abci.ResponseCheckTx {
		i := vpIndexOf(req.Tx)
		return &abci.ResponseCheckTx{Code: codeNow[i], GasWanted: gas[i]}
	}
	mem := NewCListMempool(cfg, app, 1)
	committedOK := []bool{false, false, false} // committed with code OK at some height
	height := int64(1)
	for step := 0; step < k; step++ {
		switch vp.Choice("op", 3) {
		case 0: // a peer (or the RPC) submits a transaction
			i := vp.Choice("tx", ntx)
			codeNow[i] = newCode("app-code")
			before := len(vpPoolTxs(mem))
			remembered := mem.cache.Has(vpTxs[i])
			err := mem.CheckTx(vpTxs[i], nil, mempool.TxInfo{SenderID: 1})
			if !async && err == nil && len(vpPoolTxs(mem)) > before {
				vp.Reach("admitted?")
			}
			if committedOK[i] && remembered {
				vp.Assert(err != nil && len(vpPoolTxs(mem)) == before, "C12.v0.committed-and-remembered-transaction-is-not-readmitted")
			}
		case 1: // the connection delivers a pending response
			app.deliverOne()
		case 2: // a block is committed: a symbolic subset of the three transactions, then recheck
			mem.Lock()
			app.deliverAll() // FlushAppConn
			var blk types.Txs
			var res []*abci.ResponseDeliverTx
			for i := 0; i < ntx; i++ {
				if vp.Bool("in-block") {
					blk = append(blk, vpTxs[i])
					code := newCode("deliver-code")
					res = append(res, &abci.ResponseDeliverTx{Code: code})
					if code == abci.CodeTypeOK {
						committedOK[i] = true
					}
				}
			}
			for i := 0; i < ntx; i++ {
				codeNow[i] = newCode("code-after-block")
			}
			height++
			if err := mem.Update(height, blk, res, nil, nil); err != nil {
				panic(err)
			}
			mem.Unlock()
			app.deliverAll() // recheck responses arrive
			vp.Reach("block")
			for _, tx := range vpPoolTxs(mem) {
				vp.Assert(vpIndexOfIn(blk, tx) < 0, "C12.v0.committed-transaction-is-gone")
				if recheck {
					vp.Assert(codeNow[vpIndexOf(tx)] == abci.CodeTypeOK, "C12.v0.after-recheck-only-still-valid-transactions-remain")
				}
			}
		}
		vpInvariant(mem, cfg)
	}
	app.deliverAll()
	vpInvariant(mem, cfg)
}

// reaping from a pool of n admitted transactions with symbolic limits
func vpC12V0Reap(n int) {
	cfg := config.DefaultMempoolConfig()
	cfg.Size, cfg.CacheSize, cfg.MaxTxsBytes, cfg.MaxTxBytes = 3, 3, 6, 3
	app := &vpApp{}
	gas := []int64{1, 2, 3}
	app.verdict = func(req abci.RequestCheckTx) *abci.ResponseCheckTx {
		return &abci.ResponseCheckTx{Code: 0, GasWanted: gas[vpIndexOf(req.Tx)]}
	}
	mem := NewCListMempool(cfg, app, 1)
	first := vp.Choice("first", 3)
	for j := 0; j < n; j++ {
		if err := mem.CheckTx(vpTxs[(first+j)%3], nil, mempool.TxInfo{SenderID: 1}); err != nil {
			panic(err)
		}
	}
	vp.Assert(mem.Size() == n, "C12.v0.accepted-transactions-are-admitted")
	vp.Reach("admitted")
	vpCheckReap(mem, gas)
}

func vpIndexOfIn(list types.Txs, tx types.Tx) int {
	for i, t := range list {
		if bytes.Equal(t, tx) {
			return i
		}
	}
	return -1
}

func VP_C12_V0_k3_sync()       { vpC12V0(3, 2, 2, 2, false, true) }
func VP_C12_V0_k3_smallcache() { vpC12V0(3, 2, 2, 1, false, true) }
func VP_C12_V0_k3_async()      { vpC12V0(3, 2, 2, 2, true, true) }
func VP_C12_V0_k3_async_size1() { vpC12V0(3, 2, 1, 2, true, true) }
func VP_C12_V0_k4_sync()       { vpC12V0(4, 2, 2, 2, false, true) }
func VP_C12_V0_k4_async()      { vpC12V0(4, 2, 1, 2, true, false) }
func VP_C12_V0_k4_smallcache() { vpC12V0(4, 2, 2, 1, false, false) }
func VP_C12_V0_k3_3tx()        { vpC12V0(3, 3, 2, 2, false, true) }
func VP_C12_V0_Reap_n2()       { vpC12V0Reap(2) }
func VP_C12_V0_Reap_n3()       { vpC12V0Reap(3) }

// reaping when transaction lengths sit on the boundaries of the length prefix of the block encoding
// (1-byte / 2-byte varint): the byte limit is about the encoded size of the reaped list, which the
// harness computes itself (tag + uvarint(len) + payload per transaction).
func vpEncodedTxSize(n int) int64 {
	v := 1
	for x := n; x >= 0x80; x >>= 7 {
		v++
	}
	return int64(1 + v + n)
}

func VP_C12_V0_ReapSizes() {
	cfg := config.DefaultMempoolConfig()
	cfg.Size, cfg.CacheSize, cfg.MaxTxsBytes, cfg.MaxTxBytes = 3, 3, 1 << 20, 1 << 16
	app := &vpApp{}
	app.verdict = func(req abci.RequestCheckTx) *abci.ResponseCheckTx {
		return &abci.ResponseCheckTx{Code: 0, GasWanted: 1}
	}
	mem := NewCListMempool(cfg, app, 1)
	lens := []int{1, 127, 128, 200, 255, 256, 16383, 16384}
	var sizes []int64
	for j := 0; j < 3; j++ {
		n := lens[vp.Choice("tx-length", len(lens))]
		tx := make([]byte, n)
		tx[0] = byte(j + 1)
		if err := mem.CheckTx(tx, nil, mempool.TxInfo{SenderID: 1}); err != nil {
			panic(err)
		}
		sizes = append(sizes, vpEncodedTxSize(n))
		vp.Assert(types.ComputeProtoSizeForTxs([]types.Tx{tx}) == vpEncodedTxSize(n), "C12.v0.encoded-size-of-a-transaction-is-tag-plus-length-prefix-plus-payload")
	}
	vp.Reach("admitted")
	maxBytes := vp.Int64("reap-max-bytes")
	vp.Assume(maxBytes >= -1 && maxBytes <= 1<<17)
	r := mem.ReapMaxBytesMaxGas(maxBytes, -1)
	var sz int64
	for i := range r {
		vp.Assert(len(r[i]) > 0 && int(r[i][0]) == i+1, "C12.v0.reap-bytes-gas-is-a-prefix-in-arrival-order")
		sz += sizes[i]
	}
	vp.Assert(maxBytes < 0 || sz <= maxBytes, "C12.v0.reap-respects-byte-limit(encoded-size,length-prefix-boundaries)")
	if len(r) < 3 {
		vp.Assert(maxBytes >= 0 && sz+sizes[len(r)] > maxBytes, "C12.v0.reap-prefix-is-maximal(encoded-size)")
	}
}
