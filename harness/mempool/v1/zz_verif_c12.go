//go:build verif

package v1

import (
	"bytes"
	"time"

	abcicli "github.com/tendermint/tendermint/abci/client"
	abci "github.com/tendermint/tendermint/abci/types"
	"github.com/tendermint/tendermint/config"
	vp "github.com/tendermint/tendermint/internal/verifvp"
	"github.com/tendermint/tendermint/libs/log"
	"github.com/tendermint/tendermint/mempool"
	"github.com/tendermint/tendermint/types"
)

type vpApp struct {
	verdict func(req abci.RequestCheckTx) *abci.ResponseCheckTx
}

func (a *vpApp) SetResponseCallback(cb abcicli.Callback) {}
func (a *vpApp) Error() error                            { return nil }
func (a *vpApp) FlushAsync() *abcicli.ReqRes             { return abcicli.NewReqRes(abci.ToRequestFlush()) }
func (a *vpApp) FlushSync() error                        { return nil }
func (a *vpApp) CheckTxSync(req abci.RequestCheckTx) (*abci.ResponseCheckTx, error) {
	return a.verdict(req), nil
}
func (a *vpApp) CheckTxAsync(req abci.RequestCheckTx) *abcicli.ReqRes {
	panic("v1 mempool uses CheckTxSync")
}

var vpTxs = []types.Tx{{0xA1}, {0xB1, 0xB2}, {0xC1, 0xC2, 0xC3}}

func vpIndexOf(tx types.Tx) int {
	for i, t := range vpTxs {
		if bytes.Equal(t, tx) {
			return i
		}
	}
	return -1
}

func vpPool(txmp *TxMempool) []*WrappedTx {
	var out []*WrappedTx
	for e := txmp.txs.Front(); e != nil; e = e.Next() {
		out = append(out, e.Value.(*WrappedTx))
	}
	return out
}

func vpInvariant(txmp *TxMempool, cfg *config.MempoolConfig) {
	pool := vpPool(txmp)
	var total int64
	for i, w := range pool {
		total += int64(len(w.tx))
		for j := 0; j < i; j++ {
			vp.Assert(!bytes.Equal(pool[j].tx, w.tx), "C12.v1.each-transaction-at-most-once")
		}
		e, ok := txmp.txByKey[w.tx.Key()]
		vp.Assert(ok && e.Value.(*WrappedTx) == w, "C12.v1.key-index-points-at-the-list-element")
	}
	vp.Assert(len(txmp.txByKey) == len(pool), "C12.v1.key-index-has-no-stale-entries")
	vp.Assert(txmp.SizeBytes() == total, "C12.v1.size-bytes-is-sum-of-lengths")
	vp.Assert(len(pool) <= cfg.Size, "C12.v1.count-within-configured-limit")
	vp.Assert(total <= cfg.MaxTxsBytes, "C12.v1.bytes-within-configured-limit")
}

// C12 (v1): bounded histories on the real priority mempool.
func vpC12V1(k int, ntx int, size, cacheSize int, recheck bool, reap bool) {
	cfg := config.DefaultMempoolConfig()
	cfg.Version = config.MempoolV1
	cfg.Size = size
	cfg.CacheSize = cacheSize
	cfg.MaxTxsBytes = vp.Int64("max-txs-bytes")
	vp.Assume(cfg.MaxTxsBytes >= 3 && cfg.MaxTxsBytes <= 6)
	cfg.MaxTxBytes = 3
	cfg.Recheck = recheck
	cfg.KeepInvalidTxsInCache = vp.Bool("keep-invalid")
	codeNow := []uint32{0, 0, 0}
	prio := []int64{0, 0, 0}
	newCode := func(name string) uint32 {
		c := vp.Uint32(name)
		vp.Assume(c <= 1)
		return c
	}
	app := &vpApp{}
	app.verdict = func(req abci.RequestCheckTx) *abci.ResponseCheckTx {
		i := vpIndexOf(req.Tx)
		return &abci.ResponseCheckTx{Code: codeNow[i], GasWanted: int64(i + 1), Priority: prio[i]}
	}
	txmp := NewTxMempool(log.NewNopLogger(), cfg, app, 1)
	committedOK := []bool{false, false, false}
	height := int64(1)
	for step := 0; step < k; step++ {
		switch vp.Choice("op", 2) {
		case 0:
			i := vp.Choice("tx", ntx)
			codeNow[i] = newCode("app-code")
			prio[i] = vp.Int64("priority")
			vp.Assume(prio[i] >= 0 && prio[i] <= 1)
			before := len(vpPool(txmp))
			remembered := txmp.cache.Has(vpTxs[i])
			err := txmp.CheckTx(vpTxs[i], nil, mempool.TxInfo{SenderID: 1})
			if err == nil && len(vpPool(txmp)) > before {
				vp.Reach("admitted")
			}
			if committedOK[i] && remembered {
				vp.Assert(err != nil && len(vpPool(txmp)) == before, "C12.v1.committed-and-remembered-transaction-is-not-readmitted")
			}
		case 1:
			txmp.Lock()
			var blk types.Txs
			var res []*abci.ResponseDeliverTx
			for i := 0; i < ntx; i++ {
				if vp.Bool("in-block") {
					blk = append(blk, vpTxs[i])
					code := newCode("deliver-code")
					res = append(res, &abci.ResponseDeliverTx{Code: code})
					if code == abci.CodeTypeOK {
						committedOK[i] = true
					}
				}
			}
			for i := 0; i < ntx; i++ {
				codeNow[i] = newCode("code-after-block")
			}
			height++
			if err := txmp.Update(height, blk, res, nil, nil); err != nil {
				panic(err)
			}
			txmp.Unlock()
			vp.Settle() // the recheck goroutines run now (they need the lock just released)
			vp.Reach("block")
			for _, w := range vpPool(txmp) {
				for _, b := range blk {
					vp.Assert(!bytes.Equal(b, w.tx), "C12.v1.committed-transaction-is-gone")
				}
				if recheck {
					vp.Assert(codeNow[vpIndexOf(w.tx)] == abci.CodeTypeOK, "C12.v1.after-recheck-only-still-valid-transactions-remain")
				}
			}
		}
		vpInvariant(txmp, cfg)
	}
	if !reap {
		return
	}
	// reaping: prefix of (priority desc, arrival) within the limits
	all := txmp.allEntriesSorted()
	for i := 1; i < len(all); i++ {
		a, b := all[i-1], all[i]
		vp.Assert(a.priority > b.priority || (a.priority == b.priority && !a.timestamp.After(b.timestamp)), "C12.v1.order-is-priority-then-arrival")
	}
	max := vp.Range("reap-max", -1, 2)
	got := txmp.ReapMaxTxs(max)
	want := len(all)
	if max >= 0 && max < want {
		want = max
	}
	vp.Assert(len(got) == want, "C12.v1.reap-max-txs-respects-the-count-limit")
	for i := range got {
		vp.Assert(bytes.Equal(got[i], all[i].tx), "C12.v1.reap-max-txs-is-a-prefix-of-the-order")
	}
	// gas-limited reap (transaction i wants gas i+1): the longest prefix of the order within a symbolic gas limit
	mg := vp.Int64("reap-max-gas")
	vp.Assume(mg >= -1)
	vp.Assume(mg <= 7)
	gotG := txmp.ReapMaxBytesMaxGas(-1, mg)
	var tot int64
	wantG := 0
	for _, e := range all {
		tot += e.gasWanted
		if mg >= 0 {
			if tot > mg {
				break
			}
		}
		wantG++
	}
	vp.Assert(len(gotG) == wantG, "C12.v1.reap-max-gas-is-the-longest-prefix-within-the-gas-limit")
	for i := range gotG {
		if i < len(all) {
			vp.Assert(bytes.Equal(gotG[i], all[i].tx), "C12.v1.reap-max-gas-is-a-prefix-of-the-order")
		}
	}
}

func VP_C12_V1_k3()            { vpC12V1(3, 2, 2, 2, true, false) }
func VP_C12_V1_k3_smallcache() { vpC12V1(3, 2, 2, 1, true, false) }
func VP_C12_V1_k4()            { vpC12V1(4, 2, 2, 2, true, false) }
func VP_C12_V1_k4_smallcache() { vpC12V1(4, 2, 2, 1, false, false) }
func VP_C12_V1_k2_reap()       { vpC12V1(2, 2, 2, 2, false, true) }
func VP_C12_V1_k3_reap()       { vpC12V1(3, 3, 3, 3, false, true) }

// vpGateApp: the application's CheckTx answer takes time: each call yields to the other submitters
// (a handshake on a channel) before it answers.
type vpGateApp struct {
	vpApp
	turn chan struct{}
}

func (a *vpGateApp) CheckTxSync(req abci.RequestCheckTx) (*abci.ResponseCheckTx, error) {
	a.turn <- struct{}{} // blocks until the harness lets this answer through
	return &abci.ResponseCheckTx{Code: abci.CodeTypeOK, GasWanted: 1}, nil
}

// C12 (concurrent submissions, v1): three submitters hand in A, B and A again while the application is
// slow; the harness releases the answers in an arbitrary order; the cache holds one transaction only.
// Whatever the interleaving, the pool never holds a transaction twice.
func VP_C12_V1_Concurrent() {
	cfg := config.DefaultMempoolConfig()
	cfg.Size, cfg.CacheSize = 4, 1
	app := &vpGateApp{turn: make(chan struct{})}
	txmp := NewTxMempool(log.NewNopLogger(), cfg, app, 1)
	done := make(chan int, 3)
	submit := func(i int, tx types.Tx, peer uint16) {
		go func() {
			_ = txmp.CheckTx(tx, nil, mempool.TxInfo{SenderID: peer})
			done <- i
		}()
	}
	order := vp.Choice("submission-order", 2)
	if order == 0 {
		submit(0, vpTxs[0], 1)
		submit(1, vpTxs[1], 2)
		submit(2, vpTxs[0], 3)
	} else {
		submit(0, vpTxs[0], 1)
		submit(2, vpTxs[0], 3)
		submit(1, vpTxs[1], 2)
	}
	vp.Settle() // every submitter is now waiting for the application (or was refused by the cache)
	for released := 0; released < 3; released++ {
		select {
		case <-app.turn:
			vp.Settle()
		default:
		}
	}
	vp.Settle()
	vpInvariant(txmp, cfg)
	vp.Reach("submitted")
}

// C12 (reaping order, v1): with more transactions than a small-slice sort handles specially, reaping
// returns them by priority (highest first) and, within one priority, in arrival order.
func VP_C12_V1_ReapOrder() {
	cfg := config.DefaultMempoolConfig()
	cfg.Size, cfg.CacheSize = 64, 64
	prios := []int64{5, 9, 5, 7, 9, 3, 7, 5, 3, 9, 7, 5, 9, 3, 7, 5}
	n := 13 + vp.Choice("extra-transactions", 4)
	app := &vpApp{}
	app.verdict = func(req abci.RequestCheckTx) *abci.ResponseCheckTx {
		return &abci.ResponseCheckTx{Code: abci.CodeTypeOK, GasWanted: 1, Priority: prios[int(req.Tx[0])]}
	}
	txmp := NewTxMempool(log.NewNopLogger(), cfg, app, 1)
	for i := 0; i < n; i++ {
		if err := txmp.CheckTx(types.Tx{byte(i), 0x72}, nil, mempool.TxInfo{}); err != nil {
			panic(err)
		}
		time.Sleep(time.Millisecond) // arrival times differ
	}
	check := func(got types.Txs, what string) {
		vp.Assert(len(got) == n, "C12.v1.reap-returns-every-transaction-when-unbounded")
		for k := 1; k < len(got); k++ {
			a, b := int(got[k-1][0]), int(got[k][0])
			vp.Assert(prios[a] > prios[b] || (prios[a] == prios[b] && a < b), "C12.v1.reap-order-is-priority-then-arrival")
		}
	}
	check(txmp.ReapMaxTxs(-1), "count")
	check(txmp.ReapMaxBytesMaxGas(-1, -1), "bytes-gas")
	vp.Reach("reaped")
}
