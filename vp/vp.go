// Package verifvp is the harness-side API of the symgo bounded symbolic executor.
//
// Under symgo every function below is intercepted by the engine (symbolic inputs, forks,
// assumptions, assertions).  Compiled natively (go test -overlay) the same functions read the
// concrete assignment the solver produced (file named by $VP_REPLAY), so that a counterexample is
// re-run against the real compiled code.  This package is injected by overlay as
// github.com/tendermint/tendermint/internal/verifvp; it is never written into the repository.
package verifvp

import (
	"encoding/json"
	"fmt"
	"math/big"
	"os"
	"strings"
	"sync"
	"time"
)

type replayFile struct {
	Model   map[string]string `json:"model"`
	Choices []int             `json:"choices"`
}

var (
	mu      sync.Mutex
	loaded  bool
	rf      replayFile
	counts  = map[string]int{}
	nchoice int
	// Failed is set to the assertion id when Assert fails during native replay.
	Failed string
	// Void is set when an assumption does not hold under the replayed assignment.
	Void bool
)

// AssertFailure is the panic value raised by a failing Assert in native replay.
type AssertFailure struct{ ID string }

// AssumeFailure is the panic value raised by a failing Assume in native replay.
type AssumeFailure struct{}

func load() {
	if loaded {
		return
	}
	loaded = true
	p := os.Getenv("VP_REPLAY")
	if p == "" {
		return
	}
	b, err := os.ReadFile(p)
	if err != nil {
		panic("verifvp: cannot read replay file: " + err.Error())
	}
	if err := json.Unmarshal(b, &rf); err != nil {
		panic("verifvp: bad replay file: " + err.Error())
	}
}

// Reset restarts consumption of the replay assignment (used by the replay test driver).
func Reset() {
	mu.Lock()
	defer mu.Unlock()
	counts = map[string]int{}
	nchoice = 0
	Failed = ""
	Void = false
}

func sanitize(name string) string {
	var sb strings.Builder
	for _, c := range name {
		if c >= 'a' && c <= 'z' || c >= 'A' && c <= 'Z' || c >= '0' && c <= '9' || c == '_' || c == '.' {
			sb.WriteRune(c)
		} else {
			sb.WriteByte('_')
		}
	}
	return sb.String()
}

func value(name string) *big.Int {
	mu.Lock()
	defer mu.Unlock()
	load()
	n := sanitize(name)
	k := counts[n]
	counts[n] = k + 1
	key := fmt.Sprintf("in_%s_%d", n, k)
	s, ok := rf.Model[key]
	if !ok {
		return new(big.Int)
	}
	v, ok := new(big.Int).SetString(s, 10)
	if !ok {
		panic("verifvp: bad value for " + key)
	}
	return v
}

// Symbolic reports whether the code runs under the symbolic engine.
func Symbolic() bool { return false }

func Bool(name string) bool     { return value(name).Sign() != 0 }
func Int64(name string) int64   { return int64(value(name).Uint64()) }
func Int(name string) int       { return int(int64(value(name).Uint64())) }
func Int32(name string) int32   { return int32(uint32(value(name).Uint64())) }
func Int16(name string) int16   { return int16(uint16(value(name).Uint64())) }
func Int8(name string) int8     { return int8(uint8(value(name).Uint64())) }
func Uint64(name string) uint64 { return value(name).Uint64() }
func Uint32(name string) uint32 { return uint32(value(name).Uint64()) }
func Uint16(name string) uint16 { return uint16(value(name).Uint64()) }
func Uint8(name string) uint8   { return uint8(value(name).Uint64()) }
func Byte(name string) byte     { return uint8(value(name).Uint64()) }

// Bytes returns n symbolic bytes (named name[0..n-1] in the model).
func Bytes(name string, n int) []byte {
	b := make([]byte, n)
	for i := range b {
		b[i] = Byte(fmt.Sprintf("%s.%d", name, i))
	}
	return b
}

// Choice forks the exploration n ways and returns the branch index.
func Choice(name string, n int) int {
	mu.Lock()
	defer mu.Unlock()
	load()
	if nchoice < len(rf.Choices) {
		c := rf.Choices[nchoice]
		nchoice++
		return c
	}
	nchoice++
	return 0
}

// Range returns an int in [lo,hi], one exploration branch per value.
func Range(name string, lo, hi int) int { return lo + Choice(name, hi-lo+1) }

// Assume restricts the exploration to executions where c holds.
func Assume(c bool) {
	if !c {
		Void = true
		panic(AssumeFailure{})
	}
}

// Assert is the property: it must hold on every explored execution.
func Assert(c bool, id string) {
	if !c {
		Failed = id
		panic(AssertFailure{ID: id})
	}
}

// Reach marks a program point that some explored execution must reach (vacuity guard).
func Reach(label string) {}

// Unwind sets the cap on symbolic iterations per branch instruction per call frame.
func Unwind(n int) {}

// Opt sets an engine option ("maporder", "select", "sched", "preempt", "steps", "conccap", "prefer_int", "timerfires", "switches", "notimers", "realqueries").
func Opt(name string, v int) {}

// Blocked returns the number of goroutines (other than the harness) that are blocked forever-or-now.
func Blocked() int { return 0 }

// Stub replaces the named function or method by fn for the rest of the path (engine only).
func Stub(name string, fn interface{}) { panic("verifvp.Stub: not available in native replay") }

// IdealSig returns a signature value which the ideal signature oracle accepts for (pub, msg) iff valid.
// Engine only; harnesses wrap it with a native alternative.
func IdealSig(pub, msg []byte, valid bool) []byte { panic("verifvp.IdealSig: engine only") }

// Note records a free-form fact about the explored case in the evidence samples.
func Note(s string) {}

// Fresh returns n bytes that are pairwise distinct from every other Fresh value (used for opaque ids).
func Fresh(name string, n int) []byte {
	b := make([]byte, n)
	copy(b, name)
	return b
}

// CrashPoints enables up to n simulated crashes at file-system / environment mutation points (engine only).
func CrashPoints(n int) {}

// Crashed reports whether a simulated crash has happened and Reboot has not been called yet.
func Crashed() bool { return false }

// Reboot ends a simulated crash: unsynced file tails are resolved, file operations work again.
func Reboot() {}

// CrashNow is an explicit crash point for harness-provided environment objects.
func CrashNow(name string) {}

// TempDir returns a fresh directory (engine: in the modelled file system; natively: a real one).
func TempDir() string {
	d, err := os.MkdirTemp("", "vp")
	if err != nil {
		panic(err)
	}
	return d
}

// Settle lets every other goroutine run until it has finished or is blocked (natively: a short sleep).
func Settle() { time.Sleep(100 * time.Millisecond) }

// Branch-free Boolean and selection helpers: under the engine they build one term instead of forking
// the exploration at every short-circuit; natively they are ordinary functions.

func And(xs ...bool) bool {
	for _, x := range xs {
		if !x {
			return false
		}
	}
	return true
}

func Or(xs ...bool) bool {
	for _, x := range xs {
		if x {
			return true
		}
	}
	return false
}

func Implies(a, b bool) bool { return !a || b }

func Ite32(c bool, a, b int32) int32 {
	if c {
		return a
	}
	return b
}

func Ite8(c bool, a, b int8) int8 {
	if c {
		return a
	}
	return b
}

// Sel8 returns arr[i] (0 if i is out of range) without forking on a symbolic index.
func Sel8(arr []int8, i int32) int8 {
	if i < 0 || int(i) >= len(arr) {
		return 0
	}
	return arr[i]
}

// SelBool returns arr[i] (false if out of range).
func SelBool(arr []bool, i int32) bool {
	if i < 0 || int(i) >= len(arr) {
		return false
	}
	return arr[i]
}

// AssertAll asserts every condition; under the engine the conjunction is decided with one query and,
// if it can fail, the failing conjunct's label is reported.
func AssertAll(conds []bool, labels []string, prefix string) {
	for i, c := range conds {
		Assert(c, prefix+labels[i])
	}
}

// AssumeAll assumes every condition (kept as separate constraints, so that unrelated ones can be
// left out of later solver queries).
func AssumeAll(conds []bool) {
	for _, c := range conds {
		Assume(c)
	}
}

// IOFaults enables up to n injected write failures on the modelled file system: a write returns an
// error and nothing reaches the file (engine only; natively a no-op).
func IOFaults(n int) {}
